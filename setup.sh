#!/bin/bash
# Build the Coq development from the files on disk (offline). Full .vo build.
set -e
cd "$(dirname "$0")/coq"
coq_makefile -f _CoqProject -o Makefile > /dev/null
timeout 3000 make -j16 2>&1 | tail -40
