#!/bin/bash
# Build the Coq development from the files on disk (offline). Full .vo build.
# The generated files coq/theories/Gen/*.v are first regenerated from /repo's working tree (as every check does).
set -e
cd "$(dirname "$0")"
PYTHONPATH=/repo:/verif PYTHONDONTWRITEBYTECODE=1 /venv/bin/python -c "from harness import core; print(core.translate_sources())"
cd coq
coq_makefile -f _CoqProject -o Makefile > /dev/null
timeout 3000 make -j16 2>&1 | tail -40
