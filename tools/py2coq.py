#!/usr/bin/env python3
"""Fail-closed translator of the integer decision logic of epsie into Gallina.

A second tie between /repo and the Coq model, beside the correspondence runs: the clock and
window arithmetic that the theorems of C15 / C13 / C09 / C08 hang on is re-generated from the
current source on every run (coq/theories/Gen/Src.v) and proved equal to the hand-written model
for ALL inputs (coq/theories/SrcTie.v, stated in Props/C*_src.v).

Subset: integer constants, local names, `self.<attr>` reads (parameters of the generated
definition, in sorted order; attributes that are themselves translated properties are inlined),
+ - * // % (Python floor semantics = Coq Z.div / Z.modulo), max/min/len, comparison chains,
and/or/not, `x = e`, `if`/`return`, and the one `try: x = e1 / except AttributeError: x = e2`
idiom (an attribute that may be absent becomes an `option` parameter).  Anything else raises
Untranslatable: the definition is omitted from Src.v, so that the theorem about it fails to
compile and the property is reported as no longer shown (never silently skipped).

Modes
  fun      whole function body -> one expression
  guard    the body must be exactly  [docstring] [prefix loop over chains] `dk = e` `if test: ...` (no else, nothing after):
           emits the test under the binding; the structure check is what says "nothing happens outside the window"
  calls    `if self.m(): self.n(..)` / `self.x += e`  -> (was n called, new x)
  augassign  the `<obj>.<attr> += e` statement of a function -> e
"""
import ast
import os
import sys

REPO = os.environ.get('EPSIE_REPO', '/repo')


class Untranslatable(Exception):
    pass


BINOPS = {ast.Add: '+', ast.Sub: '-', ast.Mult: '*', ast.FloorDiv: '/', ast.Mod: 'mod'}
CMPOPS = {ast.Lt: '<?', ast.LtE: '<=?', ast.Eq: '=?'}


class Tr:
    def __init__(self, cls, props, optional=(), objname='self', extra_len=None):
        self.cls, self.props, self.optional = cls, props, set(optional)
        self.attrs = set()
        self.obj = objname
        self.extra_len = extra_len
        self.locals = {}            # temporaries of the function: name -> the expression of its single assignment
        self._busy = set()

    def attr_name(self, a):
        return a.lstrip('_') if False else a

    def expr(self, e, env):
        if isinstance(e, ast.Constant):
            if isinstance(e.value, bool):
                return 'true' if e.value else 'false'
            if isinstance(e.value, int):
                return '(%d)' % e.value
            raise Untranslatable('constant %r' % (e.value,))
        if isinstance(e, ast.Name):
            if e.id in env:
                return env[e.id]
            if e.id in self.locals and e.id not in self._busy:       # a temporary: inline its (single) definition
                self._busy.add(e.id)
                try:
                    return self.expr(self.locals[e.id], env)
                finally:
                    self._busy.discard(e.id)
            raise Untranslatable('free name %s' % e.id)
        if isinstance(e, ast.Attribute) and isinstance(e.value, ast.Name) and e.value.id == self.obj:
            if e.attr in self.props:
                return '(' + self.props[e.attr](self) + ')'
            self.attrs.add(e.attr)
            return 'a_' + e.attr
        if isinstance(e, ast.BinOp) and type(e.op) in BINOPS:
            return '(%s %s %s)' % (self.expr(e.left, env), BINOPS[type(e.op)], self.expr(e.right, env))
        if isinstance(e, ast.Call) and isinstance(e.func, ast.Name) and e.func.id in ('max', 'min') and len(e.args) == 2 and not e.keywords:
            return '(Z.%s %s %s)' % (e.func.id, self.expr(e.args[0], env), self.expr(e.args[1], env))
        if (isinstance(e, ast.Call) and isinstance(e.func, ast.Name) and e.func.id == 'len' and len(e.args) == 1
                and isinstance(e.args[0], ast.Name) and e.args[0].id == self.obj):
            self.attrs.add('len')
            return 'a_len'
        raise Untranslatable('expression %s' % ast.dump(e)[:80])

    def test(self, e, env):
        if isinstance(e, ast.BoolOp):
            op = '&&' if isinstance(e.op, ast.And) else '||'
            return '(' + (' %s ' % op).join(self.test(v, env) for v in e.values) + ')'
        if isinstance(e, ast.UnaryOp) and isinstance(e.op, ast.Not):
            return '(negb %s)' % self.test(e.operand, env)
        if isinstance(e, ast.Compare):
            parts, left = [], e.left
            for op, right in zip(e.ops, e.comparators):
                a, b = self.expr(left, env), self.expr(right, env)
                if type(op) in CMPOPS:
                    parts.append('(%s %s %s)' % (a, CMPOPS[type(op)], b))
                elif isinstance(op, ast.Gt):
                    parts.append('(%s <? %s)' % (b, a))
                elif isinstance(op, ast.GtE):
                    parts.append('(%s <=? %s)' % (b, a))
                elif isinstance(op, ast.NotEq):
                    parts.append('(negb (%s =? %s))' % (a, b))
                else:
                    raise Untranslatable('comparison %s' % type(op).__name__)
                left = right
            return '(' + ' && '.join(parts) + ')'
        if isinstance(e, ast.Constant) and isinstance(e.value, bool):
            return 'true' if e.value else 'false'
        if (isinstance(e, ast.Call) and isinstance(e.func, ast.Attribute) and isinstance(e.func.value, ast.Name)
                and e.func.value.id == self.obj and e.func.attr in self.props and not e.args):
            return '(' + self.props[e.func.attr](self) + ')'
        if isinstance(e, (ast.BinOp, ast.Attribute, ast.Name)):
            return '(negb (%s =? (0)))' % self.expr(e, env)        # truthiness of an integer
        raise Untranslatable('test %s' % ast.dump(e)[:80])

    def body(self, stmts, env, boolean):
        """statements ending in returns -> expression"""
        if not stmts:
            raise Untranslatable('control reaches the end of the function without a return')
        s, rest = stmts[0], stmts[1:]
        if isinstance(s, ast.Expr) and isinstance(s.value, ast.Constant) and isinstance(s.value.value, str):
            return self.body(rest, env, boolean)
        if isinstance(s, ast.Return) and s.value is not None:
            return self.test(s.value, env) if boolean else self.expr(s.value, env)
        if isinstance(s, ast.Assign) and len(s.targets) == 1 and isinstance(s.targets[0], ast.Name):
            v = s.targets[0].id
            env2 = dict(env)
            env2[v] = 'v_' + v
            return '(let v_%s := %s in %s)' % (v, self.expr(s.value, env), self.body(rest, env2, boolean))
        if isinstance(s, ast.If):
            return '(if %s then %s else %s)' % (self.test(s.test, env), self.body(s.body + rest, env, boolean),
                                               self.body(s.orelse + rest, env, boolean))
        if isinstance(s, ast.Try):
            v, e1, e2, opt = self.try_idiom(s, env)
            env2 = dict(env)
            env2[v] = 'v_' + v
            return '(let v_%s := match a_%s with Some o_%s => %s | None => %s end in %s)' % (v, opt, opt, e1, e2, self.body(rest, env2, boolean))
        raise Untranslatable('statement %s' % type(s).__name__)

    def try_idiom(self, s, env):
        if (len(s.body) == 1 and isinstance(s.body[0], ast.Assign) and len(s.handlers) == 1 and not s.orelse and not s.finalbody
                and isinstance(s.handlers[0].type, ast.Name) and s.handlers[0].type.id == 'AttributeError'
                and len(s.handlers[0].body) == 1 and isinstance(s.handlers[0].body[0], ast.Assign)):
            a1, a2 = s.body[0], s.handlers[0].body[0]
            if (len(a1.targets) == 1 and len(a2.targets) == 1 and isinstance(a1.targets[0], ast.Name)
                    and isinstance(a2.targets[0], ast.Name) and a1.targets[0].id == a2.targets[0].id):
                t1 = Tr(self.cls, self.props, self.optional, self.obj)
                e1 = t1.expr(a1.value, env)
                t2 = Tr(self.cls, self.props, self.optional, self.obj)
                e2 = t2.expr(a2.value, env)
                only = sorted((t1.attrs - t2.attrs) & self.optional)
                if len(only) != 1 or ((t1.attrs - t2.attrs) - self.optional):
                    raise Untranslatable('try/except AttributeError over attributes %s' % sorted(t1.attrs - t2.attrs))
                opt = only[0]
                self.attrs |= (t1.attrs | t2.attrs) - {opt}
                self.attrs.add('?' + opt)
                return a1.targets[0].id, e1.replace('a_' + opt, 'o_' + opt), e2, opt
        raise Untranslatable('try statement outside the supported idiom')

    def signature(self):
        out = []
        for a in sorted(self.attrs, key=lambda x: x.lstrip('?')):
            if a.startswith('?'):
                out.append('(a_%s : option Z)' % a[1:])
            else:
                out.append('(a_%s : Z)' % a)
        return ' '.join(out)


def find_func(path, cls, fn):
    tree = ast.parse(open(os.path.join(REPO, path)).read())
    for node in tree.body:
        if isinstance(node, ast.ClassDef) and node.name == cls:
            for f in node.body:
                if isinstance(f, ast.FunctionDef) and f.name == fn:
                    return f
    raise Untranslatable('%s.%s not found in %s' % (cls, fn, path))


def single_assignments(f):
    """local names that are assigned exactly once in the function, by a plain `name = expr`"""
    count, value = {}, {}
    for n in ast.walk(f):
        if isinstance(n, ast.Assign):
            for t in n.targets:
                for m in ast.walk(t):
                    if isinstance(m, ast.Name) and isinstance(m.ctx, ast.Store):
                        count[m.id] = count.get(m.id, 0) + 1
                        if len(n.targets) == 1 and isinstance(t, ast.Name):
                            value[m.id] = n.value
        elif isinstance(n, (ast.AugAssign, ast.AnnAssign)) and isinstance(n.target, ast.Name):
            count[n.target.id] = count.get(n.target.id, 0) + 2
        elif isinstance(n, (ast.For, ast.comprehension)):
            for m in ast.walk(n.target):
                if isinstance(m, ast.Name):
                    count[m.id] = count.get(m.id, 0) + 2
    return {k: v for k, v in value.items() if count.get(k) == 1}


def find_guard(stmts):
    """a block that does something only under a condition: `if T: body` (no else, nothing after; nested single ifs are a
    conjunction) or the early-return form `if <not T>: return` followed by the body.
    Returns ([(test_ast, negated)], body statements)."""
    stmts = strip_doc(stmts)
    if not stmts or not isinstance(stmts[0], ast.If):
        raise Untranslatable('no guard')
    g = stmts[0]
    if not g.orelse and len(stmts) == 1:
        tests, body = [(g.test, False)], g.body
        while len(body) == 1 and isinstance(body[0], ast.If) and not body[0].orelse:
            tests.append((body[0].test, False))
            body = body[0].body
        return tests, body
    only_return = [s for s in g.body if not (isinstance(s, ast.Expr) and isinstance(s.value, ast.Constant))]
    if (not g.orelse and len(only_return) == 1 and isinstance(only_return[0], ast.Return)
            and (only_return[0].value is None or (isinstance(only_return[0].value, ast.Constant) and only_return[0].value.value is None))):
        return [(g.test, True)], stmts[1:]
    raise Untranslatable('something happens outside the guarded block')


def strip_doc(stmts):
    if stmts and isinstance(stmts[0], ast.Expr) and isinstance(stmts[0].value, ast.Constant) and isinstance(stmts[0].value.value, str):
        return stmts[1:]
    return stmts


def prop_nsteps(tr):
    """BaseProposal.nsteps, inlined wherever `self.nsteps` is read"""
    f = find_func('epsie/proposals/base.py', 'BaseProposal', 'nsteps')
    t = Tr(tr.cls, {'jump_interval': prop_attr('_jump_interval', 'BaseProposal', 'jump_interval')}, (), 'self')
    e = t.body(f.body, {}, False)
    tr.attrs |= t.attrs
    return e


def prop_attr(attr, cls, name):
    """a property that must be exactly `return self.<attr>`"""
    def go(tr):
        f = find_func('epsie/proposals/base.py', cls, name)
        b = strip_doc(f.body)
        if not (len(b) == 1 and isinstance(b[0], ast.Return) and isinstance(b[0].value, ast.Attribute)
                and isinstance(b[0].value.value, ast.Name) and b[0].value.value.id == 'self' and b[0].value.attr == attr):
            raise Untranslatable('property %s is not `return self.%s`' % (name, attr))
        tr.attrs.add(attr)
        return 'a_' + attr
    return go


BASE_PROPS = {'nsteps': prop_nsteps,
              'jump_interval': prop_attr('_jump_interval', 'BaseProposal', 'jump_interval'),
              'jump_interval_duration': prop_attr('_jump_interval_duration', 'BaseProposal', 'jump_interval_duration')}


def adaptive_props():
    p = dict(BASE_PROPS)
    p['start_step'] = prop_attr('_start_step', 'BaseAdaptiveSupport', 'start_step')
    p['adaptation_duration'] = prop_attr('_adaptation_duration', 'BaseAdaptiveSupport', 'adaptation_duration')
    return p


def prop_call_jump(tr):
    """BaseProposal._call_jump(), inlined wherever `self._call_jump()` is tested"""
    f = find_func('epsie/proposals/base.py', 'BaseProposal', '_call_jump')
    t = Tr('BaseProposal', BASE_PROPS, ('start_step',))
    e = t.body(f.body, {}, True)
    tr.attrs |= t.attrs
    return e


def t_delegates(name, path, cls, fn, private):
    """A public wrapper that either hands over to `self.<private>(..)` or returns a trivial value: the condition under which it
    hands over.  Accepted: `if T: return X` followed by `return Y`, `if T: return X else: return Y`, `return X if T else Y`,
    where exactly one of X, Y is the call of the private method."""
    f = find_func(path, cls, fn)
    props = dict(BASE_PROPS)
    props['_call_jump'] = prop_call_jump
    tr = Tr(cls, props, ('start_step',))
    tr.locals = single_assignments(f)
    b = [st for st in strip_doc(f.body)
         if not (isinstance(st, ast.Assign) and len(st.targets) == 1 and isinstance(st.targets[0], ast.Name) and st.targets[0].id in tr.locals)]

    def deleg(e):
        while isinstance(e, ast.Name) and e.id in tr.locals:
            e = tr.locals[e.id]
        return (isinstance(e, ast.Call) and isinstance(e.func, ast.Attribute) and e.func.attr == private
                and isinstance(e.func.value, ast.Name) and e.func.value.id == 'self')

    def ret(stmts):
        stmts = [st for st in stmts if not (isinstance(st, ast.Expr) and isinstance(st.value, ast.Constant))]
        if len(stmts) == 1 and isinstance(stmts[0], ast.Return) and stmts[0].value is not None:
            return stmts[0].value
        raise Untranslatable('%s.%s: a branch is not a single return' % (cls, fn))
    if len(b) == 2 and isinstance(b[0], ast.If) and not b[0].orelse:
        test, x, y = b[0].test, ret(b[0].body), ret(b[1:])
    elif len(b) == 1 and isinstance(b[0], ast.If) and b[0].orelse:
        test, x, y = b[0].test, ret(b[0].body), ret(b[0].orelse)
    elif len(b) == 1 and isinstance(b[0], ast.Return) and isinstance(b[0].value, ast.IfExp):
        test, x, y = b[0].value.test, b[0].value.body, b[0].value.orelse
    else:
        raise Untranslatable('%s.%s is not a choice between self.%s(..) and a trivial value' % (cls, fn, private))
    if deleg(x) == deleg(y):
        raise Untranslatable('%s.%s: exactly one branch must hand over to self.%s' % (cls, fn, private))
    t = tr.test(test, {})
    tr.attrs |= {'_jump_interval', '_jump_interval_duration', '_nsteps', '?start_step'}
    tr.attrs.discard('start_step')
    return 'Definition %s %s : bool := %s.' % (name, tr.signature(), t if deleg(x) else '(negb %s)' % t)


def t_fun(name, path, cls, fn, props, optional=(), boolean=False):
    f = find_func(path, cls, fn)
    tr = Tr(cls, props, optional)
    e = tr.body(f.body, {}, boolean)
    return 'Definition %s %s : %s := %s.' % (name, tr.signature(), 'bool' if boolean else 'Z', e)


def t_guard(name, path, cls, fn, props, var='dk', allow_prefix_loop=False, body_is_call=None):
    f = find_func(path, cls, fn)
    b = strip_doc(f.body)
    if allow_prefix_loop and b and isinstance(b[0], ast.For):
        b = b[1:]
    tr = Tr(cls, props)
    env = {}
    pre = ''
    if var is not None:
        # the step count since the start of the adaptation, under whatever name
        if not (b and isinstance(b[0], ast.Assign) and len(b[0].targets) == 1 and isinstance(b[0].targets[0], ast.Name)):
            raise Untranslatable('%s.%s does not start with `<steps> = ...`' % (cls, fn))
        var = b[0].targets[0].id
        pre = 'let v_%s := %s in ' % (var, tr.expr(b[0].value, {}))
        env[var] = 'v_' + var
        b = b[1:]
    try:
        tests, body = find_guard(b)
    except Untranslatable:
        raise Untranslatable('%s.%s is not a single guarded block (something happens outside the window)' % (cls, fn))
    if body_is_call is not None:
        if not (len(body) == 1 and isinstance(body[0], ast.Expr) and isinstance(body[0].value, ast.Call)
                and isinstance(body[0].value.func, ast.Attribute) and body[0].value.func.attr == body_is_call):
            raise Untranslatable('%s.%s: guarded block is not a single call of %s' % (cls, fn, body_is_call))
    parts = [('(negb %s)' % tr.test(t, env)) if neg else tr.test(t, env) for t, neg in tests]
    return 'Definition %s %s : bool := %s(%s).' % (name, tr.signature(), pre, ' && '.join(parts))


def t_calls(name, path, cls, fn, props, cond_method, called, counter):
    """`if self.<cond_method>(): self.<called>(..)` then `self.<counter> += e` -> (bool, Z)"""
    f = find_func(path, cls, fn)
    b = strip_doc(f.body)
    tr = Tr(cls, props)
    if not (len(b) == 2 and isinstance(b[0], ast.If) and not b[0].orelse and len(b[0].body) == 1
            and isinstance(b[0].body[0], ast.Expr) and isinstance(b[0].body[0].value, ast.Call)
            and isinstance(b[0].body[0].value.func, ast.Attribute) and b[0].body[0].value.func.attr == called
            and isinstance(b[0].test, ast.Call) and isinstance(b[0].test.func, ast.Attribute) and b[0].test.func.attr == cond_method
            and isinstance(b[1], ast.AugAssign) and isinstance(b[1].op, ast.Add) and isinstance(b[1].target, ast.Attribute)
            and b[1].target.attr == counter):
        raise Untranslatable('%s.%s is not `if self.%s(): self.%s(..)` followed by `self.%s += ..`' % (cls, fn, cond_method, called, counter))
    tr.attrs.add(counter)
    inc = tr.expr(b[1].value, {})
    return ('Definition %s %s : bool * Z := (%s, a_%s + %s).'
            % (name, '%s', '%s', counter, inc)), tr


def t_augassign(name, path, cls, fn, obj, attr):
    f = find_func(path, cls, fn)
    found = None
    for node in ast.walk(f):
        if (isinstance(node, ast.AugAssign) and isinstance(node.target, ast.Attribute) and node.target.attr == attr
                and isinstance(node.target.value, ast.Name) and node.target.value.id == obj):
            if found is not None or not isinstance(node.op, ast.Add):
                raise Untranslatable('%s.%s: more than one / non-additive update of %s.%s' % (cls, fn, obj, attr))
            found = node
    if found is None:
        raise Untranslatable('%s.%s: no `%s.%s += ...`' % (cls, fn, obj, attr))
    tr = Tr(cls, {}, (), obj)
    e = tr.expr(found.value, {'niterations': 'niterations'})
    tr.attrs.add(attr)
    return 'Definition %s (niterations : Z) %s : Z := a_%s + %s.' % (name, tr.signature(), attr, e)


def t_local(name, path, cls, fn, var, obj='self'):
    """the single top-level assignment `var = e` of a function"""
    f = find_func(path, cls, fn)
    asg = [n for n in f.body if isinstance(n, ast.Assign) and len(n.targets) == 1 and isinstance(n.targets[0], ast.Name) and n.targets[0].id == var]
    if len(asg) != 1:
        raise Untranslatable('%s.%s: expected exactly one `%s = ...`' % (cls, fn, var))
    tr = Tr(cls, {}, (), obj)
    e = tr.expr(asg[0].value, {})
    return 'Definition %s %s : Z := %s.' % (name, tr.signature(), e)


def t_store_index(name, path, cls, fn, arrays, var):
    """the index expression of every store `self.<array>[index] = ...` (all must agree), over the local `var`"""
    f = find_func(path, cls, fn)
    seen = {}
    for n in ast.walk(f):
        if (isinstance(n, ast.Assign) and len(n.targets) == 1 and isinstance(n.targets[0], ast.Subscript)
                and isinstance(n.targets[0].value, ast.Attribute) and isinstance(n.targets[0].value.value, ast.Name)
                and n.targets[0].value.value.id == 'self' and n.targets[0].value.attr in arrays):
            tr = Tr(cls, {})
            tr.locals = {k: v for k, v in single_assignments(f).items() if k != var}
            seen[n.targets[0].value.attr] = (tr.expr(n.targets[0].slice, {var: 'v_' + var}), tr)
    if sorted(seen) != sorted(arrays) or len({v[0] for v in seen.values()}) != 1:
        raise Untranslatable('%s.%s: the stores into %s do not all use one index expression' % (cls, fn, arrays))
    e, tr = list(seen.values())[0]
    return 'Definition %s (v_%s : Z) %s : Z := %s.' % (name, var, tr.signature(), e)


def t_attr_assign(name, path, cls, fn, attr, props):
    """the value of the single assignment `self.<attr> = e` in a method (an integer expression over self's attributes)"""
    f = find_func(path, cls, fn)
    hits = [n for n in ast.walk(f) if isinstance(n, ast.Assign) and len(n.targets) == 1 and isinstance(n.targets[0], ast.Attribute)
            and n.targets[0].attr == attr and isinstance(n.targets[0].value, ast.Name) and n.targets[0].value.id == 'self']
    if len(hits) != 1:
        raise Untranslatable('%s.%s: expected exactly one `self.%s = ...`' % (cls, fn, attr))
    tr = Tr(cls, props)
    tr.locals = single_assignments(f)
    e = tr.expr(hits[0].value, {})
    return 'Definition %s %s : Z := %s.' % (name, tr.signature(), e)


def t_view_upper(name, path, cls, fn, array):
    """the upper bound of the view `self.<array>[:upper]` returned by a property"""
    f = find_func(path, cls, fn)
    hits = [n for n in ast.walk(f) if isinstance(n, ast.Subscript) and isinstance(n.slice, ast.Slice) and isinstance(n.value, ast.Attribute)
            and n.value.attr == array and isinstance(n.value.value, ast.Name) and n.value.value.id == 'self']
    if len(hits) != 1 or hits[0].slice.lower is not None or hits[0].slice.step is not None or hits[0].slice.upper is None:
        raise Untranslatable('%s.%s: expected one view self.%s[:upper]' % (cls, fn, array))
    tr = Tr(cls, {})
    e = tr.expr(hits[0].slice.upper, {})
    return 'Definition %s %s : Z := %s.' % (name, tr.signature(), e)


def t_extend_amount(name, path, cls, fn):
    """the amount E of the single `self.extend(E)` call of a function, over its arguments and `len(self)`"""
    f = find_func(path, cls, fn)
    calls = [n for n in ast.walk(f) if isinstance(n, ast.Call) and isinstance(n.func, ast.Attribute) and n.func.attr == 'extend'
             and isinstance(n.func.value, ast.Name) and n.func.value.id == 'self']
    if len(calls) != 1 or len(calls[0].args) != 1:
        raise Untranslatable('%s.%s: expected exactly one self.extend(E)' % (cls, fn))
    tr = Tr(cls, {})
    env = {a.arg: 'p_' + a.arg for a in f.args.args if a.arg != 'self'}
    for n in f.body:                       # locals bound to len(self)
        if (isinstance(n, ast.Assign) and len(n.targets) == 1 and isinstance(n.targets[0], ast.Name) and isinstance(n.value, ast.Call)
                and isinstance(n.value.func, ast.Name) and n.value.func.id == 'len'):
            env[n.targets[0].id] = tr.expr(n.value, {})
    e = tr.expr(calls[0].args[0], env)
    used = [a for a in env if ('p_' + a) in e]
    return 'Definition %s %s %s : Z := %s.' % (name, ' '.join('(p_%s : Z)' % a for a in sorted(used)), tr.signature(), e), f, tr, env


def t_set_len(name):
    """ChainData.set_len: `if <len> < n: self.extend(n - <len>) else: raise ValueError` -> the guard and the amount"""
    text, f, tr, env = t_extend_amount(name + '_amount', 'epsie/chain/chaindata.py', 'ChainData', 'set_len')
    ifs = [n for n in f.body if isinstance(n, ast.If)]
    if not (len(ifs) == 1 and len(ifs[0].body) == 1 and isinstance(ifs[0].body[0], ast.Expr) and isinstance(ifs[0].body[0].value, ast.Call)
            and ifs[0].body[0].value.func.attr == 'extend' and len(ifs[0].orelse) == 1 and isinstance(ifs[0].orelse[0], ast.Raise)):
        raise Untranslatable('ChainData.set_len is not `if <test>: self.extend(..) else: raise`')
    t2 = Tr('ChainData', {})
    t2.attrs |= tr.attrs
    g = t2.test(ifs[0].test, env)
    used = [a for a in env if ('p_' + a) in g]
    return text + '\n\nDefinition %s_grows %s %s : bool := %s.' % (name, ' '.join('(p_%s : Z)' % a for a in sorted(used)), t2.signature(), g)


def targets():
    ad = adaptive_props()
    out = []

    def add(name, thunk):
        try:
            out.append((name, thunk(), None))
        except (Untranslatable, SyntaxError, OSError) as e:
            out.append((name, None, str(e)))
    add('src_nsteps', lambda: t_fun('src_nsteps', 'epsie/proposals/base.py', 'BaseProposal', 'nsteps', BASE_PROPS))
    add('src_call_jump', lambda: t_fun('src_call_jump', 'epsie/proposals/base.py', 'BaseProposal', '_call_jump', BASE_PROPS,
                                       optional=('start_step',), boolean=True))

    def upd():
        tmpl, tr = t_calls('src_update', 'epsie/proposals/base.py', 'BaseProposal', 'update', BASE_PROPS, '_call_jump', '_update', '_nsteps')
        f = find_func('epsie/proposals/base.py', 'BaseProposal', '_call_jump')
        t2 = Tr('BaseProposal', BASE_PROPS, ('start_step',))
        cj = t2.body(f.body, {}, True)
        t2.attrs |= tr.attrs
        return tmpl % (t2.signature(), cj)
    add('src_update', upd)
    add('src_reset_start', lambda: t_attr_assign('src_reset_start', 'epsie/proposals/base.py', 'BaseAdaptiveSupport', '_reset_adaptation', 'start_step', BASE_PROPS))
    add('src_jump_delegates', lambda: t_delegates('src_jump_delegates', 'epsie/proposals/base.py', 'BaseProposal', 'jump', '_jump'))
    add('src_logpdf_delegates', lambda: t_delegates('src_logpdf_delegates', 'epsie/proposals/base.py', 'BaseProposal', 'logpdf', '_logpdf'))
    add('src_veitch_window', lambda: t_guard('src_veitch_window', 'epsie/proposals/normal.py', 'AdaptiveSupport', '_update', ad))
    add('src_at_window', lambda: t_guard('src_at_window', 'epsie/proposals/normal.py', 'ATAdaptiveSupport', '_update', ad))
    add('src_eig_window', lambda: t_guard('src_eig_window', 'epsie/proposals/eigenvector.py', 'AdaptiveEigenvectorSupport', '_update', ad))
    add('src_kappa_window', lambda: t_guard('src_kappa_window', 'epsie/proposals/solid_angle.py', 'AdaptiveIsotropicSolidAngleSupport', '_update', ad))
    add('src_swap_due', lambda: t_guard('src_swap_due', 'epsie/chain/ptchain.py', 'ParallelTemperedChain', 'step', {}, var=None,
                                        allow_prefix_loop=True, body_is_call='swap_temperatures'))
    PTC = 'epsie/chain/ptchain.py'
    add('src_swap_ii', lambda: t_local('src_swap_ii', PTC, 'ParallelTemperedChain', 'swap_temperatures', 'ii'))
    # the annealer: its decay clock and the row of acceptance ratios it reads, as functions of the chain's counters
    add('src_ann_clock', lambda: t_local('src_ann_clock', PTC, 'DynamicalAnnealer', '__call__', 'iteration', obj='chain'))
    add('src_ann_row', lambda: t_local('src_ann_row', PTC, 'DynamicalAnnealer', '__call__', 'row', obj='chain'))
    add('src_swap_row', lambda: t_store_index('src_swap_row', PTC, 'ParallelTemperedChain', 'swap_temperatures',
                                              ['_temperature_acceptance', '_temperature_swaps'], 'ii'))
    add('src_swaps_view_rows', lambda: t_view_upper('src_swaps_view_rows', PTC, 'ParallelTemperedChain', 'temperature_swaps', '_temperature_swaps'))
    add('src_acceptance_view_rows', lambda: t_view_upper('src_acceptance_view_rows', PTC, 'ParallelTemperedChain', 'temperature_acceptance',
                                                         '_temperature_acceptance'))
    add('src_setitem_extend', lambda: t_extend_amount('src_setitem_extend', 'epsie/chain/chaindata.py', 'ChainData', '__setitem__')[0])
    add('src_set_len', lambda: t_set_len('src_set_len'))
    add('src_len', lambda: t_fun('src_len', 'epsie/chain/base.py', 'BaseChain', '__len__', {}))
    add('src_run_scratchlen', lambda: t_augassign('src_run_scratchlen', 'epsie/samplers/base.py', 'BaseSampler', 'run', 'c', 'scratchlen'))
    return out


def model_census(names=('model', '_model')):
    """every place where the user's model (or, with other names, another method) is called, with its loop depth, and every other
    place where the object is read (handed on to another object), over all of epsie/"""
    sites, escapes = [], []

    def visit(node, qual, depth, rel):
        for ch in ast.iter_child_nodes(node):
            q, d = qual, depth
            if isinstance(ch, (ast.ClassDef, ast.FunctionDef, ast.AsyncFunctionDef, ast.Lambda)):
                q = qual + [getattr(ch, 'name', '<lambda>')]
            if isinstance(ch, (ast.For, ast.While, ast.ListComp, ast.GeneratorExp, ast.DictComp, ast.SetComp)):
                d = depth + 1
            if isinstance(ch, ast.Call) and isinstance(ch.func, ast.Attribute) and ch.func.attr in names:
                sites.append(('%s:%s' % (rel, '.'.join(q)), d))
            elif isinstance(ch, ast.Call) and isinstance(ch.func, ast.Name) and ch.func.id in names:
                sites.append(('%s:%s' % (rel, '.'.join(q)), d))
            elif (isinstance(ch, ast.Attribute) and ch.attr in names and isinstance(ch.ctx, ast.Load)
                  and not (isinstance(node, ast.Call) and node.func is ch)):
                escapes.append('%s:%s' % (rel, '.'.join(q)))
            elif isinstance(ch, ast.Name) and ch.id in names and isinstance(ch.ctx, ast.Load) and not (isinstance(node, ast.Call) and node.func is ch):
                escapes.append('%s:%s' % (rel, '.'.join(q)))
            visit(ch, q, d, rel)
    base = os.path.join(REPO, 'epsie')
    for root, _, files in sorted(os.walk(base)):
        for fn in sorted(files):
            if fn.endswith('.py'):
                path = os.path.join(root, fn)
                visit(ast.parse(open(path).read()), [], 0, os.path.relpath(path, REPO))
    # a private helper that is called from exactly one place is part of its caller
    ndefs = {}
    for root, _d, files in sorted(os.walk(base)):
        for fn in sorted(files):
            if fn.endswith('.py'):
                for n in ast.walk(ast.parse(open(os.path.join(root, fn)).read())):
                    if isinstance(n, (ast.FunctionDef, ast.AsyncFunctionDef)):
                        ndefs[n.name] = ndefs.get(n.name, 0) + 1
    for _ in range(3):
        changed = False
        for k, (site, depth) in enumerate(list(sites)):
            rel, qual = site.split(':', 1)
            helper = qual.split('.')[-1]
            if not helper.startswith('_') or helper.startswith('__') or ndefs.get(helper, 0) != 1:
                continue            # only a helper with a unique name: a method overridden in several classes is not one function
            callers = []
            for root, _d, files in sorted(os.walk(base)):
                for fn in sorted(files):
                    if fn.endswith('.py'):
                        path = os.path.join(root, fn)
                        callers += call_sites(ast.parse(open(path).read()), os.path.relpath(path, REPO), helper)
            if len(callers) == 1 and callers[0][0] != site:
                sites[k] = (callers[0][0], depth + callers[0][1])
                changed = True
        if not changed:
            break
    return sorted(sites), sorted(set(escapes))


def call_sites(tree, rel, attr):
    """(qualified function, loop depth) of every call `<anything>.<attr>(...)` in a module"""
    out = []

    def visit(node, qual, depth):
        for ch in ast.iter_child_nodes(node):
            q, d = qual, depth
            if isinstance(ch, (ast.ClassDef, ast.FunctionDef, ast.AsyncFunctionDef, ast.Lambda)):
                q = qual + [getattr(ch, 'name', '<lambda>')]
            if isinstance(ch, (ast.For, ast.While, ast.ListComp, ast.GeneratorExp, ast.DictComp, ast.SetComp)):
                d = depth + 1
            if isinstance(ch, ast.Call) and isinstance(ch.func, ast.Attribute) and ch.func.attr == attr:
                out.append(('%s:%s' % (rel, '.'.join(q)), d))
            visit(ch, q, d)
    visit(tree, [], 0)
    return out


def generate_calls():
    lines = ['(* GENERATED by tools/py2coq.py from the current /repo sources - do not edit. *)',
             'From Coq Require Import String List.', 'Import ListNotations.', 'Local Open Scope string_scope.', '']
    failed = []
    try:
        sites, escapes = model_census()
        lines.append('Definition src_model_call_sites : list (string * nat) := [%s].'
                     % '; '.join('("%s", %d%%nat)' % (a, d) for a, d in sites))
        lines.append('')
        lines.append('Definition src_model_handed_on : list string := [%s].' % '; '.join('"%s"' % a for a in escapes))
        lines.append('')
        sites2, _ = model_census(('step',))
        lines.append('Definition src_step_call_sites : list (string * nat) := [%s].'
                     % '; '.join('("%s", %d%%nat)' % (a, d) for a, d in sites2))
    except (SyntaxError, OSError) as e:
        lines.append('(* src_model_call_sites: NOT TRANSLATED: %s *)' % str(e).replace('*)', '* )'))
        failed.append(('src_model_call_sites', str(e)))
    lines.append('')
    return '\n'.join(lines), failed


def rng_census():
    """every reference to a source of randomness other than a chain's own generator, over all of epsie/:
    names imported from numpy.random / random, attribute chains through numpy.random or the stdlib random module,
    and scipy-style `.rvs(` calls (which draw from the process-wide RandomState unless given one)"""
    imports, uses = [], []
    base = os.path.join(REPO, 'epsie')
    for root, _, files in sorted(os.walk(base)):
        for fn in sorted(files):
            if not fn.endswith('.py'):
                continue
            path = os.path.join(root, fn)
            rel = os.path.relpath(path, REPO)
            tree = ast.parse(open(path).read())
            for n in ast.walk(tree):
                if isinstance(n, ast.ImportFrom) and n.module in ('numpy.random', 'random', 'numpy.random.mtrand'):
                    for a in n.names:
                        imports.append('%s:%s.%s' % (rel, n.module, a.name))
                elif isinstance(n, ast.Import):
                    for a in n.names:
                        if a.name in ('random', 'numpy.random') or a.name.startswith('numpy.random.'):
                            imports.append('%s:%s' % (rel, a.name))
                elif isinstance(n, ast.Attribute):
                    chain = []
                    m = n
                    while isinstance(m, ast.Attribute):
                        chain.append(m.attr)
                        m = m.value
                    if isinstance(m, ast.Name):
                        chain.append(m.id)
                        full = '.'.join(reversed(chain))
                        if full.startswith(('numpy.random.', 'np.random.', 'random.')) and full.count('.') >= (2 if not full.startswith('random.') else 1):
                            uses.append('%s:%s' % (rel, full))
                if isinstance(n, ast.Call) and isinstance(n.func, ast.Attribute) and n.func.attr == 'rvs':
                    uses.append('%s:.rvs()' % rel)
                if isinstance(n, ast.Call) and isinstance(n.func, ast.Attribute) and n.func.attr in ('default_rng', 'RandomState', 'seed'):
                    uses.append('%s:.%s()' % (rel, n.func.attr))
    return sorted(set(imports)), sorted(set(uses))


def generate_rng():
    lines = ['(* GENERATED by tools/py2coq.py from the current /repo sources - do not edit. *)',
             'From Coq Require Import String List.', 'Import ListNotations.', 'Local Open Scope string_scope.', '']
    failed = []
    try:
        imports, uses = rng_census()
        lines.append('Definition src_rng_imports : list string := [%s].' % '; '.join('"%s"' % a for a in imports))
        lines.append('')
        lines.append('Definition src_global_rng_uses : list string := [%s].' % '; '.join('"%s"' % a for a in uses))
    except (SyntaxError, OSError) as e:
        lines.append('(* src_rng_imports: NOT TRANSLATED: %s *)' % str(e).replace('*)', '* )'))
        failed.append(('src_rng_imports', str(e)))
    lines.append('')
    return '\n'.join(lines), failed


def write_if_changed(path, text):
    old = open(path).read() if os.path.exists(path) else None
    if old != text:
        os.makedirs(os.path.dirname(path), exist_ok=True)
        with open(path + '.tmp', 'w') as f:
            f.write(text)
        os.replace(path + '.tmp', path)


def generate():
    lines = ['(* GENERATED by tools/py2coq.py from the current /repo sources - do not edit. *)',
             'From Coq Require Import ZArith Bool.', 'Local Open Scope Z_scope.', '']
    failed = []
    for name, text, err in targets():
        if text is None:
            lines.append('(* %s: NOT TRANSLATED: %s *)' % (name, err.replace('*)', '* )')))
            failed.append((name, err))
        else:
            lines.append(text)
        lines.append('')
    return '\n'.join(lines), failed


def main():
    out = sys.argv[1] if len(sys.argv) > 1 else None
    if len(sys.argv) > 2 or out is None:
        text2, failed2 = generate_calls()
        if out is None:
            print(text2)
        else:
            old2 = open(sys.argv[2]).read() if os.path.exists(sys.argv[2]) else None
            if old2 != text2:
                with open(sys.argv[2] + '.tmp', 'w') as f:
                    f.write(text2)
                os.replace(sys.argv[2] + '.tmp', sys.argv[2])
        for name, err in failed2:
            print('py2coq: %s not translated: %s' % (name, err), file=sys.stderr)
    if len(sys.argv) > 3 or out is None:
        text3, failed3 = generate_rng()
        if out is None:
            print(text3)
        else:
            write_if_changed(sys.argv[3], text3)
        for name, err in failed3:
            print('py2coq: %s not translated: %s' % (name, err), file=sys.stderr)
    text, failed = generate()
    if out is None:
        print(text)
    else:
        os.makedirs(os.path.dirname(out), exist_ok=True)
        old = open(out).read() if os.path.exists(out) else None
        if old != text:
            with open(out + '.tmp', 'w') as f:
                f.write(text)
            os.replace(out + '.tmp', out)
    for name, err in failed:
        print('py2coq: %s not translated: %s' % (name, err), file=sys.stderr)
    return 0


if __name__ == '__main__':
    sys.exit(main())
