#!/usr/bin/env python3
"""Print a python source file without docstrings/comments (reading aid)."""
import ast,sys
def strip(path):
    src=open(path).read()
    tree=ast.parse(src)
    for node in ast.walk(tree):
        if isinstance(node,(ast.FunctionDef,ast.ClassDef,ast.Module)):
            if node.body and isinstance(node.body[0],ast.Expr) and isinstance(getattr(node.body[0],'value',None),ast.Constant) and isinstance(node.body[0].value.value,str):
                node.body = node.body[1:] or [ast.Pass()]
    print(ast.unparse(tree))
for p in sys.argv[1:]:
    print('#### ',p); strip(p)
