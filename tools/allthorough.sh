#!/bin/bash
# usage: tools/allthorough.sh "<ids>"  -- run every thorough check once (coqchk included), print the summary lines
cd /verif
ids=${1:-$(python3 -c "import json;print(' '.join(c['property_id'] for c in json.load(open('MANIFEST.json'))['checks']))")}
for p in $ids; do
  t0=$(date +%s)
  out=$(./check $p --tier thorough 2>&1); rc=$?
  echo "$out" | grep -v "^KNOWN" | tail -1 | sed "s/^/rc=$rc ($(( $(date +%s) - t0 ))s) /"
  echo "$out" | grep "^VIOLATION" | head -2
done
