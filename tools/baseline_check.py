#!/usr/bin/env python3
"""Run the pinned suite in a repo dir and compare with BASELINE.json's stable_pass set."""
import json, subprocess, sys, xml.etree.ElementTree as ET, os, tempfile
repo = sys.argv[1] if len(sys.argv) > 1 else '/repo'
base = json.load(open('/root/.vp/BASELINE.json'))
stable = set(base['stable_pass'])
fd, xmlp = tempfile.mkstemp(suffix='.xml', dir='/var/tmp'); os.close(fd)
env = dict(os.environ, PYTHONPATH=repo)
subprocess.run(['/venv/bin/python', '-m', 'pytest', '-q', '-p', 'no:cacheprovider', '-n', '8', '--timeout=900',
                '--continue-on-collection-errors', '--junitxml=' + xmlp], cwd=repo, env=env,
               stdout=subprocess.DEVNULL, stderr=subprocess.DEVNULL)
passed = set()
for tc in ET.parse(xmlp).getroot().iter('testcase'):
    name = tc.get('classname') + '::' + tc.get('name')
    if not any(ch.tag in ('failure', 'error', 'skipped') for ch in tc):
        passed.add(name)
os.unlink(xmlp)
missing = sorted(stable - passed)
print('stable_pass: %d, passing now: %d, stable tests not passing: %d' % (len(stable), len(passed), len(missing)))
for m in missing[:20]:
    print('  NOT PASSING:', m)
sys.exit(1 if missing else 0)
