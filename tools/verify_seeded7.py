#!/usr/bin/env python3
"""Round 7 (three changes per sub-agent): collect mN.diff / demoN_<pid>.py from /tmp/wt7-<pid>, confirm each independently in a scratch
worktree at /repo's HEAD (demo passes without / fails with the change; the stable baseline tests still pass with it), store under
seeded/<pid>g<N>/ (patch.diff, demo_<pid>.py, meta.json)."""
import json, os, shutil, subprocess, sys, time
VERIF = os.path.dirname(os.path.dirname(os.path.abspath(__file__)))
ids = sys.argv[1:]
WT = '/tmp/verify-wt7-' + '-'.join(ids)[:40]
props = {json.loads(l)['id']: json.loads(l) for l in open(os.path.join(VERIF, 'properties.jsonl'))}
HEAD = subprocess.check_output(['git', '-C', '/repo', 'rev-parse', '--short', 'HEAD']).decode().strip()


def sh(cmd, cwd=None, timeout=3600):
    p = subprocess.run(cmd, shell=True, cwd=cwd, stdout=subprocess.PIPE, stderr=subprocess.STDOUT, text=True, timeout=timeout)
    return p.returncode, p.stdout


subprocess.run('git -C /repo worktree remove --force %s 2>/dev/null; git -C /repo worktree add -q --detach %s HEAD' % (WT, WT), shell=True)
env = 'PYTHONHASHSEED=0 PYTHONPATH=%s PYTHONDONTWRITEBYTECODE=1' % WT
for pid in ids:
    src = '/tmp/wt7-%s' % pid
    try:
        agent = json.load(open(os.path.join(src, 'meta_agent.json')))
    except Exception:
        agent = []
    for n in (1, 2, 3):
        patch, demo_src = os.path.join(src, 'm%d.diff' % n), os.path.join(src, 'demo%d_%s.py' % (n, pid))
        if not (os.path.exists(patch) and os.path.exists(demo_src)):
            print('%se%d missing' % (pid, n), flush=True)
            continue
        mid = '%sg%d' % (pid, n)
        d = os.path.join(VERIF, 'seeded', mid)
        os.makedirs(d, exist_ok=True)
        shutil.copy(patch, os.path.join(d, 'patch.diff'))
        demo = os.path.join(d, 'demo_%s.py' % pid)
        shutil.copy(demo_src, demo)
        t0 = time.time()
        sh('git checkout -q -- . && git clean -fdq', cwd=WT)
        rc0, out0 = sh('%s timeout 1200 /venv/bin/python %s' % (env, demo), cwd=WT)
        rca, outa = sh('git apply %s' % os.path.join(d, 'patch.diff'), cwd=WT)
        rc1, out1 = sh('%s timeout 1200 /venv/bin/python %s' % (env, demo), cwd=WT)
        rcs, outs = sh('python3 %s/tools/baseline_check.py %s' % (VERIF, WT))
        ma = next((a for a in agent if isinstance(a, dict) and a.get('patch') == 'm%d.diff' % n), {}) if isinstance(agent, list) else {}
        meta = dict(property=pid, title=props[pid]['title'], round=7, summary=ma.get('summary'), needs=ma.get('needs'),
                    confirmed=dict(worktree_commit=HEAD, patch_applies=rca == 0, demo_exit_without_change=rc0, demo_exit_with_change=rc1,
                                   demo_tail_with_change=out1.strip().splitlines()[-3:],
                                   baseline_suite=outs.strip().splitlines()[0] if outs.strip() else '', stable_tests_still_pass=rcs == 0,
                                   wall_s=round(time.time() - t0, 1)),
                    valid=(rca == 0 and rc0 == 0 and rc1 != 0 and rcs == 0))
        json.dump(meta, open(os.path.join(d, 'meta.json'), 'w'), indent=1)
        print(mid, 'valid' if meta['valid'] else 'INVALID', rc0, rc1, meta['confirmed']['baseline_suite'], flush=True)
subprocess.run('git -C /repo worktree remove --force %s' % WT, shell=True)
