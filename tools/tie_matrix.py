#!/usr/bin/env python3
"""Source ties against a set of patches, without touching /repo or /verif's build: for each patch (seeded/refactors/<id>/patch.diff
by default, or seeded/<id>/patch.diff for ids given on the command line) apply it to a scratch worktree of /repo, regenerate every
Gen/*.v from that tree into a scratch copy of coq/theories, and rebuild only what depends on the generated files (make, the same
_CoqProject).  Prints which tie / Props/*_src files fail.  For behaviour-preserving refactorings every failure is a false alarm of the
fail-closed kind; for seeded changes a failure is a detection by proof.

usage: tools/tie_matrix.py [--seeded] [ids...]"""
import json, os, re, shutil, subprocess, sys, time
VERIF = os.path.dirname(os.path.dirname(os.path.abspath(__file__)))
args = [a for a in sys.argv[1:] if not a.startswith('--')]
seeded = '--seeded' in sys.argv
BASE = os.path.join(VERIF, 'seeded') if seeded else os.path.join(VERIF, 'seeded', 'refactors')
ids = args or sorted(d for d in os.listdir(BASE) if os.path.exists(os.path.join(BASE, d, 'patch.diff')))
WT = '/tmp/tie-matrix-wt'
SCR = '/var/tmp/tie-matrix'


def sh(cmd, cwd=None, env=None, timeout=3600):
    p = subprocess.run(cmd, shell=True, cwd=cwd, env=env, stdout=subprocess.PIPE, stderr=subprocess.STDOUT, text=True, timeout=timeout)
    return p.returncode, p.stdout


sh('git -C /repo worktree remove --force %s' % WT)
sh('git -C /repo worktree add -q --detach %s HEAD' % WT)
shutil.rmtree(SCR, ignore_errors=True)
os.makedirs(SCR)
# a scratch copy of the Coq project with its compiled files: only what depends on Gen/*.v is rebuilt
sh('rsync -a --exclude .lia.cache --exclude .nia.cache %s/coq/ %s/coq/' % (VERIF, SCR))
COQ = os.path.join(SCR, 'coq')
TH = os.path.join(COQ, 'theories')
GEN = [('py2coq.py', ['Src.v', 'SrcCalls.v', 'SrcRng.v']), ('py2coq_num.py', ['SrcNum.v', 'SrcAdapt.v', 'SrcLadder.v']), ('py2coq_h5.py', ['SrcH5.v']),
       ('py2coq_state.py', ['SrcState.v']), ('py2coq_jump.py', ['SrcJump.v'])]
env = dict(os.environ, EPSIE_REPO=WT)
results = {}
try:
    for rid in ids:
        patch = os.path.join(BASE, rid, 'patch.diff')
        sh('git checkout -q -- . && git clean -fdq', cwd=WT)
        rc, out = sh('git apply %s' % patch, cwd=WT)
        if rc != 0:
            print(rid, 'does not apply', flush=True)
            continue
        t0 = time.time()
        notes = []
        for tool, outs in GEN:
            rc, out = sh('python3 %s %s' % (os.path.join(VERIF, 'tools', tool), ' '.join(os.path.join(TH, 'Gen', o) for o in outs)), env=env)
            notes += [l for l in out.splitlines() if 'not translated' in l.lower()]
        rc, out = sh('timeout 1500 make -k -j16 2>&1 | tail -300', cwd=COQ)
        failed = sorted(set(re.findall(r'\*\*\* \[[^\]]*?theories/([\w/]+)\.vo\]', out)))
        results[rid] = dict(failed=failed, not_translated=notes, wall_s=round(time.time() - t0, 1))
        print(rid, 'fails:', failed or 'none', ('| ' + '; '.join(n.split(': ', 1)[-1][:90] for n in notes[:3])) if notes else '', flush=True)
finally:
    sh('git -C /repo worktree remove --force %s' % WT)
    shutil.rmtree(SCR, ignore_errors=True)
out_path = os.path.join(BASE, 'TIE_MATRIX.json')
merged = json.load(open(out_path)) if os.path.exists(out_path) else {}
merged.update(results)
json.dump(merged, open(out_path, 'w'), indent=1, sort_keys=True)
