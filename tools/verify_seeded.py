#!/usr/bin/env python3
"""Confirm each seeded change independently in a scratch worktree at the pinned commit:
demo passes without / fails with the change; the 410 stable baseline tests still pass with it.
Writes seeded/<id>/meta.json."""
import json, os, subprocess, sys, time
VERIF = os.path.dirname(os.path.dirname(os.path.abspath(__file__)))
PIN = 'b336bc2'
WT = '/tmp/verify-wt'
ids = sys.argv[1:] or sorted(os.listdir(os.path.join(VERIF, 'seeded')))
props = {json.loads(l)['id']: json.loads(l) for l in open(os.path.join(VERIF, 'properties.jsonl'))}

def sh(cmd, cwd=None, timeout=3600):
    p = subprocess.run(cmd, shell=True, cwd=cwd, stdout=subprocess.PIPE, stderr=subprocess.STDOUT, text=True, timeout=timeout)
    return p.returncode, p.stdout

subprocess.run('git -C /repo worktree remove --force %s 2>/dev/null; git -C /repo worktree add -q --detach %s %s' % (WT, WT, PIN), shell=True)
env = 'PYTHONPATH=%s PYTHONDONTWRITEBYTECODE=1' % WT
for pid in ids:
    d = os.path.join(VERIF, 'seeded', pid)
    if not os.path.exists(os.path.join(d, 'patch.diff')):
        continue
    t0 = time.time()
    sh('git checkout -q -- . && git clean -fdq', cwd=WT)
    demo = os.path.join(d, 'demo_%s.py' % pid)
    rc0, out0 = sh('%s timeout 1200 /venv/bin/python %s' % (env, demo), cwd=WT)
    rca, outa = sh('git apply %s' % os.path.join(d, 'patch.diff'), cwd=WT)
    rc1, out1 = sh('%s timeout 1200 /venv/bin/python %s' % (env, demo), cwd=WT)
    rcs, outs = sh('python3 %s/tools/baseline_check.py %s' % (VERIF, WT))
    agent = {}
    try:
        agent = json.load(open(os.path.join(d, 'meta_agent.json')))
    except Exception:
        pass
    meta = dict(
        property=pid, title=props[pid]['title'],
        summary=agent.get('summary'), needs=agent.get('needs'),
        confirmed=dict(
            worktree_commit=PIN,
            patch_applies=rca == 0,
            demo_exit_without_change=rc0, demo_exit_with_change=rc1,
            demo_tail_with_change=out1.strip().splitlines()[-3:],
            baseline_suite=outs.strip().splitlines()[0] if outs.strip() else '',
            stable_tests_still_pass=rcs == 0,
            commands=['git apply patch.diff (scratch worktree at %s)' % PIN,
                      'PYTHONPATH=<wt> /venv/bin/python demo_%s.py  (before and after applying)' % pid,
                      'tools/baseline_check.py <wt>  (pinned suite vs BASELINE.json stable_pass)'],
            wall_s=round(time.time() - t0, 1)),
        valid=(rca == 0 and rc0 == 0 and rc1 != 0 and rcs == 0))
    json.dump(meta, open(os.path.join(d, 'meta.json'), 'w'), indent=1)
    print(pid, 'valid' if meta['valid'] else 'INVALID', meta['confirmed']['demo_exit_without_change'], meta['confirmed']['demo_exit_with_change'],
          meta['confirmed']['baseline_suite'], flush=True)
subprocess.run('git -C /repo worktree remove --force %s' % WT, shell=True)
