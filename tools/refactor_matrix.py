#!/usr/bin/env python3
"""Behaviour-preserving refactorings (seeded/refactors/<id>/patch.diff) against ALL quick checks: apply to /repo, run the 20 checks
(4 at a time), revert, record which checks raise an alarm (every alarm here is a false alarm of the fail-closed kind or worse) in
seeded/refactors/MATRIX.json."""
import json, os, subprocess, sys, time
from concurrent.futures import ThreadPoolExecutor
VERIF = os.path.dirname(os.path.dirname(os.path.abspath(__file__)))
RDIR = os.path.join(VERIF, 'seeded', 'refactors')
ids = sys.argv[1:] or sorted(d for d in os.listdir(RDIR) if os.path.isdir(os.path.join(RDIR, d)))
path = os.path.join(RDIR, 'MATRIX.json')
M = json.load(open(path)) if os.path.exists(path) else {}
PIDS = ['C%02d' % i for i in range(1, 21)]


def sh(cmd, cwd=None):
    p = subprocess.run(cmd, shell=True, cwd=cwd, stdout=subprocess.PIPE, stderr=subprocess.STDOUT, text=True)
    return p.returncode, p.stdout


def one(pid):
    rc, out = sh('./check %s --tier quick' % pid, cwd=VERIF)
    lines = [l for l in out.splitlines() if l.startswith('VIOLATION')]
    return pid, rc, lines, out.strip().splitlines()[-1][:200] if out.strip() else ''


assert sh('git -C /repo diff --quiet')[0] == 0, '/repo has uncommitted changes'
# runs against a changed tree must not leave their evidence behind
sh('rm -rf /var/tmp/evidence_keep && cp -r %s/evidence /var/tmp/evidence_keep' % VERIF)
import atexit
atexit.register(lambda: sh('rm -rf %s/evidence && mv /var/tmp/evidence_keep %s/evidence' % (VERIF, VERIF)))
for rid in ids:
    patch = os.path.join(RDIR, rid, 'patch.diff')
    rc, out = sh('git -C /repo apply %s' % patch)
    if rc != 0:
        M[rid] = dict(applies=False, error=out[-300:])
        print(rid, 'does not apply', flush=True)
        continue
    t0 = time.time()
    sh('./check C20 --tier quick', cwd=VERIF)          # one build first, so that the parallel runs do not queue on the make lock
    with ThreadPoolExecutor(max_workers=4) as ex:
        res = list(ex.map(one, PIDS))
    sh('git -C /repo checkout -- .')
    alarms = {pid: dict(rc=rc_, lines=lines[:2], last=last) for pid, rc_, lines, last in res if rc_ != 0}
    M[rid] = dict(applies=True, alarms=alarms, wall_s=round(time.time() - t0, 1))
    print(rid, 'alarms:', sorted(alarms) or 'none', '(%.0fs)' % (time.time() - t0), flush=True)
    json.dump(M, open(path, 'w'), indent=1, sort_keys=True)
json.dump(M, open(path, 'w'), indent=1, sort_keys=True)
sh('./check C20 --tier quick', cwd=VERIF)              # regenerate Gen/*.v from the clean tree
