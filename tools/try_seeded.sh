#!/bin/bash
# usage: tools/try_seeded.sh <mutant id> <check id> [tier]   -- apply seeded/<id>/patch.diff to /repo, run ./check, revert
set -u
cd /verif
mid=$1; cid=$2; tier=${3:-quick}
if ! git -C /repo diff --quiet; then echo "/repo has uncommitted changes"; exit 2; fi
if ! git -C /repo apply --3way seeded/$mid/patch.diff 2>/tmp/apply.err; then
  if ! (cd /repo && patch -p1 --fuzz=3 -s < /verif/seeded/$mid/patch.diff); then echo "patch does not apply"; git -C /repo checkout -- . ; git -C /repo reset -q; exit 3; fi
fi
git -C /repo reset -q
./check $cid --tier $tier 2>&1 | tail -${4:-6}
echo "exit=${PIPESTATUS[0]}"
git -C /repo checkout -- . ; find /repo -name "*.orig" -o -name "*.rej" | xargs -r rm -f
git -C /repo status --short | head -3
