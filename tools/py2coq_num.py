#!/usr/bin/env python3
"""Fail-closed translator of the scalar float kernels of epsie into Gallina over the numeric type
class of the model (coq/theories/Num.v): the Metropolis-Hastings acceptance (Chain._acceptance_ratio,
the forced reject of Chain.step) and the per-pair exchange kernel inside
ParallelTemperedChain.swap_temperatures.  Output: coq/theories/Gen/SrcNum.v, regenerated from
/repo's working tree on every run; coq/theories/SrcTie_num.v proves each generated definition equal
to the hand-written kernel (MH.v, SweepNum.v) over the reals for all inputs (Props/C01_src.v,
Props/C03_src.v).

Subset: names, `self.beta`, the float constants 0. and 1. and integer constants, + - * / and unary -,
numpy.exp / numpy.log, comparisons with > < <= >= (and `== -numpy.inf`), numpy.isnan, and/or/not,
assignments, augmented assignments, if/else, `raise` (-> SRaise), `x = self.random_generator.uniform()`
(-> the oracle parameter u, and the result records that a uniform was drawn), calls of
`self.proposal_dist.logpdf(a, b)` with a, b in {current_pos, proposal} (-> the oracle parameters
q_rev = logpdf(current_pos, proposal), q_fwd = logpdf(proposal, current_pos)),
`self.proposal_dist.symmetric` (-> a boolean parameter), subscripts `dbetas[tj]` (-> the parameter
dbeta) and `return accept, ar`.  Anything else: the definition is omitted (its theorem then fails)."""
import ast
import os
import sys

sys.path.insert(0, os.path.dirname(os.path.abspath(__file__)))
from py2coq import Untranslatable, find_func, strip_doc, REPO   # noqa


def dotted(e):
    if isinstance(e, ast.Name):
        return e.id
    if isinstance(e, ast.Attribute):
        b = dotted(e.value)
        return None if b is None else b + '.' + e.attr
    return None


class NTr:
    def __init__(self, oracles=None, subscripts=None, any_attr=False):
        self.any_attr = any_attr    # adaptation slices: every `self.<attr>` read is a parameter, `**` and decimal literals allowed
        self.params = []            # (name, type) in order of first use
        self.oracles = oracles or {}
        self.subscripts = subscripts or {}

    def param(self, name, ty='T'):
        if (name, ty) not in self.params:
            self.params.append((name, ty))
        return name

    # ---- numeric expressions
    def num(self, e, env):
        if isinstance(e, ast.Constant) and not isinstance(e.value, bool):
            if isinstance(e.value, float):
                if e.value == 1.0:
                    return 'none'
                if e.value == 0.0:
                    return 'nzero'
                if self.any_attr:
                    from fractions import Fraction
                    fr = Fraction(repr(e.value))          # the decimal literal as written, an exact rational over the reals
                    return '(ndiv (nofZ (%d)%%Z) (nofZ (%d)%%Z))' % (fr.numerator, fr.denominator)
                raise Untranslatable('float constant %r' % e.value)
            if isinstance(e.value, int):
                return '(nofZ (%d)%%Z)' % e.value
        if isinstance(e, ast.Name):
            if e.id in env:
                ty, v = env[e.id]
                if ty != 'T':
                    raise Untranslatable('%s used as a number' % e.id)
                return v
            raise Untranslatable('free name %s' % e.id)
        d = dotted(e)
        if d == 'self.beta':
            return self.param('a_beta')
        if self.any_attr and d is not None and d.startswith('self.') and d.count('.') == 1:
            return self.param('a_' + d[5:].lstrip('_'))
        if self.any_attr and isinstance(e, ast.BinOp) and isinstance(e.op, ast.Pow):
            return '(npow %s %s)' % (self.num(e.left, env), self.num(e.right, env))
        if isinstance(e, ast.BinOp) and type(e.op) in (ast.Add, ast.Sub, ast.Mult, ast.Div):
            op = {ast.Add: 'nadd', ast.Sub: 'nsub', ast.Mult: 'nmul', ast.Div: 'ndiv'}[type(e.op)]
            return '(%s %s %s)' % (op, self.num(e.left, env), self.num(e.right, env))
        if isinstance(e, ast.UnaryOp) and isinstance(e.op, ast.USub):
            return '(nopp %s)' % self.num(e.operand, env)
        if isinstance(e, ast.Call) and not e.keywords:
            f = dotted(e.func)
            if f in ('numpy.exp', 'numpy.log') and len(e.args) == 1:
                return '(%s %s)' % ('nexp' if f == 'numpy.exp' else 'nln', self.num(e.args[0], env))
            key = (f, tuple(dotted(a) for a in e.args))
            if key in self.oracles:
                return self.param(self.oracles[key])
        if isinstance(e, ast.Subscript):
            key = (dotted(e.value), dotted(e.slice) or ast.unparse(e.slice))
            if key in self.subscripts:
                return self.param(self.subscripts[key])
        raise Untranslatable('numeric expression %s' % ast.dump(e)[:90])

    # ---- boolean expressions
    def boo(self, e, env):
        if isinstance(e, ast.Constant) and isinstance(e.value, bool):
            return 'true' if e.value else 'false'
        if isinstance(e, ast.Name) and e.id in env and env[e.id][0] == 'bool':
            return env[e.id][1]
        if isinstance(e, ast.UnaryOp) and isinstance(e.op, ast.Not):
            return '(negb %s)' % self.boo(e.operand, env)
        if isinstance(e, ast.BoolOp):
            op = '&&' if isinstance(e.op, ast.And) else '||'
            return '(' + (' %s ' % op).join(self.boo(v, env) for v in e.values) + ')'
        if dotted(e) == 'self.proposal_dist.symmetric':
            return self.param('symmetric', 'bool')
        if isinstance(e, ast.Call) and dotted(e.func) == 'numpy.isnan' and len(e.args) == 1:
            return '(nisnan %s)' % self.num(e.args[0], env)
        if isinstance(e, ast.Compare) and len(e.ops) == 1:
            op, a, b = e.ops[0], e.left, e.comparators[0]
            if isinstance(op, ast.Eq) and isinstance(b, ast.UnaryOp) and isinstance(b.op, ast.USub) and dotted(b.operand) == 'numpy.inf':
                return '(nisneginf %s)' % self.num(a, env)
            x, y = self.num(a, env), self.num(b, env)
            if isinstance(op, ast.Gt):
                return '(nltb %s %s)' % (y, x)
            if isinstance(op, ast.Lt):
                return '(nltb %s %s)' % (x, y)
            if isinstance(op, ast.LtE):
                return '(nleb %s %s)' % (x, y)
            if isinstance(op, ast.GtE):
                return '(nleb %s %s)' % (y, x)
        raise Untranslatable('boolean expression %s' % ast.dump(e)[:90])

    def is_bool(self, e, env):
        if isinstance(e, ast.Constant):
            return isinstance(e.value, bool)
        if isinstance(e, (ast.Compare, ast.BoolOp)):
            return True
        if isinstance(e, ast.UnaryOp) and isinstance(e.op, ast.Not):
            return True
        if isinstance(e, ast.Name) and e.id in env:
            return env[e.id][0] == 'bool'
        if isinstance(e, ast.Call) and dotted(e.func) == 'numpy.isnan':
            return True
        return False

    # ---- statements, continuation style; `ret` builds the final term from the environment
    def body(self, stmts, env, drew, ret):
        if not stmts:
            return ret(self, env, drew)
        s, rest = stmts[0], stmts[1:]
        if isinstance(s, ast.Expr) and isinstance(s.value, ast.Constant) and isinstance(s.value.value, str):
            return self.body(rest, env, drew, ret)
        if isinstance(s, ast.Raise):
            return 'SRaise'
        if isinstance(s, ast.Return):
            if isinstance(s.value, ast.Tuple) and len(s.value.elts) == 2:
                return '(SRet %s %s %s)' % (self.boo(s.value.elts[0], env), self.num(s.value.elts[1], env), 'true' if drew else 'false')
            raise Untranslatable('return of something else than (accept, ar)')
        if isinstance(s, ast.Assign) and len(s.targets) == 1 and isinstance(s.targets[0], ast.Name):
            v = s.targets[0].id
            env2 = dict(env)
            if isinstance(s.value, ast.Call) and dotted(s.value.func) == 'self.random_generator.uniform' and not s.value.args and not s.value.keywords:
                if drew:
                    raise Untranslatable('two uniforms drawn on one path')
                env2[v] = ('T', self.param('u'))
                return self.body(rest, env2, True, ret)
            if self.is_bool(s.value, env):
                env2[v] = ('bool', 'b_' + v)
                return '(let b_%s := %s in %s)' % (v, self.boo(s.value, env), self.body(rest, env2, drew, ret))
            env2[v] = ('T', 'v_' + v)
            return '(let v_%s := %s in %s)' % (v, self.num(s.value, env), self.body(rest, env2, drew, ret))
        if isinstance(s, ast.AugAssign) and isinstance(s.target, ast.Name) and isinstance(s.op, (ast.Add, ast.Sub)):
            v = s.target.id
            op = 'nadd' if isinstance(s.op, ast.Add) else 'nsub'
            env2 = dict(env)
            cur = self.num(ast.Name(id=v), env)
            self.fresh = getattr(self, 'fresh', 0) + 1
            nm = 'v_%s_%d' % (v, self.fresh)
            env2[v] = ('T', nm)
            return '(let %s := (%s %s %s) in %s)' % (nm, op, cur, self.num(s.value, env), self.body(rest, env2, drew, ret))
        if isinstance(s, ast.If):
            return '(if %s then %s else %s)' % (self.boo(s.test, env), self.body(s.body + rest, env, drew, ret),
                                               self.body(s.orelse + rest, env, drew, ret))
        raise Untranslatable('statement %s' % type(s).__name__)

    def signature(self, order=None):
        ps = list(self.params)
        if order:
            ps.sort(key=lambda p: order.index(p[0]) if p[0] in order else len(order))
        return ' '.join('(%s : %s)' % p for p in ps)


MH_ORACLES = {('self.proposal_dist.logpdf', ('current_pos', 'proposal')): 'q_rev',
              ('self.proposal_dist.logpdf', ('proposal', 'current_pos')): 'q_fwd'}
MH_ORDER = ['a_beta', 'symmetric', 'q_rev', 'q_fwd', 'logp', 'logl', 'current_logp', 'current_logl', 'logar', 'u']


def args_env(f, skip=('self',)):
    return {a.arg: ('T', a.arg) for a in f.args.args if a.arg not in skip}


def split_at_if_on(stmts, var):
    """index of the first `if` whose test mentions the local `var`"""
    for i, s in enumerate(stmts):
        if isinstance(s, ast.If) and any(isinstance(n, ast.Name) and n.id == var for n in ast.walk(s.test)):
            return i
    raise Untranslatable('no `if` on %s' % var)


def t_mh_logar():
    f = find_func('epsie/chain/chain.py', 'Chain', '_acceptance_ratio')
    b = strip_doc(f.body)
    i = split_at_if_on(b, 'logar')
    tr = NTr(MH_ORACLES)
    env = args_env(f)
    for a in ('logp', 'logl', 'current_logp', 'current_logl'):
        if a not in env:
            raise Untranslatable('_acceptance_ratio has no argument %s' % a)
        tr.param(a)
    e = tr.body(b[:i], env, False, lambda t, env_, drew: t.num(ast.Name(id='logar'), env_))
    for p_ in ('a_beta', 'symmetric', 'q_rev', 'q_fwd'):
        tr.param(p_, 'bool' if p_ == 'symmetric' else 'T')
    return 'Definition src_mh_logar {T : Type} `{Num T} %s : T := %s.' % (tr.signature(MH_ORDER), e)


def t_mh_decide():
    f = find_func('epsie/chain/chain.py', 'Chain', '_acceptance_ratio')
    b = strip_doc(f.body)
    i = split_at_if_on(b, 'logar')
    tr = NTr(MH_ORACLES)
    tr.param('logar')
    tr.param('u')

    def noret(t, env_, drew):
        raise Untranslatable('control reaches the end of _acceptance_ratio without a return')
    e = tr.body(b[i:], {'logar': ('T', 'logar')}, False, noret)
    return 'Definition src_mh_decide {T : Type} `{Num T} %s : sres T := %s.' % (tr.signature(MH_ORDER), e)


def t_step_forced():
    """`if logp == -numpy.inf: accept = False; ar = 0.  else: accept, ar = self._acceptance_ratio(logp, logl, proposal, current_logp, current_logl, current_pos)`"""
    f = find_func('epsie/chain/chain.py', 'Chain', 'step')
    node = None
    for s in f.body:
        if isinstance(s, ast.If) and isinstance(s.test, ast.Compare) and dotted(s.test.left) == 'logp':
            node = s
            break
    if node is None:
        raise Untranslatable('Chain.step has no `if logp == ...`')
    tr = NTr()
    test = tr.boo(node.test, {'logp': ('T', tr.param('logp'))})
    oe = node.orelse
    want = ['logp', 'logl', 'proposal', 'current_logp', 'current_logl', 'current_pos']
    if not (len(oe) == 1 and isinstance(oe[0], ast.Assign) and isinstance(oe[0].targets[0], ast.Tuple)
            and [dotted(x) for x in oe[0].targets[0].elts] == ['accept', 'ar'] and isinstance(oe[0].value, ast.Call)
            and dotted(oe[0].value.func) == 'self._acceptance_ratio' and [dotted(a) for a in oe[0].value.args] == want
            and not oe[0].value.keywords):
        raise Untranslatable('the else branch of the forced reject is not `accept, ar = self._acceptance_ratio(%s)`' % ', '.join(want))
    forced = tr.body(node.body, {}, False, lambda t, env_, drew: '(SRet %s %s false)' % (t.boo(ast.Name(id='accept'), env_), t.num(ast.Name(id='ar'), env_)))
    return ('Definition src_step_decide {T : Type} `{Num T} (logp : T) (inner : sres T) : sres T := if %s then %s else inner.'
            % (test, forced))


def swap_loop():
    f = find_func('epsie/chain/ptchain.py', 'ParallelTemperedChain', 'swap_temperatures')
    loops = [s for s in f.body if isinstance(s, ast.For) and isinstance(s.iter, ast.Call) and dotted(s.iter.func) == 'range']
    for lp in loops:
        a = lp.iter.args
        if (len(a) == 3 and isinstance(a[0], ast.BinOp) and isinstance(a[0].op, ast.Sub) and dotted(a[0].left) == 'self.ntemps'
                and isinstance(a[0].right, ast.Constant) and a[0].right.value == 1 and isinstance(a[1], ast.Constant) and a[1].value == 0
                and isinstance(a[2], ast.UnaryOp) and isinstance(a[2].op, ast.USub) and isinstance(a[2].operand, ast.Constant)
                and a[2].operand.value == 1 and dotted(lp.target) == 'tk'):
            return lp
    raise Untranslatable('swap_temperatures has no `for tk in range(self.ntemps-1, 0, -1)`')


def t_swap_logar():
    lp = swap_loop()
    tj_ok = any(isinstance(s, ast.Assign) and dotted(s.targets[0]) == 'tj' and isinstance(s.value, ast.BinOp) and isinstance(s.value.op, ast.Sub)
                and dotted(s.value.left) == 'tk' and isinstance(s.value.right, ast.Constant) and s.value.right.value == 1 for s in lp.body)
    if not tj_ok:
        raise Untranslatable('the loop does not set tj = tk - 1')
    asg = [s for s in lp.body if isinstance(s, ast.Assign) and dotted(s.targets[0]) == 'logar']
    if len(asg) != 1:
        raise Untranslatable('the loop does not assign logar exactly once')
    tr = NTr(subscripts={('dbetas', 'tj'): 'dbeta'})
    for p_ in ('dbeta', 'loglj', 'loglk'):
        tr.param(p_)
    e = tr.num(asg[0].value, {'loglj': ('T', 'loglj'), 'loglk': ('T', 'loglk')})
    return 'Definition src_swap_logar {T : Type} `{Num T} %s : T := %s.' % (tr.signature(), e)


def t_swap_decide():
    lp = swap_loop()
    i = split_at_if_on(lp.body, 'logar')
    tr = NTr()
    tr.param('logar')
    tr.param('u')
    e = tr.body([lp.body[i]], {'logar': ('T', 'logar')}, False,
                lambda t, env_, drew: '(SRet %s %s %s)' % (t.boo(ast.Name(id='swap'), env_), t.num(ast.Name(id='ar'), env_), 'true' if drew else 'false'))
    return 'Definition src_swap_decide {T : Type} `{Num T} %s : sres T := %s.' % (tr.signature(MH_ORDER), e)


# ---------------------------------------------------------------------------
# adaptation: the scalar arithmetic inside the guarded block of each _update
def guarded_body(path, cls, fn):
    f = find_func(path, cls, fn)
    b = strip_doc(f.body)
    if not (len(b) == 2 and isinstance(b[0], ast.Assign) and dotted(b[0].targets[0]) == 'dk' and isinstance(b[1], ast.If) and not b[1].orelse):
        raise Untranslatable('%s.%s is not `dk = ...; if <window>: ...`' % (cls, fn))
    return b[1].body


def t_factor(name, path, cls, fn):
    """the statement `dk = <expression in dk>` that turns the step count into the decaying gain"""
    body = guarded_body(path, cls, fn)
    asg = [s for s in body if isinstance(s, ast.Assign) and dotted(s.targets[0]) == 'dk']
    if len(asg) != 1 or body.index(asg[0]) != 0:
        raise Untranslatable('%s.%s: the guarded block does not start with one `dk = ...`' % (cls, fn))
    tr = NTr(any_attr=True)
    tr.param('dk')
    e = tr.num(asg[0].value, {'dk': ('T', 'dk')})
    return 'Definition %s {T : Type} `{Num T} %s : T := %s.' % (name, tr.signature(), e)


def t_log_update(name, path, cls, fn, attr, skip_call=None):
    """`self.<attr> += <expression in dk, ar>`: the Robbins-Monro step of the log-scale"""
    body = guarded_body(path, cls, fn)
    hits = []
    for s in body:
        for n in ast.walk(s):
            if isinstance(n, ast.AugAssign) and dotted(n.target) == 'self.' + attr:
                if skip_call and isinstance(n.value, ast.Call) and dotted(n.value.func) == skip_call:
                    continue
                hits.append(n)
    if len(hits) != 1 or not isinstance(hits[0].op, ast.Add):
        raise Untranslatable('%s.%s: expected exactly one `self.%s += ...`' % (cls, fn, attr))
    tr = NTr(any_attr=True)
    for p_ in ('cur', 'd', 'ar'):
        tr.param(p_)
    e = tr.num(hits[0].value, {'dk': ('T', 'd'), 'ar': ('T', 'ar')})
    return 'Definition %s {T : Type} `{Num T} %s : T := (nadd cur %s).' % (name, tr.signature(), e)


def t_cw_update(name):
    """_componentwise_scaling: `dlog_lambda[i] = dk * (ar - self.target_rate)` and the forced ratio 0 of a virtual move out of the prior"""
    f = find_func('epsie/proposals/normal.py', 'ATAdaptiveSupport', '_componentwise_scaling')
    asg = [n for n in ast.walk(f) if isinstance(n, ast.Assign) and isinstance(n.targets[0], ast.Subscript) and dotted(n.targets[0].value) == 'dlog_lambda']
    ifs = [n for n in ast.walk(f) if isinstance(n, ast.If) and isinstance(n.test, ast.Compare) and dotted(n.test.left) == 'logp']
    if len(asg) != 1 or len(ifs) != 1:
        raise Untranslatable('_componentwise_scaling: expected one `dlog_lambda[i] = ...` and one `if logp == ...`')
    tr = NTr(any_attr=True)
    for p_ in ('d', 'ar'):
        tr.param(p_)
    e = tr.num(asg[0].value, {'dk': ('T', 'd'), 'ar': ('T', 'ar')})
    t2 = NTr(any_attr=True)
    test = t2.boo(ifs[0].test, {'logp': ('T', 'logp')})
    forced = ifs[0].body
    oe = ifs[0].orelse
    if not (len(forced) == 1 and isinstance(forced[0], ast.Assign) and dotted(forced[0].targets[0]) == 'ar'
            and len(oe) == 1 and isinstance(oe[0], ast.Assign) and isinstance(oe[0].targets[0], ast.Tuple)
            and dotted(oe[0].targets[0].elts[1]) == 'ar' and isinstance(oe[0].value, ast.Call)
            and dotted(oe[0].value.func) == 'chain._acceptance_ratio'):
        raise Untranslatable('_componentwise_scaling: the virtual move is not `if logp == -inf: ar = c else: _, ar = chain._acceptance_ratio(..)`')
    fz = t2.num(forced[0].value, {})
    return ('Definition %s {T : Type} `{Num T} %s : T := %s.\n\nDefinition %s_ar {T : Type} `{Num T} (logp : T) (inner : T) : T := if %s then %s else inner.'
            % (name, tr.signature(), e, name, test, fz))


def is_accepted_expr(e, aliases):
    """`chain.acceptance[-1]['accepted']`, or a local name bound to it"""
    if isinstance(e, ast.Name):
        return e.id in aliases
    return (isinstance(e, ast.Subscript) and isinstance(e.slice, ast.Constant) and e.slice.value == 'accepted'
            and isinstance(e.value, ast.Subscript) and dotted(e.value.value) == 'chain.acceptance'
            and isinstance(e.value.slice, ast.UnaryOp) and isinstance(e.value.slice.op, ast.USub)
            and isinstance(e.value.slice.operand, ast.Constant) and e.value.slice.operand.value == 1)


def t_veitch_alpha():
    """alpha = (1 - target) after an accepted step, (-target) after a rejected one - as an if/else statement or a conditional
    expression - and the increment alpha * dk * deltas / 10 (assigned to `dsigmas`, or added to the widths directly)"""
    body = guarded_body('epsie/proposals/normal.py', 'AdaptiveSupport', '_update')
    aliases = {dotted(s.targets[0]) for s in body if isinstance(s, ast.Assign) and len(s.targets) == 1 and is_accepted_expr(s.value, set())}
    a1 = a0 = None
    tr = NTr(any_attr=True)
    for s in body:
        if isinstance(s, ast.If) and is_accepted_expr(s.test, aliases) and len(s.body) == 1 and len(s.orelse) == 1 \
                and all(isinstance(x, ast.Assign) and dotted(x.targets[0]) == 'alpha' for x in (s.body[0], s.orelse[0])):
            a1, a0 = tr.num(s.body[0].value, {}), tr.num(s.orelse[0].value, {})
        elif isinstance(s, ast.Assign) and dotted(s.targets[0]) == 'alpha' and isinstance(s.value, ast.IfExp) and is_accepted_expr(s.value.test, aliases):
            a1, a0 = tr.num(s.value.body, {}), tr.num(s.value.orelse, {})
    if a1 is None:
        raise Untranslatable("AdaptiveSupport._update: alpha is not chosen by chain.acceptance[-1]['accepted']")
    inc = None
    for s in body:
        if isinstance(s, ast.Assign) and dotted(s.targets[0]) == 'dsigmas':
            inc = s.value
        elif (inc is None and isinstance(s, ast.Assign) and isinstance(s.value, ast.BinOp) and isinstance(s.value.op, ast.Add)
              and dotted(s.value.left) in ('sigmas', 'self._std') and any(isinstance(n, ast.Name) and n.id == 'alpha' for n in ast.walk(s.value.right))):
            inc = s.value.right
    if inc is None:
        raise Untranslatable('AdaptiveSupport._update: no increment of the widths in alpha found')
    t2 = NTr(any_attr=True)
    for p_ in ('alpha', 'd'):
        t2.param(p_)
    e = t2.num(inc, {'alpha': ('T', 'alpha'), 'dk': ('T', 'd')})
    return ('Definition src_veitch_alpha {T : Type} `{Num T} (accepted : bool) %s : T := if accepted then %s else %s.\n\n'
            'Definition src_veitch_dsigma {T : Type} `{Num T} %s : T := %s.' % (tr.signature(), a1, a0, t2.signature(), e))


ADAPT_TARGETS = (
    ('src_veitch_factor', lambda: t_factor('src_veitch_factor', 'epsie/proposals/normal.py', 'AdaptiveSupport', '_update')),
    ('src_veitch_alpha', t_veitch_alpha),
    ('src_at_factor', lambda: t_factor('src_at_factor', 'epsie/proposals/normal.py', 'ATAdaptiveSupport', '_update')),
    ('src_at_log', lambda: t_log_update('src_at_log', 'epsie/proposals/normal.py', 'ATAdaptiveSupport', '_update', '_log_lambda',
                                        skip_call='self._componentwise_scaling')),
    ('src_cw_dlog', lambda: t_cw_update('src_cw_dlog')),
    ('src_eig_factor', lambda: t_factor_after('src_eig_factor', 'epsie/proposals/eigenvector.py', 'AdaptiveEigenvectorSupport', '_update')),
    ('src_eig_log', lambda: t_log_update('src_eig_log', 'epsie/proposals/eigenvector.py', 'AdaptiveEigenvectorSupport', '_update', '_log_lambda')),
    ('src_kappa_factor', lambda: t_factor('src_kappa_factor', 'epsie/proposals/solid_angle.py', 'AdaptiveIsotropicSolidAngleSupport', '_update')),
    ('src_kappa_log', lambda: t_log_update('src_kappa_log', 'epsie/proposals/solid_angle.py', 'AdaptiveIsotropicSolidAngleSupport', '_update', '_log_kappa')),
)


def t_factor_after(name, path, cls, fn):
    """as t_factor, but statements that do not mention dk may precede the `dk = ...` (the eigenvector proposals update their covariance first)"""
    body = guarded_body(path, cls, fn)
    asg = [s for s in body if isinstance(s, ast.Assign) and dotted(s.targets[0]) == 'dk']
    if len(asg) != 1:
        raise Untranslatable('%s.%s: the guarded block does not contain exactly one `dk = ...`' % (cls, fn))
    for s in body[:body.index(asg[0])]:
        if any(isinstance(n, ast.Name) and n.id == 'dk' for n in ast.walk(s)):
            raise Untranslatable('%s.%s: dk is used before it is turned into the gain' % (cls, fn))
    tr = NTr(any_attr=True)
    tr.param('dk')
    e = tr.num(asg[0].value, {'dk': ('T', 'dk')})
    return 'Definition %s {T : Type} `{Num T} %s : T := %s.' % (name, tr.signature(), e)


def generate_adapt():
    lines = ['(* GENERATED by tools/py2coq_num.py from the current /repo sources - do not edit. *)',
             'From Coq Require Import ZArith.', 'From Epsie Require Import Num.', '']
    failed = []
    for name, thunk in ADAPT_TARGETS:
        try:
            lines.append(thunk())
        except (Untranslatable, SyntaxError, OSError) as e:
            lines.append('(* %s: NOT TRANSLATED: %s *)' % (name, str(e).replace('*)', '* )')))
            failed.append((name, str(e)))
        lines.append('')
    return '\n'.join(lines), failed


# ---------------------------------------------------------------------------
# the dynamical annealer (ptchain.py): decay, the step of each log temperature gap, the rebuilt beta, the clip of ratios above 1
PT = 'epsie/chain/ptchain.py'


def is_range(call, *want):
    return (isinstance(call, ast.Call) and dotted(call.func) == 'range' and not call.keywords
            and [ast.unparse(a) for a in call.args] == list(want))


def t_ann_decay():
    f = find_func(PT, 'DynamicalAnnealer', '_decay')
    b = strip_doc(f.body)
    if not (len(b) == 1 and isinstance(b[0], ast.Return)):
        raise Untranslatable('_decay is not a single return')
    tr = NTr(any_attr=True)
    for p_ in ('t', 'a_nu', 'a_tau'):
        tr.param(p_)
    e = tr.num(b[0].value, {'iteration': ('T', 't')})
    return 'Definition src_ann_decay {T : Type} `{Num T} %s : T := %s.' % (tr.signature(), e)


def t_ann_call():
    f = find_func(PT, 'DynamicalAnnealer', '__call__')
    out = []
    # the clip `ars[ars > c] = v`
    clips = [n for n in f.body if isinstance(n, ast.Assign) and isinstance(n.targets[0], ast.Subscript) and dotted(n.targets[0].value) == 'ars'
             and isinstance(n.targets[0].slice, ast.Compare)]
    if len(clips) != 1 or dotted(clips[0].targets[0].slice.left) != 'ars' or len(clips[0].targets[0].slice.ops) != 1:
        raise Untranslatable('__call__: expected one masked assignment `ars[ars > c] = v`')
    tr = NTr(any_attr=True)
    tr.param('a')
    cond = tr.boo(clips[0].targets[0].slice, {'ars': ('T', 'a')})
    out.append('Definition src_ann_clip {T : Type} `{Num T} %s : T := if %s then %s else a.' % (tr.signature(), cond, tr.num(clips[0].value, {})))
    # S[i] += decay * (ars[i] - ars[i+1]) for i in range(ntemps - 2)
    augs = [n for n in f.body if isinstance(n, ast.AugAssign) and dotted(n.target) == 'self._S' and isinstance(n.op, ast.Add)]
    if len(augs) != 1:
        raise Untranslatable('__call__: expected one `self._S += ...`')
    v = augs[0].value
    if not (isinstance(v, ast.Call) and dotted(v.func) == 'numpy.array' and len(v.args) == 1 and isinstance(v.args[0], ast.ListComp)
            and len(v.args[0].generators) == 1 and dotted(v.args[0].generators[0].target) == 'i' and not v.args[0].generators[0].ifs
            and is_range(v.args[0].generators[0].iter, 'chain.ntemps - 2')):
        raise Untranslatable('__call__: the step of S is not numpy.array([... for i in range(chain.ntemps - 2)])')
    tr = NTr(oracles={('self._decay', ('iteration',)): 'd'}, subscripts={('ars', 'i'): 'a0', ('ars', 'i + 1'): 'a1'}, any_attr=True)
    for p_ in ('d', 'a0', 'a1'):
        tr.param(p_)
    out.append('Definition src_ann_S_step {T : Type} `{Num T} %s : T := %s.' % (tr.signature(), tr.num(v.args[0].elt, {})))
    # betas[i] = 1/(1/betas[i-1] + exp(S[i-1])) for i in range(1, ntemps - 1), assigned to the level at once
    loops = [n for n in f.body if isinstance(n, ast.For) and dotted(n.target) == 'i' and is_range(n.iter, '1', 'chain.ntemps - 1')]
    if len(loops) != 1 or len(loops[0].body) != 2:
        raise Untranslatable('__call__: expected `for i in range(1, chain.ntemps - 1)` with two statements')
    a, b = loops[0].body
    if not (isinstance(a, ast.Assign) and ast.unparse(a.targets[0]) == 'chain.betas[i]' and isinstance(b, ast.Assign)
            and ast.unparse(b.targets[0]) == 'chain.chains[i].beta' and ast.unparse(b.value) == 'chain.betas[i]'):
        raise Untranslatable('__call__: the loop is not `chain.betas[i] = ...; chain.chains[i].beta = chain.betas[i]`')
    tr = NTr(subscripts={('chain.betas', 'i - 1'): 'prev', ('self._S', 'i - 1'): 's'}, any_attr=True)
    for p_ in ('prev', 's'):
        tr.param(p_)
    out.append('Definition src_ann_beta {T : Type} `{Num T} %s : T := %s.' % (tr.signature(), tr.num(a.value, {})))
    return '\n\n'.join(out)


def generate_ladder():
    lines = ['(* GENERATED by tools/py2coq_num.py from the current /repo sources - do not edit. *)',
             'From Coq Require Import ZArith.', 'From Epsie Require Import Num.', '']
    failed = []
    for name, thunk in (('src_ann_decay', t_ann_decay), ('src_ann_call', t_ann_call)):
        try:
            lines.append(thunk())
        except (Untranslatable, SyntaxError, OSError) as e:
            lines.append('(* %s: NOT TRANSLATED: %s *)' % (name, str(e).replace('*)', '* )')))
            failed.append((name, str(e)))
        lines.append('')
    return '\n'.join(lines), failed


def generate():
    lines = ['(* GENERATED by tools/py2coq_num.py from the current /repo sources - do not edit. *)',
             'From Coq Require Import ZArith.', 'From Epsie Require Import Num SrcSupport.', '']
    failed = []
    for name, thunk in (('src_mh_logar', t_mh_logar), ('src_mh_decide', t_mh_decide), ('src_step_decide', t_step_forced),
                        ('src_swap_logar', t_swap_logar), ('src_swap_decide', t_swap_decide)):
        try:
            lines.append(thunk())
        except (Untranslatable, SyntaxError, OSError) as e:
            lines.append('(* %s: NOT TRANSLATED: %s *)' % (name, str(e).replace('*)', '* )')))
            failed.append((name, str(e)))
        lines.append('')
    return '\n'.join(lines), failed


def emit(out, text):
    if out is None:
        print(text)
        return
    os.makedirs(os.path.dirname(out), exist_ok=True)
    old = open(out).read() if os.path.exists(out) else None
    if old != text:
        with open(out + '.tmp', 'w') as f:
            f.write(text)
        os.replace(out + '.tmp', out)


def main():
    out = sys.argv[1] if len(sys.argv) > 1 else None
    out2 = sys.argv[2] if len(sys.argv) > 2 else None
    text, failed = generate()
    emit(out, text)
    out3 = sys.argv[3] if len(sys.argv) > 3 else None
    if out2 is not None or out is None:
        text2, failed2 = generate_adapt()
        emit(out2, text2)
        failed += failed2
    if out3 is not None or out is None:
        text3, failed3 = generate_ladder()
        emit(out3, text3)
        failed += failed3
    for name, err in failed:
        print('py2coq_num: %s not translated: %s' % (name, err), file=sys.stderr)
    return 0


if __name__ == '__main__':
    sys.exit(main())
