#!/usr/bin/env python3
"""Fail-closed translator of the scalar float kernels of epsie into Gallina over the numeric type
class of the model (coq/theories/Num.v): the Metropolis-Hastings acceptance (Chain._acceptance_ratio,
the forced reject of Chain.step) and the per-pair exchange kernel inside
ParallelTemperedChain.swap_temperatures.  Output: coq/theories/Gen/SrcNum.v, regenerated from
/repo's working tree on every run; coq/theories/SrcTie_num.v proves each generated definition equal
to the hand-written kernel (MH.v, SweepNum.v) over the reals for all inputs (Props/C01_src.v,
Props/C03_src.v).

Subset: names, `self.beta`, the float constants 0. and 1. and integer constants, + - * / and unary -,
numpy.exp / numpy.log, comparisons with > < <= >= (and `== -numpy.inf`), numpy.isnan, and/or/not,
assignments, augmented assignments, if/else, `raise` (-> SRaise), `x = self.random_generator.uniform()`
(-> the oracle parameter u, and the result records that a uniform was drawn), calls of
`self.proposal_dist.logpdf(a, b)` with a, b in {current_pos, proposal} (-> the oracle parameters
q_rev = logpdf(current_pos, proposal), q_fwd = logpdf(proposal, current_pos)),
`self.proposal_dist.symmetric` (-> a boolean parameter), subscripts `dbetas[tj]` (-> the parameter
dbeta) and `return accept, ar`.  Anything else: the definition is omitted (its theorem then fails)."""
import ast
import os
import sys

sys.path.insert(0, os.path.dirname(os.path.abspath(__file__)))
from py2coq import Untranslatable, find_func, strip_doc, REPO, single_assignments, find_guard   # noqa


def dotted(e):
    if isinstance(e, ast.Name):
        return e.id
    if isinstance(e, ast.Attribute):
        b = dotted(e.value)
        return None if b is None else b + '.' + e.attr
    return None


def is_last_ratio(e):
    """`chain.acceptance['acceptance_ratio'][-1]`: the acceptance ratio of the step just made"""
    return (isinstance(e, ast.Subscript) and isinstance(e.slice, ast.UnaryOp) and isinstance(e.slice.op, ast.USub)
            and isinstance(e.slice.operand, ast.Constant) and e.slice.operand.value == 1
            and isinstance(e.value, ast.Subscript) and isinstance(e.value.slice, ast.Constant) and e.value.slice.value == 'acceptance_ratio'
            and dotted(e.value.value) == 'chain.acceptance')


def is_accepted_expr(e, aliases):
    """`chain.acceptance[-1]['accepted']`, or a local name bound to it"""
    if isinstance(e, ast.Name):
        return e.id in aliases
    return (isinstance(e, ast.Subscript) and isinstance(e.slice, ast.Constant) and e.slice.value == 'accepted'
            and isinstance(e.value, ast.Subscript) and dotted(e.value.value) == 'chain.acceptance'
            and isinstance(e.value.slice, ast.UnaryOp) and isinstance(e.value.slice.op, ast.USub)
            and isinstance(e.value.slice.operand, ast.Constant) and e.value.slice.operand.value == 1)


class NTr:
    def __init__(self, oracles=None, subscripts=None, any_attr=False):
        self.any_attr = any_attr    # adaptation slices: every `self.<attr>` read is a parameter, `**` and decimal literals allowed
        self.params = []            # (name, type) in order of first use
        self.oracles = oracles or {}
        self.subscripts = subscripts or {}
        self.locals = {}            # temporaries: name -> expression of their single assignment (inlined on demand)
        self._busy = set()
        self.helpers = {}           # private methods that may be inlined: name -> FunctionDef (straight-line ifs ending in returns)

    def resolve(self, e):
        """follow aliases: a name bound once to another expression stands for that expression"""
        seen = set()
        while (isinstance(e, ast.Name) and e.id in self.locals and e.id not in seen
               and isinstance(self.locals[e.id], (ast.Name, ast.Attribute))):        # plain aliases only
            seen.add(e.id)
            e = self.locals[e.id]
        return e

    def param(self, name, ty='T'):
        if (name, ty) not in self.params:
            self.params.append((name, ty))
        return name

    # ---- numeric expressions
    def num(self, e, env):
        if isinstance(e, ast.Constant) and not isinstance(e.value, bool):
            if isinstance(e.value, float):
                if e.value == 1.0:
                    return 'none'
                if e.value == 0.0:
                    return 'nzero'
                if self.any_attr:
                    from fractions import Fraction
                    fr = Fraction(repr(e.value))          # the decimal literal as written, an exact rational over the reals
                    return '(ndiv (nofZ (%d)%%Z) (nofZ (%d)%%Z))' % (fr.numerator, fr.denominator)
                raise Untranslatable('float constant %r' % e.value)
            if isinstance(e.value, int):
                return '(nofZ (%d)%%Z)' % e.value
        if isinstance(e, ast.Name):
            if e.id in env:
                ty, v = env[e.id]
                if ty != 'T':
                    raise Untranslatable('%s used as a number' % e.id)
                return v
            if e.id in self.locals and e.id not in self._busy:
                self._busy.add(e.id)
                try:
                    return self.num(self.locals[e.id], env)
                finally:
                    self._busy.discard(e.id)
            raise Untranslatable('free name %s' % e.id)
        if is_last_ratio(e):
            return self.param('ar')
        d = dotted(e)
        if d == 'self.beta':
            return self.param('a_beta')
        if self.any_attr and d is not None and d.startswith('self.') and d.count('.') == 1:
            return self.param('a_' + d[5:].lstrip('_'))
        if self.any_attr and isinstance(e, ast.BinOp) and isinstance(e.op, ast.Pow):
            return '(npow %s %s)' % (self.num(e.left, env), self.num(e.right, env))
        if isinstance(e, ast.BinOp) and type(e.op) in (ast.Add, ast.Sub, ast.Mult, ast.Div):
            op = {ast.Add: 'nadd', ast.Sub: 'nsub', ast.Mult: 'nmul', ast.Div: 'ndiv'}[type(e.op)]
            return '(%s %s %s)' % (op, self.num(e.left, env), self.num(e.right, env))
        if isinstance(e, ast.UnaryOp) and isinstance(e.op, ast.USub):
            return '(nopp %s)' % self.num(e.operand, env)
        if isinstance(e, ast.IfExp):
            return '(if %s then %s else %s)' % (self.boo(e.test, env), self.num(e.body, env), self.num(e.orelse, env))
        if isinstance(e, ast.Call) and not e.keywords:
            f = dotted(e.func)
            if f in ('numpy.exp', 'numpy.log') and len(e.args) == 1:
                return '(%s %s)' % ('nexp' if f == 'numpy.exp' else 'nln', self.num(e.args[0], env))
            key = (f, tuple(dotted(a) for a in e.args))
            if key in self.oracles:
                return self.param(self.oracles[key])
            if f is not None and f.startswith('self.') and f[5:] in self.helpers and f[5:] not in self._busy:
                h = self.helpers[f[5:]]
                names = [a.arg for a in h.args.args][1:]
                if len(names) != len(e.args) or h.args.vararg or h.args.kwarg or h.args.kwonlyargs:
                    raise Untranslatable('call of helper %s with other than its positional parameters' % f)
                henv = {n: ('T', self.num(a, env)) for n, a in zip(names, e.args)}
                self._busy.add(f[5:])
                try:
                    return self.returned(strip_doc(h.body), henv)
                finally:
                    self._busy.discard(f[5:])
        if isinstance(e, ast.Subscript):
            key = (dotted(self.resolve(e.value)), dotted(e.slice) or ast.unparse(e.slice))
            if key in self.subscripts:
                return self.param(self.subscripts[key])
        raise Untranslatable('numeric expression %s' % ast.dump(e)[:90])

    def returned(self, stmts, env):
        """the value a straight-line helper returns: scalar assignments, ifs, returns"""
        if not stmts:
            raise Untranslatable('a helper reaches its end without returning')
        s_, rest = stmts[0], stmts[1:]
        if isinstance(s_, ast.Return) and s_.value is not None:
            return self.num(s_.value, env)
        if isinstance(s_, ast.Assign) and len(s_.targets) == 1 and isinstance(s_.targets[0], ast.Name):
            env2 = dict(env)
            env2[s_.targets[0].id] = ('T', self.num(s_.value, env))
            return self.returned(rest, env2)
        if isinstance(s_, ast.If):
            return '(if %s then %s else %s)' % (self.boo(s_.test, env), self.returned(s_.body + rest, env), self.returned(s_.orelse + rest, env))
        raise Untranslatable('statement %s in a helper' % type(s_).__name__)

    # ---- boolean expressions
    def boo(self, e, env):
        if isinstance(e, ast.Constant) and isinstance(e.value, bool):
            return 'true' if e.value else 'false'
        if isinstance(e, ast.Name) and e.id in env and env[e.id][0] == 'bool':
            return env[e.id][1]
        if isinstance(e, ast.Name) and e.id not in env and e.id in self.locals and e.id not in self._busy:
            self._busy.add(e.id)
            try:
                return self.boo(self.locals[e.id], env)
            finally:
                self._busy.discard(e.id)
        if is_accepted_expr(e, ()):
            return self.param('accepted', 'bool')
        if isinstance(e, ast.UnaryOp) and isinstance(e.op, ast.Not):
            return '(negb %s)' % self.boo(e.operand, env)
        if isinstance(e, ast.BoolOp):
            op = '&&' if isinstance(e.op, ast.And) else '||'
            return '(' + (' %s ' % op).join(self.boo(v, env) for v in e.values) + ')'
        if dotted(e) == 'self.proposal_dist.symmetric':
            return self.param('symmetric', 'bool')
        if isinstance(e, ast.Call) and dotted(e.func) == 'numpy.isnan' and len(e.args) == 1:
            return '(nisnan %s)' % self.num(e.args[0], env)
        if isinstance(e, ast.Compare) and len(e.ops) == 1:
            op, a, b = e.ops[0], e.left, e.comparators[0]
            if isinstance(op, (ast.Eq, ast.NotEq)) and isinstance(b, ast.UnaryOp) and isinstance(b.op, ast.USub) and dotted(b.operand) == 'numpy.inf':
                t = '(nisneginf %s)' % self.num(a, env)
                return t if isinstance(op, ast.Eq) else '(negb %s)' % t
            x, y = self.num(a, env), self.num(b, env)
            if isinstance(op, ast.Gt):
                return '(nltb %s %s)' % (y, x)
            if isinstance(op, ast.Lt):
                return '(nltb %s %s)' % (x, y)
            if isinstance(op, ast.LtE):
                return '(nleb %s %s)' % (x, y)
            if isinstance(op, ast.GtE):
                return '(nleb %s %s)' % (y, x)
        raise Untranslatable('boolean expression %s' % ast.dump(e)[:90])

    def is_bool(self, e, env):
        if isinstance(e, ast.Constant):
            return isinstance(e.value, bool)
        if isinstance(e, (ast.Compare, ast.BoolOp)):
            return True
        if isinstance(e, ast.UnaryOp) and isinstance(e.op, ast.Not):
            return True
        if isinstance(e, ast.Name) and e.id in env:
            return env[e.id][0] == 'bool'
        if isinstance(e, ast.Name) and e.id in self.locals and e.id not in self._busy:
            self._busy.add(e.id)
            try:
                return self.is_bool(self.locals[e.id], env)
            finally:
                self._busy.discard(e.id)
        if isinstance(e, ast.Call) and dotted(e.func) == 'numpy.isnan':
            return True
        if is_accepted_expr(e, ()):
            return True
        return False

    # ---- statements, continuation style; `ret` builds the final term from the environment
    def body(self, stmts, env, drew, ret):
        if not stmts:
            return ret(self, env, drew)
        s, rest = stmts[0], stmts[1:]
        if isinstance(s, ast.Expr) and isinstance(s.value, ast.Constant) and isinstance(s.value.value, str):
            return self.body(rest, env, drew, ret)
        if isinstance(s, ast.Raise):
            return 'SRaise'
        if isinstance(s, ast.Return):
            if isinstance(s.value, ast.Tuple) and len(s.value.elts) == 2:
                return '(SRet %s %s %s)' % (self.boo(s.value.elts[0], env), self.num(s.value.elts[1], env), 'true' if drew else 'false')
            raise Untranslatable('return of something else than (accept, ar)')
        if isinstance(s, ast.Assign) and len(s.targets) == 1 and isinstance(s.targets[0], ast.Name):
            v = s.targets[0].id
            env2 = dict(env)
            if isinstance(s.value, ast.Call) and dotted(s.value.func) == 'self.random_generator.uniform' and not s.value.args and not s.value.keywords:
                if drew:
                    raise Untranslatable('two uniforms drawn on one path')
                env2[v] = ('T', self.param('u'))
                return self.body(rest, env2, True, ret)
            if self.is_bool(s.value, env):
                env2[v] = ('bool', 'b_' + v)
                return '(let b_%s := %s in %s)' % (v, self.boo(s.value, env), self.body(rest, env2, drew, ret))
            env2[v] = ('T', 'v_' + v)
            return '(let v_%s := %s in %s)' % (v, self.num(s.value, env), self.body(rest, env2, drew, ret))
        if isinstance(s, ast.AugAssign) and isinstance(s.target, ast.Name) and isinstance(s.op, (ast.Add, ast.Sub)):
            v = s.target.id
            op = 'nadd' if isinstance(s.op, ast.Add) else 'nsub'
            env2 = dict(env)
            cur = self.num(ast.Name(id=v), env)
            self.fresh = getattr(self, 'fresh', 0) + 1
            nm = 'v_%s_%d' % (v, self.fresh)
            env2[v] = ('T', nm)
            return '(let %s := (%s %s %s) in %s)' % (nm, op, cur, self.num(s.value, env), self.body(rest, env2, drew, ret))
        if isinstance(s, ast.If):
            return '(if %s then %s else %s)' % (self.boo(s.test, env), self.body(s.body + rest, env, drew, ret),
                                               self.body(s.orelse + rest, env, drew, ret))
        raise Untranslatable('statement %s' % type(s).__name__)

    def signature(self, order=None):
        ps = list(self.params)
        if order:
            # the listed parameters first, in that order; the others by name (so that the signature does not depend on the order of use)
            ps.sort(key=lambda p: (order.index(p[0]), '') if p[0] in order else (len(order), p[0]))
        return ' '.join('(%s : %s)' % p for p in ps)


MH_ORACLES = {('self.proposal_dist.logpdf', ('current_pos', 'proposal')): 'q_rev',
              ('self.proposal_dist.logpdf', ('proposal', 'current_pos')): 'q_fwd'}
MH_ORDER = ['a_beta', 'symmetric', 'q_rev', 'q_fwd', 'logp', 'logl', 'current_logp', 'current_logl', 'logar', 'u']


def args_env(f, skip=('self',)):
    return {a.arg: ('T', a.arg) for a in f.args.args if a.arg not in skip}


def split_at_if_on(stmts, var):
    """index of the first `if` whose test mentions the local `var`"""
    for i, s in enumerate(stmts):
        if isinstance(s, ast.If) and any(isinstance(n, ast.Name) and n.id == var for n in ast.walk(s.test)):
            return i
    raise Untranslatable('no `if` on %s' % var)


def ratio_var(b):
    """the local that holds the log of the acceptance ratio: the first name assigned in _acceptance_ratio"""
    for st in b:
        if isinstance(st, ast.Assign) and len(st.targets) == 1 and isinstance(st.targets[0], ast.Name):
            return st.targets[0].id
        if isinstance(st, ast.If):
            break
    raise Untranslatable('_acceptance_ratio does not start by computing the log ratio')


def t_mh_logar():
    f = find_func('epsie/chain/chain.py', 'Chain', '_acceptance_ratio')
    b = strip_doc(f.body)
    var = ratio_var(b)
    i = split_at_if_on(b, var)
    tr = NTr(MH_ORACLES)
    env = args_env(f)
    for a in ('logp', 'logl', 'current_logp', 'current_logl'):
        if a not in env:
            raise Untranslatable('_acceptance_ratio has no argument %s' % a)
        tr.param(a)
    e = tr.body(b[:i], env, False, lambda t, env_, drew: t.num(ast.Name(id=var), env_))
    for p_ in ('a_beta', 'symmetric', 'q_rev', 'q_fwd'):
        tr.param(p_, 'bool' if p_ == 'symmetric' else 'T')
    return 'Definition src_mh_logar {T : Type} `{Num T} %s : T := %s.' % (tr.signature(MH_ORDER), e)


def t_mh_decide():
    f = find_func('epsie/chain/chain.py', 'Chain', '_acceptance_ratio')
    b = strip_doc(f.body)
    var = ratio_var(b)
    i = split_at_if_on(b, var)
    tr = NTr(MH_ORACLES)
    tr.param('logar')
    tr.param('u')

    def noret(t, env_, drew):
        raise Untranslatable('control reaches the end of _acceptance_ratio without a return')
    e = tr.body(b[i:], {var: ('T', 'logar')}, False, noret)
    return 'Definition src_mh_decide {T : Type} `{Num T} %s : sres T := %s.' % (tr.signature(MH_ORDER), e)


STEP_ARGS = [('logp',), ('logl',), ('proposal',), ('current_logp', "current_stats['logp']"), ('current_logl', "current_stats['logl']"),
             ('current_pos',)]


def t_step_forced():
    """`if logp == -numpy.inf: accept = False; ar = 0.  else: accept, ar = self._acceptance_ratio(logp, logl, proposal, current_logp,
    current_logl, current_pos)` - or the same with the test negated and the branches swapped"""
    f = find_func('epsie/chain/chain.py', 'Chain', 'step')
    node = None
    for s in f.body:
        if isinstance(s, ast.If) and isinstance(s.test, ast.Compare) and dotted(s.test.left) == 'logp':
            node = s
            break
    if node is None:
        raise Untranslatable('Chain.step has no `if logp == ...`')
    tr = NTr()
    test = tr.boo(node.test, {'logp': ('T', tr.param('logp'))})

    def is_call(blk):
        if not (len(blk) == 1 and isinstance(blk[0], ast.Assign) and isinstance(blk[0].targets[0], ast.Tuple)
                and [dotted(x) for x in blk[0].targets[0].elts] == ['accept', 'ar'] and isinstance(blk[0].value, ast.Call)
                and dotted(blk[0].value.func) == 'self._acceptance_ratio' and not blk[0].value.keywords and len(blk[0].value.args) == len(STEP_ARGS)):
            return False
        return all(ast.unparse(a) in alts for a, alts in zip(blk[0].value.args, STEP_ARGS))

    def forced(blk):
        return tr.body(blk, {}, False, lambda t, env_, drew: '(SRet %s %s false)' % (t.boo(ast.Name(id='accept'), env_), t.num(ast.Name(id='ar'), env_)))
    if is_call(node.orelse):
        return ('Definition src_step_decide {T : Type} `{Num T} (logp : T) (inner : sres T) : sres T := if %s then %s else inner.'
                % (test, forced(node.body)))
    if is_call(node.body):
        return ('Definition src_step_decide {T : Type} `{Num T} (logp : T) (inner : sres T) : sres T := if %s then inner else %s.'
                % (test, forced(node.orelse)))
    raise Untranslatable('neither branch of the test on logp is `accept, ar = self._acceptance_ratio(logp, logl, proposal, current_logp, '
                         'current_logl, current_pos)`')


def swap_loop():
    f = find_func('epsie/chain/ptchain.py', 'ParallelTemperedChain', 'swap_temperatures')
    loops = [s for s in f.body if isinstance(s, ast.For) and isinstance(s.iter, ast.Call) and dotted(s.iter.func) == 'range']
    for lp in loops:
        a = lp.iter.args
        if (len(a) == 3 and isinstance(a[0], ast.BinOp) and isinstance(a[0].op, ast.Sub) and dotted(a[0].left) == 'self.ntemps'
                and isinstance(a[0].right, ast.Constant) and a[0].right.value == 1 and isinstance(a[1], ast.Constant) and a[1].value == 0
                and isinstance(a[2], ast.UnaryOp) and isinstance(a[2].op, ast.USub) and isinstance(a[2].operand, ast.Constant)
                and a[2].operand.value == 1 and dotted(lp.target) == 'tk'):
            return lp
    raise Untranslatable('swap_temperatures has no `for tk in range(self.ntemps-1, 0, -1)`')


def t_swap_logar():
    lp = swap_loop()
    tj_ok = any(isinstance(s, ast.Assign) and dotted(s.targets[0]) == 'tj' and isinstance(s.value, ast.BinOp) and isinstance(s.value.op, ast.Sub)
                and dotted(s.value.left) == 'tk' and isinstance(s.value.right, ast.Constant) and s.value.right.value == 1 for s in lp.body)
    if not tj_ok:
        raise Untranslatable('the loop does not set tj = tk - 1')
    asg = [s for s in lp.body if isinstance(s, ast.Assign) and dotted(s.targets[0]) == 'logar']
    if len(asg) != 1:
        raise Untranslatable('the loop does not assign logar exactly once')
    tr = NTr(subscripts={('dbetas', 'tj'): 'dbeta'})
    for p_ in ('dbeta', 'loglj', 'loglk'):
        tr.param(p_)
    e = tr.num(asg[0].value, {'loglj': ('T', 'loglj'), 'loglk': ('T', 'loglk')})
    return 'Definition src_swap_logar {T : Type} `{Num T} %s : T := %s.' % (tr.signature(), e)


def t_swap_decide():
    lp = swap_loop()
    i = split_at_if_on(lp.body, 'logar')
    tr = NTr()
    tr.param('logar')
    tr.param('u')
    e = tr.body([lp.body[i]], {'logar': ('T', 'logar')}, False,
                lambda t, env_, drew: '(SRet %s %s %s)' % (t.boo(ast.Name(id='swap'), env_), t.num(ast.Name(id='ar'), env_), 'true' if drew else 'false'))
    return 'Definition src_swap_decide {T : Type} `{Num T} %s : sres T := %s.' % (tr.signature(MH_ORDER), e)


# ---------------------------------------------------------------------------
# adaptation: the scalar arithmetic inside the guarded block of each _update, followed symbolically: every temporary that is a
# scalar expression of the step count, the acceptance record and the proposal's attributes is inlined; arrays are not followed
def window_body(path, cls, fn):
    """(name of the local holding the step count, the statements that run inside the adaptation window)"""
    f = find_func(path, cls, fn)
    b = strip_doc(f.body)
    if not (b and isinstance(b[0], ast.Assign) and len(b[0].targets) == 1 and isinstance(b[0].targets[0], ast.Name)):
        raise Untranslatable('%s.%s does not start with `<steps> = ...`' % (cls, fn))
    try:
        tests, body = find_guard(b[1:])
    except Untranslatable:
        raise Untranslatable('%s.%s is not a single guarded block' % (cls, fn))
    return b[0].targets[0].id, body


def assigned_names(stmts):
    out = set()
    for s in stmts:
        for n in ast.walk(s):
            if isinstance(n, ast.Name) and isinstance(n.ctx, ast.Store):
                out.add(n.id)
    return out


def sym_walk(tr, stmts, env, is_target):
    """execute straight-line statements symbolically; returns (env, target statement or None)"""
    env = dict(env)
    for s in stmts:
        if is_target is not None and is_target(s):
            return env, s
        if isinstance(s, ast.Assign) and len(s.targets) == 1 and isinstance(s.targets[0], ast.Name):
            v = s.targets[0].id
            try:
                if tr.is_bool(s.value, env):
                    env[v] = ('bool', tr.boo(s.value, env))
                else:
                    env[v] = ('T', tr.num(s.value, env))
            except Untranslatable:
                env.pop(v, None)                     # not a scalar this translator follows
        elif isinstance(s, ast.AugAssign) and isinstance(s.target, ast.Name) and isinstance(s.op, (ast.Add, ast.Sub, ast.Mult, ast.Div)):
            v = s.target.id
            op = {ast.Add: 'nadd', ast.Sub: 'nsub', ast.Mult: 'nmul', ast.Div: 'ndiv'}[type(s.op)]
            try:
                env[v] = ('T', '(%s %s %s)' % (op, tr.num(ast.Name(id=v, ctx=ast.Load()), env), tr.num(s.value, env)))
            except Untranslatable:
                env.pop(v, None)
        elif isinstance(s, ast.If):
            e1, t1 = sym_walk(tr, s.body, env, is_target)
            if t1 is not None:
                return e1, t1
            e2, t2 = sym_walk(tr, s.orelse, env, is_target)
            if t2 is not None:
                return e2, t2
            try:
                c = tr.boo(s.test, env)
            except Untranslatable:
                c = None
            for v in assigned_names(s.body) | assigned_names(s.orelse):
                x, y = e1.get(v), e2.get(v)
                if c is not None and x is not None and y is not None and x[0] == y[0]:
                    env[v] = (x[0], x[1] if x[1] == y[1] else '(if %s then %s else %s)' % (c, x[1], y[1]))
                else:
                    env.pop(v, None)
        elif isinstance(s, (ast.For, ast.While)):
            inner = {k: v for k, v in env.items() if k not in assigned_names([s])}
            e1, t1 = sym_walk(tr, s.body, inner, is_target)
            if t1 is not None:
                return e1, t1
            for v in assigned_names([s]):
                env.pop(v, None)
        else:
            for v in assigned_names([s]):
                env.pop(v, None)
    return env, None


def t_log_step(name, path, cls, fn, attr, skip_call=None):
    """the new value of `self.<attr>` after its `+=` / `-=` inside the window, as a function of the old value, the step
    count, the acceptance ratio of the step just made and the proposal's settings"""
    var, body = window_body(path, cls, fn)
    tr = NTr(any_attr=True)
    for p_ in ('cur', 'dk', 'ar'):
        tr.param(p_)

    def is_target(s_):
        return (isinstance(s_, ast.AugAssign) and dotted(s_.target) == 'self.' + attr and isinstance(s_.op, (ast.Add, ast.Sub))
                and not (skip_call and isinstance(s_.value, ast.Call) and dotted(s_.value.func) == skip_call))
    n = sum(1 for st in body for m in ast.walk(st) if is_target(m))
    if n != 1:
        raise Untranslatable('%s.%s: expected exactly one scalar update of self.%s, found %d' % (cls, fn, attr, n))
    env, tgt = sym_walk(tr, body, {var: ('T', 'dk')}, is_target)
    if tgt is None:
        raise Untranslatable('%s.%s: the update of self.%s is not reached by straight-line code' % (cls, fn, attr))
    op = 'nadd' if isinstance(tgt.op, ast.Add) else 'nsub'
    e = '(%s cur %s)' % (op, tr.num(tgt.value, env))
    return 'Definition %s {T : Type} `{Num T} %s : T := %s.' % (name, tr.signature(['cur', 'dk', 'ar']), e)


def t_cw_update(name):
    """_componentwise_scaling(self, chain, dk): `dlog_lambda[i] = <gain> * (ar - target)` and the forced ratio 0 of a virtual move out of the prior"""
    f = find_func('epsie/proposals/normal.py', 'ATAdaptiveSupport', '_componentwise_scaling')
    args = [a.arg for a in f.args.args]
    if len(args) != 3:
        raise Untranslatable('_componentwise_scaling does not take (self, chain, gain)')
    gain = args[2]
    asg = [n for n in ast.walk(f) if isinstance(n, ast.Assign) and isinstance(n.targets[0], ast.Subscript)
           and dotted(n.targets[0].value) is not None and ast.unparse(n.targets[0].slice) == 'i']
    ifs = [n for n in ast.walk(f) if isinstance(n, ast.If) and isinstance(n.test, ast.Compare) and dotted(n.test.left) == 'logp']
    if len(asg) != 1 or len(ifs) != 1:
        raise Untranslatable('_componentwise_scaling: expected one `<steps>[i] = ...` and one `if logp == ...`')
    tr = NTr(any_attr=True)
    tr.locals = {k: v for k, v in single_assignments(f).items() if k not in ('ar',)}
    for p_ in ('d', 'ar'):
        tr.param(p_)
    e = tr.num(asg[0].value, {gain: ('T', 'd'), 'ar': ('T', 'ar')})
    t2 = NTr(any_attr=True)
    test = t2.boo(ifs[0].test, {'logp': ('T', 'logp')})

    def is_ratio_call(blk):
        return (len(blk) == 1 and isinstance(blk[0], ast.Assign) and isinstance(blk[0].targets[0], ast.Tuple)
                and dotted(blk[0].targets[0].elts[1]) == 'ar' and isinstance(blk[0].value, ast.Call)
                and dotted(blk[0].value.func) == 'chain._acceptance_ratio')

    def is_const(blk):
        return len(blk) == 1 and isinstance(blk[0], ast.Assign) and dotted(blk[0].targets[0]) == 'ar'
    if is_const(ifs[0].body) and is_ratio_call(ifs[0].orelse):
        sel = 'if %s then %s else inner' % (test, t2.num(ifs[0].body[0].value, {}))
    elif is_ratio_call(ifs[0].body) and is_const(ifs[0].orelse):
        sel = 'if %s then inner else %s' % (test, t2.num(ifs[0].orelse[0].value, {}))
    else:
        raise Untranslatable('_componentwise_scaling: the virtual move is not `if logp == -inf: ar = c else: _, ar = chain._acceptance_ratio(..)`')
    return ('Definition %s {T : Type} `{Num T} %s : T := %s.\n\nDefinition %s_ar {T : Type} `{Num T} (logp : T) (inner : T) : T := %s.'
            % (name, tr.signature(), e, name, sel))


def t_veitch_inc():
    """the increment of a width in the Veitch update: alpha * gain * delta / 10 with alpha chosen by the last step's outcome, wherever
    the source keeps it (its own temporary, or folded into the sum with the old width)"""
    var, body = window_body('epsie/proposals/normal.py', 'AdaptiveSupport', '_update')
    tr = NTr(any_attr=True)
    tr.param('dk')
    tr.param('accepted', 'bool')
    env = {var: ('T', 'dk')}
    found = None
    for k, st in enumerate(body):
        if isinstance(st, ast.Assign) and len(st.targets) == 1 and isinstance(st.targets[0], ast.Name):
            e0, _ = sym_walk(tr, body[:k], env, None)
            try:
                t = tr.num(st.value, e0)
            except Untranslatable:
                continue
            if 'accepted' in t and 'a_deltas' in t:
                # folded form: <old width> + increment
                v = st.value
                if isinstance(v, ast.BinOp) and isinstance(v.op, ast.Add):
                    for old, inc in ((v.left, v.right), (v.right, v.left)):
                        try:
                            o = tr.num(old, e0)
                        except Untranslatable:
                            continue
                        if o == 'a_std' and 'accepted' not in o:
                            t = tr.num(inc, e0)
                found = t
                break
    if found is None:
        raise Untranslatable('AdaptiveSupport._update: no width increment that depends on the outcome of the last step and on the prior widths')
    tr.params = [p_ for p_ in tr.params if p_[0] != 'a_std' or 'a_std' in found]
    return 'Definition src_veitch_inc {T : Type} `{Num T} %s : T := %s.' % (tr.signature(['dk', 'accepted']), found)


def t_ss():
    """SSAdaptiveSupport._update: the factor alpha as a function of the acceptance count, the step count, the window start and the
    target rate (straight-line code up to the branch on isdiagonal); in the diagonal branch, the factor actually applied to the
    widths and the test under which it is applied (`mx` stands for the largest current width, self._std.max())"""
    f = find_func('epsie/proposals/normal.py', 'SSAdaptiveSupport', '_update')
    body = strip_doc(f.body)

    def on_diag(s_):
        return isinstance(s_, ast.If) and (dotted(s_.test) == 'self.isdiagonal' or (
            isinstance(s_.test, ast.UnaryOp) and isinstance(s_.test.op, ast.Not) and dotted(s_.test.operand) == 'self.isdiagonal'))
    tree = ast.parse(open(os.path.join(REPO, 'epsie/proposals/normal.py')).read())
    helpers = {m.name: m for c in tree.body if isinstance(c, ast.ClassDef) and c.name == 'SSAdaptiveSupport'
               for m in c.body if isinstance(m, ast.FunctionDef) and m.name.startswith('_') and m.name not in ('_update', '__init__')}
    tr = NTr(any_attr=True)
    tr.helpers = helpers
    for p_ in ('a_n_accepted', 'a_nsteps', 'a_start_step', 'a_target_rate'):
        tr.param(p_)
    env, tgt = sym_walk(tr, body, {}, on_diag)
    if tgt is None or 'alpha' not in {k for k in env} and not any(v for v in env):
        raise Untranslatable('SSAdaptiveSupport._update: no branch on self.isdiagonal reached by straight-line code')
    # the factor: whatever local the diagonal branch multiplies the widths by
    tr2 = NTr(any_attr=True, oracles={('self._std.max', ()): 'mx'})
    tr2.param('alpha0')
    tr2.param('mx')

    def applies(s_):
        return isinstance(s_, ast.AugAssign) and dotted(s_.target) == 'self._std' and isinstance(s_.op, ast.Mult)
    diag_body = tgt.body if dotted(tgt.test) == 'self.isdiagonal' else tgt.orelse
    napply = sum(1 for st in diag_body for m in ast.walk(st) if applies(m))
    if napply != 1:
        raise Untranslatable('SSAdaptiveSupport._update: expected exactly one `self._std *= ..` in the diagonal branch')
    # walk the diagonal branch with every scalar local of the prefix standing for itself: only `alpha` (whatever it is called) matters
    names = [k for k, v in env.items() if v[0] == 'T']
    # find the local holding the factor: the one the prefix's chain of ifs assigned
    guard = [s_ for s_ in diag_body if isinstance(s_, ast.If) and any(applies(m) for m in ast.walk(s_))]
    if len(guard) != 1 or guard[0].orelse:
        raise Untranslatable('SSAdaptiveSupport._update: the widths are not updated under a single guard without else')
    g = guard[0]
    app = [m for m in ast.walk(g) if applies(m)][0]
    if not isinstance(app.value, ast.Name) or app.value.id not in names:
        raise Untranslatable('SSAdaptiveSupport._update: the widths are not multiplied by a scalar local of the prefix')
    fac = app.value.id
    alpha_expr = env[fac][1]
    env2, _ = sym_walk(tr2, diag_body[:diag_body.index(g)], {fac: ('T', 'alpha0')}, None)
    factor = env2[fac][1]
    test = tr2.boo(g.test, env2)
    out = ['Definition src_ss_alpha {T : Type} `{Num T} %s : T := %s.'
           % (tr.signature(['a_n_accepted', 'a_nsteps', 'a_start_step', 'a_target_rate']), alpha_expr),
           'Definition src_ss_diag_factor {T : Type} `{Num T} (alpha0 : T) : T := %s.' % factor,
           'Definition src_ss_diag_applies {T : Type} `{Num T} %s : bool := %s.' % (tr2.signature(['alpha0', 'mx']), test)]
    return '\n\n'.join(out)


ADAPT_TARGETS = (
    ('src_ss_alpha', t_ss),
    ('src_veitch_inc', t_veitch_inc),
    ('src_at_log', lambda: t_log_step('src_at_log', 'epsie/proposals/normal.py', 'ATAdaptiveSupport', '_update', '_log_lambda',
                                      skip_call='self._componentwise_scaling')),
    ('src_cw_dlog', lambda: t_cw_update('src_cw_dlog')),
    ('src_eig_log', lambda: t_log_step('src_eig_log', 'epsie/proposals/eigenvector.py', 'AdaptiveEigenvectorSupport', '_update', '_log_lambda')),
    ('src_kappa_log', lambda: t_log_step('src_kappa_log', 'epsie/proposals/solid_angle.py', 'AdaptiveIsotropicSolidAngleSupport', '_update',
                                         '_log_kappa')),
)


def generate_adapt():
    lines = ['(* GENERATED by tools/py2coq_num.py from the current /repo sources - do not edit. *)',
             'From Coq Require Import ZArith.', 'From Epsie Require Import Num.', '']
    failed = []
    for name, thunk in ADAPT_TARGETS:
        try:
            lines.append(thunk())
        except (Untranslatable, SyntaxError, OSError) as e:
            lines.append('(* %s: NOT TRANSLATED: %s *)' % (name, str(e).replace('*)', '* )')))
            failed.append((name, str(e)))
        lines.append('')
    return '\n'.join(lines), failed


# ---------------------------------------------------------------------------
# the dynamical annealer (ptchain.py): decay, the step of each log temperature gap, the rebuilt beta, the clip of ratios above 1
PT = 'epsie/chain/ptchain.py'


def is_range(call, *want):
    return (isinstance(call, ast.Call) and dotted(call.func) == 'range' and not call.keywords
            and [ast.unparse(a) for a in call.args] == list(want))


def t_ann_decay():
    f = find_func(PT, 'DynamicalAnnealer', '_decay')
    b = strip_doc(f.body)
    if not (len(b) == 1 and isinstance(b[0], ast.Return)):
        raise Untranslatable('_decay is not a single return')
    tr = NTr(any_attr=True)
    for p_ in ('t', 'a_nu', 'a_tau'):
        tr.param(p_)
    e = tr.num(b[0].value, {'iteration': ('T', 't')})
    return 'Definition src_ann_decay {T : Type} `{Num T} %s : T := %s.' % (tr.signature(), e)


def t_ann_call():
    f = find_func(PT, 'DynamicalAnnealer', '__call__')
    loc = single_assignments(f)
    out = []
    # the clip `ars[ars > c] = v`
    clips = [n for n in ast.walk(f) if isinstance(n, ast.Assign) and isinstance(n.targets[0], ast.Subscript) and dotted(n.targets[0].value) == 'ars'
             and isinstance(n.targets[0].slice, ast.Compare)]
    if len(clips) != 1 or dotted(clips[0].targets[0].slice.left) != 'ars' or len(clips[0].targets[0].slice.ops) != 1:
        raise Untranslatable('__call__: expected one masked assignment `ars[ars > c] = v`')
    tr = NTr(any_attr=True)
    tr.param('a')
    cond = tr.boo(clips[0].targets[0].slice, {'ars': ('T', 'a')})
    out.append('Definition src_ann_clip {T : Type} `{Num T} %s : T := if %s then %s else a.' % (tr.signature(), cond, tr.num(clips[0].value, {})))
    # the step of each log temperature gap: <decay> * (ars[i] - ars[i+1]), inside a loop / comprehension over range(ntemps - 2),
    # whatever temporaries it goes through; it must reach `self._S +=`
    if sum(1 for n in ast.walk(f) if isinstance(n, ast.AugAssign) and dotted(n.target) == 'self._S' and isinstance(n.op, ast.Add)) != 1:
        raise Untranslatable('__call__: expected one `self._S += ...`')
    loops = [n for n in ast.walk(f) if isinstance(n, (ast.For, ast.comprehension)) and dotted(n.target) == 'i' and is_range(n.iter, 'chain.ntemps - 2')]
    if len(loops) != 1:
        raise Untranslatable('__call__: expected one loop / comprehension `for i in range(chain.ntemps - 2)`')
    holder = loops[0] if isinstance(loops[0], ast.For) else [n for n in ast.walk(f) if isinstance(n, ast.ListComp) and loops[0] in n.generators][0]
    best = None
    for n in ast.walk(holder):
        if isinstance(n, ast.BinOp) and isinstance(n.op, ast.Mult):
            t = NTr(oracles={('self._decay', ('iteration',)): 'd'}, subscripts={('ars', 'i'): 'a0', ('ars', 'i + 1'): 'a1'}, any_attr=True)
            t.locals = loc
            for p_ in ('d', 'a0', 'a1'):
                t.param(p_)
            try:
                e = t.num(n, {})
            except Untranslatable:
                continue
            if all(x in e for x in ('d', 'a0', 'a1')) and len(t.params) == 3 and (best is None or len(e) > len(best[0])):
                best = (e, t)
    if best is None:
        raise Untranslatable('__call__: no product of the decay with ars[i] - ars[i+1] in the loop over the gaps')
    out.append('Definition src_ann_S_step {T : Type} `{Num T} %s : T := %s.' % (best[1].signature(['d', 'a0', 'a1']), best[0]))
    # betas[i] = 1/(1/betas[i-1] + exp(S[i-1])) for i in range(1, ntemps - 1), assigned to the level at once
    loops = [n for n in f.body if isinstance(n, ast.For) and dotted(n.target) == 'i' and is_range(n.iter, '1', 'chain.ntemps - 1')]
    if len(loops) != 1:
        raise Untranslatable('__call__: expected `for i in range(1, chain.ntemps - 1)`')
    tr = NTr(subscripts={('chain.betas', 'i - 1'): 'prev', ('self._S', 'i - 1'): 's'}, any_attr=True)
    tr.locals = loc
    for p_ in ('prev', 's'):
        tr.param(p_)
    stores = [st for st in loops[0].body if isinstance(st, ast.Assign) and isinstance(st.targets[0], ast.Subscript)
              and dotted(tr.resolve(st.targets[0].value)) == 'chain.betas' and ast.unparse(st.targets[0].slice) == 'i']
    levels = [st for st in loops[0].body if isinstance(st, ast.Assign) and ast.unparse(st.targets[0]) == 'chain.chains[i].beta'
              and isinstance(st.value, ast.Subscript) and dotted(tr.resolve(st.value.value)) == 'chain.betas' and ast.unparse(st.value.slice) == 'i']
    if len(stores) != 1 or len(levels) != 1 or loops[0].body.index(levels[0]) < loops[0].body.index(stores[0]):
        raise Untranslatable('__call__: the loop does not rebuild chain.betas[i] and then assign it to chain.chains[i].beta')
    e = tr.num(stores[0].value, {})
    if len(tr.params) != 2:
        raise Untranslatable('__call__: the rebuilt beta depends on more than the colder beta and the gap')
    out.append('Definition src_ann_beta {T : Type} `{Num T} %s : T := %s.' % (tr.signature(['prev', 's']), e))
    return '\n\n'.join(out)


def generate_ladder():
    lines = ['(* GENERATED by tools/py2coq_num.py from the current /repo sources - do not edit. *)',
             'From Coq Require Import ZArith.', 'From Epsie Require Import Num.', '']
    failed = []
    for name, thunk in (('src_ann_decay', t_ann_decay), ('src_ann_call', t_ann_call)):
        try:
            lines.append(thunk())
        except (Untranslatable, SyntaxError, OSError) as e:
            lines.append('(* %s: NOT TRANSLATED: %s *)' % (name, str(e).replace('*)', '* )')))
            failed.append((name, str(e)))
        lines.append('')
    return '\n'.join(lines), failed


def generate():
    lines = ['(* GENERATED by tools/py2coq_num.py from the current /repo sources - do not edit. *)',
             'From Coq Require Import ZArith.', 'From Epsie Require Import Num SrcSupport.', '']
    failed = []
    for name, thunk in (('src_mh_logar', t_mh_logar), ('src_mh_decide', t_mh_decide), ('src_step_decide', t_step_forced),
                        ('src_swap_logar', t_swap_logar), ('src_swap_decide', t_swap_decide)):
        try:
            lines.append(thunk())
        except (Untranslatable, SyntaxError, OSError) as e:
            lines.append('(* %s: NOT TRANSLATED: %s *)' % (name, str(e).replace('*)', '* )')))
            failed.append((name, str(e)))
        lines.append('')
    return '\n'.join(lines), failed


def emit(out, text):
    if out is None:
        print(text)
        return
    os.makedirs(os.path.dirname(out), exist_ok=True)
    old = open(out).read() if os.path.exists(out) else None
    if old != text:
        with open(out + '.tmp', 'w') as f:
            f.write(text)
        os.replace(out + '.tmp', out)


def main():
    out = sys.argv[1] if len(sys.argv) > 1 else None
    out2 = sys.argv[2] if len(sys.argv) > 2 else None
    text, failed = generate()
    emit(out, text)
    out3 = sys.argv[3] if len(sys.argv) > 3 else None
    if out2 is not None or out is None:
        text2, failed2 = generate_adapt()
        emit(out2, text2)
        failed += failed2
    if out3 is not None or out is None:
        text3, failed3 = generate_ladder()
        emit(out3, text3)
        failed += failed3
    for name, err in failed:
        print('py2coq_num: %s not translated: %s' % (name, err), file=sys.stderr)
    return 0


if __name__ == '__main__':
    sys.exit(main())
