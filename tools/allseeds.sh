#!/bin/bash
# usage: tools/allseeds.sh "<ids>" "<seeds>"  -- run quick checks for several seeds, print only the summary lines
cd /verif
ids=${1:-$(python3 -c "import json;print(' '.join(c['property_id'] for c in json.load(open('MANIFEST.json'))['checks']))")}
seeds=${2:-"1 2 3"}
for s in $seeds; do for p in $ids; do
  out=$(VERIF_SEED=$s ./check $p --tier quick 2>&1); rc=$?
  echo "$out" | grep -v "^KNOWN" | tail -1 | sed "s/^/rc=$rc /"
  echo "$out" | grep "^VIOLATION" | head -2
done; done
