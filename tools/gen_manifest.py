#!/usr/bin/env python3
"""Regenerate /verif/MANIFEST.json from the registry below (kept valid at all times)."""
import json, os, sys
VERIF = os.path.dirname(os.path.dirname(os.path.abspath(__file__)))
ALL = ['C%02d' % i for i in range(1, 21)]

COMMON_NOTE = ("Trusted: Coq 8.16.1 kernel + vm_compute; only standard-library axioms as printed by Print Assumptions "
               "(real-number axioms where Reals is used); the hand-written Gallina model, tied to /repo on every run by the "
               "correspondence (model under vm_compute vs. real implementation on the same inputs); the Python harness. ")

CLAIMED = {
 'C20': dict(
   text="Machine-checked theorems (round trip for every byte list and every previous dataset content, frame, refinement of any "
        "dump/load sequence to a finite map, invariant on all reachable files) about a Gallina model of dump_pickle_to_hdf/load_state; "
        "the model is re-validated against the real functions on every run by executing generated operation sequences on both.",
   note=COMMON_NOTE + "h5py is absent: an in-memory stand-in implements the seven h5py calls used; pickle round-trips (premise).",
   technique="Coq proof (induction over operation sequences, refinement to an abstract map) + vm_compute correspondence",
   ref="DESIGN.md section 3, C20"),
}

PENDING_REASON = "not yet claimed: model/theorems for this property are still being built (see DESIGN.md section 3); nothing is asserted about it"

def main():
    m = dict(
        version=1,
        setup_cmd="./setup.sh",
        hooks=dict(
            guard="EPSIE_VERIF",
            enable="no source hooks exist: all instrumentation is harness-side monkey-patching inside the harness process (PYTHONPATH=/repo)",
            baseline_off_cmd="cd /repo && /venv/bin/python -m pytest -ra -q -p no:cacheprovider --timeout=900 --continue-on-collection-errors",
            source_commits=[],
            add_only=True),
        engines=[dict(name="coq-model+correspondence", path="check",
                      serves_properties=sorted(CLAIMED),
                      kind_free_text="Coq 8.16.1 development under coq/theories (model, proofs, Props/Cxx.v), Python harness under harness/ "
                                     "(generated cases.v evaluated by vm_compute against the real implementation)")],
        checks=[],
        notes="See DESIGN.md. known_findings.json lists genuine defects recorded rather than repaired.",
        not_applicable=[])
    for pid in ALL:
        if pid in CLAIMED:
            c = CLAIMED[pid]
            m['checks'].append(dict(
                property_id=pid,
                quick_cmd="./check %s --tier quick" % pid,
                thorough_cmd="./check %s --tier thorough" % pid,
                evidence_file="evidence/%s.json" % pid,
                replay_cmd_template="./check %s --replay {path}" % pid,
                engine="coq-model+correspondence",
                level_claimed=dict(category="proof", text=c['text'], design_ref=c['ref']),
                level_note=c['note'],
                technique=c['technique']))
        else:
            m['not_applicable'].append(dict(property_id=pid, reason=PENDING_REASON))
    with open(os.path.join(VERIF, 'MANIFEST.json'), 'w') as f:
        json.dump(m, f, indent=1)
    print('claimed:', sorted(CLAIMED))

if __name__ == '__main__':
    main()
