#!/usr/bin/env python3
"""Regenerate /verif/MANIFEST.json from the registry below (kept valid at all times)."""
import json, os, sys
VERIF = os.path.dirname(os.path.dirname(os.path.abspath(__file__)))
ALL = ['C%02d' % i for i in range(1, 21)]

COMMON_NOTE = ("Trusted: Coq 8.16.1 kernel + vm_compute; only standard-library axioms as printed by Print Assumptions "
               "(real-number axioms where Reals is used); the hand-written Gallina model, tied to /repo on every run by the "
               "correspondence (model under vm_compute vs. real implementation on the same inputs); the Python harness. ")

CLAIMED = {
 'C20': dict(
   text="Machine-checked theorems (round trip for every byte list and every previous dataset content, frame, refinement of any "
        "dump/load sequence to a finite map, invariant on all reachable files) about a Gallina model of dump_pickle_to_hdf/load_state; "
        "the model is re-validated against the real functions on every run by executing generated operation sequences on both.",
   note=COMMON_NOTE + "h5py is absent: an in-memory stand-in implements the seven h5py calls used; pickle round-trips (premise). Source tie "
        "(Props/C20_src.v): dump_pickle_to_hdf as written in /repo today is rendered as a plan of h5py actions (tools/py2coq_h5.py, regenerated on every "
        "run) and executing that plan with the model's primitives is proved to be the model's dump for every file and byte string.",
   technique="Coq proof (induction over operation sequences, refinement to an abstract map) + vm_compute correspondence",
   ref="DESIGN.md section 3, C20"),
}

MACH_NOTE = COMMON_NOTE + ("The machine takes proposals, model outputs and accept/swap decisions as inputs (the decision formulas are C01/C03); "
             "values are abstract (the machine only copies them). Python object/numpy semantics as rendered by the model are tied to the "
             "code only through the correspondence run.")
CLAIMED.update({
 'C06': dict(
   text="Theorem by induction over operation lists about the Gallina chain/parallel-tempered machine: any schedule of run(n)/clear() makes "
        "the same records, model calls, iteration count, current state and swap decisions as one uninterrupted run (ghost-state refinement), "
        "because every read of the retained history returns the last record whatever lastclear and the scratch layout are. The model is "
        "validated on every run against real MH/PT samplers (observations after every operation), and the property itself is checked on the "
        "same real traces against an identically seeded uninterrupted twin. The swap-history VIEW is refuted in Coq and reported as a known finding.",
   note=MACH_NOTE + " Source tie (Props/C06_src.v): the clock of the annealer's vanishing decay and the row of acceptance ratios it reads are "
        "regenerated from DynamicalAnnealer.__call__ on every run (tools/py2coq.py); the clock is iteration // swap_interval of the global "
        "iteration (no other parameter: a clear or a split cannot restart it), the fold over the sweeps with the generated clock is the "
        "model's ladder, and the row read is the row the sweep of that iteration wrote.",
   technique="Coq proof (history invariant + ghost-state simulation by induction over op lists) + vm_compute correspondence",
   ref="DESIGN.md section 3, C06"),
 'C08': dict(
   text="Machine-checked history invariant (retained arrays = suffix of everything recorded, len = iteration - lastclear, start triple after a "
        "clear = last record) preserved by steps, scratch growth, clears and temperature sweeps for every input stream; per-index access theorem "
        "for every index in [-len,len); record rule (accepted = proposal with the model's outputs, rejected = previous record, -inf prior never "
        "accepted). Tied to the code by the machine correspondence; on the same traces every access path is read and the pure model re-evaluated.",
   note=MACH_NOTE + " C08_all_records_genuine (Genuine_proofs.v): on every level, after any schedule of runs and clears and across every sweep, "
        "every record (position, logl, logp, blob) is one model evaluation made by some level - premise: the model returns a blob always or never "
        "(the code raises otherwise). Source tie (Props/C08_src.v): len(chain) and the scratch growth of run(), regenerated from /repo by "
        "tools/py2coq.py on every run, equal the model's arithmetic for all inputs.",
   technique="Coq proof (invariant by induction over operations) + vm_compute correspondence", ref="DESIGN.md section 3, C08"),
 'C09': dict(
   text="Theorems: sweep iff iteration is a multiple of the swap interval (and >1 level); the code's index array equals the fold of adjacent "
        "exchanges from the hottest pair down, is a permutation and moves a colder state up at most one level (all ladder sizes, all decision "
        "lists); after the sweep level t holds position/stats/blob/active set of level swap_index[t], acceptance records and call logs "
        "untouched; invariant preserved. The 'one visible row per sweep since the last clear' clause is refuted in Coq for the code as it is "
        "(known finding D3). Correspondence against real swap_temperatures() calls captured before/after.",
   note=MACH_NOTE + " Source tie (Props/C09_src.v): the condition under which ParallelTemperedChain.step sweeps, regenerated from /repo by "
        "tools/py2coq.py on every run, equals the model's for all inputs, and the guarded block is exactly the call of swap_temperatures.",
   technique="Coq proof (refinement of the index array to adjacent exchanges, permutation, invariant) + vm_compute correspondence",
   ref="DESIGN.md section 3, C09"),
 'C18': dict(
   text="The machine carries the model-call log as ghost state; theorems: a step appends exactly one call at its proposed point with the values it "
        "may record, set-start exactly one, sweeps/clear/scratch growth/set_state none, and after any schedule of runs and clears every level's log "
        "grew by exactly the number of iterations. Correspondence compares the real probe model's call log after every operation, with all read "
        "accessors touched in between (componentwise extras counted separately).",
   note=MACH_NOTE + " Source tie (Props/C18_src.v): a census of every file of epsie/ regenerated on every run (tools/py2coq.py): the model is called at "
        "exactly three places (start-position setter, Chain.step - once, outside any loop - and the componentwise virtual moves), the model object is "
        "read nowhere else than in the constructors that hand it on, and Chain.step is called from exactly two loops.",
   technique="Coq proof (ghost call log, induction over op lists) + vm_compute correspondence", ref="DESIGN.md section 3, C18"),
})

CLAIMED['C15'] = dict(
   text="Theorems about the Gallina model of BaseProposal._call_jump / jump / logpdf / update and JointProposal: with jump interval k>1 and "
        "duration D a proposal jumps exactly on iterations 1, k+1, 2k+1, ... while fewer than D proposal steps have elapsed and on every "
        "iteration afterwards (adaptive ones count from start_step); on the other iterations the proposed point keeps its parameters, it "
        "contributes no density term and is not adapted; clocks advance by one per iteration whatever happens and constituents do not "
        "influence each other. Every (k, D, start_step, _nsteps, decision) observed on real chains of 16 proposal families - one iteration at a "
        "time, across clear and pickle-resume into a fresh sampler - is re-evaluated by the model under vm_compute.",
   note=COMMON_NOTE + "Whether a constituent jumped/was adapted/contributed a density is observed by wrapping its methods on live instances. "
        "Source tie (Props/C15_src.v): nsteps, _call_jump and update as written in /repo's base.py today are translated to Gallina on every "
        "run (tools/py2coq.py, fail-closed) and proved equal to the model's clock for every state.",
   technique="Coq proof (arithmetic of the clock, induction over iterations) + vm_compute correspondence", ref="DESIGN.md section 3, C15")

NUM_NOTE = COMMON_NOTE + ("The numeric kernel is ONE Gallina definition over a numeric type class, instantiated with R for the theorems and with "
            "binary64 floats (elementary functions of coq/theories/FloatLib.v) for vm_compute; floats are modelled as reals in the theorems "
            "(rounding, overflow and u<=ar at 2^-53 are not covered). ")
CLAIMED['C01'] = dict(
   text="Theorems over the reals about the single-definition MH kernel (mh_logar/mh_decide/mh_step of chain.py:502-571): accept iff "
        "u <= min(1,e^logar) and that minimum is recorded; e^logar is p'L'^beta q(x|x')/(pL^beta q(x'|x)); joint densities multiply and "
        "non-jumping constituents contribute 1; -inf prior always rejected (all numeric instances); detailed balance; exact stationarity of "
        "p L^beta on every finite state space. The float instance of the same definition is run by vm_compute against real Chain.step() "
        "calls captured at the kernel boundary for 10 proposal mixes, plus threshold-perturbed uniforms; 60-digit decimal oracle and exact "
        "lattice transition matrices on the real code.",
   note=NUM_NOTE + "q in the statement is the reported proposal density; that it is the law of the jumps is C02. Source tie (Props/C01_src.v): "
        "_acceptance_ratio and the forced reject of Chain.step as written in /repo today are translated to Gallina over the numeric class on "
        "every run (tools/py2coq_num.py, fail-closed) and proved equal to mh_logar / mh_decide / mh_step over the reals for all inputs.",
   technique="Coq proof over Reals (algebra of exp/ln/Rmin, finite sums) + vm_compute correspondence of the float instance",
   ref="DESIGN.md section 3, C01")
CLAIMED['C03'] = dict(
   text="Theorems: the loop of swap_temperatures (index array, carried loglk, conditional uniform consumption) equals the fold of adjacent-exchange "
        "Metropolis kernels over an explicit configuration, for every ladder, log-likelihood assignment, uniform stream and numeric instance; "
        "over the reals each exchange is accepted iff u <= min(1,(L_a/L_b)^(beta_k-beta_j)) with the slots' betas, which is the ratio of the joint "
        "tempered target; exchange kernels and their composition in sweep order leave the target invariant on every finite configuration space. "
        "The float instance is run against real swap_temperatures() calls driven down every decision path; exact sweep kernels Pi K = Pi on the real code.",
   note=NUM_NOTE + "Source tie (Props/C03_src.v): the per-pair kernel inside the loop of swap_temperatures (log-ratio, no uniform above 0, swap iff "
        "u <= exp(logar)) as written in /repo today is translated on every run (tools/py2coq_num.py, which also checks the loop header and tj = tk-1) "
        "and proved equal to pair_logar / swap_decide over the reals; the loop's bookkeeping (index array, carried loglk) is tied by the correspondence only.",
   technique="Coq proof (loop-invariant refinement, Reals algebra, finite-sum invariance) + vm_compute correspondence on every decision path",
   ref="DESIGN.md section 3, C03")

CLAIMED['C17'] = dict(
   text="Theorems: the betas setter returns the input sorted non-increasing, same multiset, all in [0,1], and refuses anything outside (reals); "
        "at construction and after any number of DynamicalAnnealer calls, for every acceptance history/tau/nu and every numeric instance, the "
        "beta of every level equals the beta its swaps use (coherence invariant by induction over calls); one call keeps both ends and the "
        "number of levels and, with hottest beta 0, every rebuilt beta lies strictly between 0 and its colder neighbour (order and range kept); "
        "make_betas_ladder stays in [1/maxtemp,1]. Float instance run against the real setter, setup_annealing, every annealer call of real "
        "samplers and make_betas_ladder; level betas vs ladder vs sampler.betas compared after every iteration.",
   note=NUM_NOTE + "Ladders with repeated betas (log of a zero temperature gap) are outside the order theorem's premises. Source tie "
        "(Props/C17_src.v): decay, clip, gap step and beta recursion of DynamicalAnnealer as written in /repo today are regenerated on every run "
        "(tools/py2coq_num.py, which also checks the loop ranges and the immediate assignment to the level) and proved equal to Ladder.v over the reals.",
   technique="Coq proof (insertion-sort correctness, invariant by induction over annealer calls, Reals inequalities) + vm_compute correspondence",
   ref="DESIGN.md section 3, C17")

CLAIMED['C13'] = dict(
   text="Theorems over the reals about the single-definition update kernels of normal.py/eigenvector.py/solid_angle.py: inside its window a "
        "Veitch proposal never narrows on acceptance nor widens on rejection (default decay: dk^(-1/log10 T) >= 0.1 proved), Sivia-Skilling "
        "follows the cumulative rate, the Andrieu-Thoms / eigenvector log-scale and the solid-angle concentration move strictly in the documented "
        "sense with the acceptance ratio; once dk >= duration every update is the identity, for every later history. The float instance is run "
        "against every real _update call of all 18 adaptive classes under forced histories (incl. a mid-run reset), which are also checked for "
        "direction and freezing directly.",
   note=NUM_NOTE + "Componentwise and full-covariance Andrieu-Thoms and the eigenvector covariance / mean recursion are modelled in AdaptM.v "
        "(per-component direction, global direction, frozen for ever; Sivia-Skilling with a full covariance widens / narrows in every direction as a quadratic form; the acceptance ratio of each virtual move is an oracle input scripted by "
        "the harness; numpy.linalg.eigh is not modelled, the eigenvalues are compared with eigh(cov)*exp(log_lambda) directly). Source tie "
        "(Props/C13_src.v): the window test of every _update, regenerated from /repo by tools/py2coq.py on every run, equals the model's for "
        "all inputs, and the translator refuses an _update that does anything outside its guarded block; the scalar arithmetic inside the windows "
        "(the whole new value of every log-scale - decaying gain, sign and size of the step - incl. each component of the componentwise variants "
        "and the solid-angle concentration, and the Veitch increment) is regenerated too (tools/py2coq_num.py, which follows the block's "
        "temporaries symbolically) and proved equal to the model's over the reals; so is the Sivia-Skilling diagonal update (factor from the cumulative rate, exponent 0.5, "
        "test against the cap; a private helper returning the factor is inlined). A user-supplied adaptation_decay larger than 1/log10(duration) reverses the Veitch direction: outside the theorem's premise and the quantifier.",
   technique="Coq proof over Reals (monotonicity of exp/ln/power, window arithmetic on Z) + vm_compute correspondence of the float instance",
   ref="DESIGN.md section 3, C13")
CLAIMED['C14'] = dict(
   text="Partial by nature. Theorems over the reals: Veitch widths never negative and each step bounded by the always-accept increment; "
        "Sivia-Skilling widths positive and under the cap; Andrieu-Thoms second moment and widths positive; all Robbins-Monro log-scales move by "
        "< 1 per step for ratios in [0,1]; kappa > 0. The same kernels' float instance is run against the real updates along the two extremal "
        "histories (plus alternating/random) for durations 30..3000 (30000 thorough), and real chains on flat/peaked bounded targets are run "
        "with a generator-draw budget per jump. Float overflow (kappa ~ 709), cancellation (kappa ~ 1e-15) and the unbounded Robbins-Monro "
        "scale of the bounded/angular variants, and the bounded eigenvector jump from a corner along an eigenvector that leaves the box both ways "
        "(refuted in Coq: the admissible segment is a point) are real defects found this way and recorded as known findings.",
   note=NUM_NOTE + "Loop time and IEEE overflow cannot be exhibited by the real-number model: explored on the real code only. Positive "
        "semidefiniteness (AdaptM_proofs.v): the second moment and covariance of the full-covariance Andrieu-Thoms proposals (global and "
        "componentwise scaling) and the recursive covariance of the eigenvector proposals stay PSD as quadratic forms along every history "
        "(w'U'w = (1-d)w'Uw + d(df.w)^2); the real matrices are checked finite, symmetric and PSD after every update. Source tie "
        "(Props/C14_src.v): the Sivia-Skilling factor alpha**0.5 and the test alpha**0.5 * max(std) <= max_std as written in /repo today "
        "(regenerated on every run by tools/py2coq_num.py) keep every width positive and at most the cap, and are the model's ss_update.",
   technique="Coq proof over Reals (invariants, per-step envelopes) + vm_compute correspondence + extremal-history exploration of the real code",
   ref="DESIGN.md section 3, C14")

ALIAS_NOTE = COMMON_NOTE + ("Python objects are modelled as a heap of cells with references (numpy arrays inside proposals, state dicts and the values "
              "stored for reset); in-place updates write through a reference, rebinding allocates. Which of the two an update is, is read off the "
              "identity of the live arrays on every run. Contents are compared as bit patterns. ")
CLAIMED['C16'] = dict(
   text="Theorems by induction over arbitrary operation histories (in-place or rebinding adaptation updates on any sampler, state reads, "
        "loads of any earlier state object into any sampler, resets) about the heap model of Chain.state/set_state: every state object handed "
        "out keeps exactly the contents it had when read; operations on other samplers - also ones loaded from the very same state object - "
        "never change a sampler's arrays; a load gives the sampler the state's contents. The semantics without copying is refuted in Coq for "
        "in-place families (the defect repaired in /repo) and proved harmless for rebinding-only families. Correspondence: 2-3 real MH/PT "
        "samplers of 20 adaptive family variants under random interleavings of run/state/set_state without serialisation; contents of every "
        "sampler and every state object after every action vs the model; directly, every state object vs its contents when read and every "
        "sampler vs an isolated twin.",
   note=ALIAS_NOTE + "Transdimensional samplers (state layout varies with the active set) are not generated here. Source tie (Props/C16_src.v): "
        "whether Chain.state stores, and Chain.set_state hands on, a deep copy of the proposals' state is read off /repo's chain.py on every "
        "run (tools/py2coq_state.py) and the snapshot theorems are restated with those flags in place of the model's.",
   technique="Coq proof (ownership invariant on a heap model, induction over operation lists, refutation witnesses by vm_compute) + vm_compute correspondence",
   ref="DESIGN.md section 3, C16")
CLAIMED['C19'] = dict(
   text="Theorems: for every history of adaptation steps, state reads/loads and earlier resets the values stored at construction are never "
        "written, so every reset - first and later - installs exactly the constructed values, and touches no other chain or level; the window "
        "restarts at max(nsteps,1); for every ladder size and every decision list of a sweep the levels with swap_index[t] != t, which "
        "reset_after_swap resets, are exactly the levels next to an accepted exchange, and every other level keeps its occupant. The code as "
        "found (reset installing the stored arrays themselves) is refuted in Coq. Correspondence on real samplers of 20 adaptive family "
        "variants (random run/reset interleavings, resets before the first step and twice in a row), proposal-level comparison with a freshly "
        "built proposal given the same clock (state, jump, logpdf) after each of 1-4 resets, and real PT runs with reset_after_swap=True.",
   note=ALIAS_NOTE + "The eigenvector families' 'ind' (direction of the most recent jump) is transient and excluded from the fresh-proposal comparison. "
        "Source tie (Props/C19_src.v), regenerated from /repo on every run: the attributes each adaptive class registers for its reset "
        "(keys of _initial_proposal_params in setup_adaptation) cover every attribute its adaptation changes (table of PropState.v) or are "
        "followed by their recomputation; the reset loop installs copy.deepcopy of the stored values (the flag of the heap theorem); the "
        "new window start is max(nsteps, 1) for every clock state.",
   technique="Coq proof (ownership invariant on a heap model; loop-invariant characterisation of the sweep's index array) + vm_compute correspondence",
   ref="DESIGN.md section 3, C19")

CLAIMED['C05'] = dict(
   text="Theorems about the chain/parallel-tempered machine: loading the state of a ladder p into ANY ladder of the same shape (fresh, other "
        "seed, no start, or already run) gives a resume-equivalent ladder (iteration, current position/stats/blob, proposed position, active "
        "set re-derived from the NaN pattern); resume-equivalence is preserved by every step and every temperature sweep for all input "
        "streams, and equivalent ladders make observably the same record on every level at every iteration; hence a resumed run reproduces "
        "the uninterrupted one, and so does a resume of a resumed run, any number of times (induction over segments). Proposals: a generic "
        "theorem that set_state(state) into a fresh object reproduces every attribute when the family's table entry is covering, and a "
        "finite check that all nine entries are. Tie: the table is compared with the live classes (keys of state, attributes changing while "
        "running, attributes differing after a restore) and resume-heavy schedules are replayed on the Coq machine; direct oracle: "
        "chains of 1-3 pickle resumes into fresh samplers (thorough: every cut point, new interpreter) against one uninterrupted run for "
        "all 28 family variants, joint mixes with slow parameters, transdimensional, MH/PT, blobs, annealed ladders.",
   note=MACH_NOTE + " The proposal family table is data: 'the attributes listed as dynamic are the only ones that change after construction' is "
        "checked against the live objects on every run, not proved. The generator state is one opaque attribute. Source tie "
        "(Props/C05_src.v): for each of the ten classes of /repo that define state/set_state, which attribute is stored under which key and "
        "which attribute each key is assigned back to is regenerated from the source on every run (tools/py2coq_state.py; a computed "
        "property or an expression around state[key] is rendered as an attribute no table entry has) and proved to be the saved relation "
        "of the table entry, by evaluation over the finite table.",
   technique="Coq proof (bisimulation invariant by induction over steps, sweeps and resume segments; finite table check lifted by a frame theorem) + vm_compute correspondence",
   ref="DESIGN.md section 3, C05")

CLAIMED['C10'] = dict(
   text="Theorems about the Gallina model of NestedTransdimensional._jump (value-abstract: new index, chosen components, births and in-model "
        "proposals enter as an oracle): from every well-formed state (index = number of active components within the index bounds, inactive "
        "components NaN in every parameter, active ones finite) the proposed point with its '_state' is well formed, for every index jump "
        "within bounds, every choice of |dk| distinct components of the right kind, every finite birth/in-model draw (counting lemma for "
        "flips, by induction over the chosen components); hence every history of accepted/rejected steps, and every sweep exchanging whole "
        "(position, active set) pairs, keeps all levels well formed; the active set of a well-formed state IS the NaN pattern, so "
        "re-deriving it on start/clear/resume changes nothing. Tie: real _jump calls with the oracle captured on live instances and replayed "
        "by vm_compute; transdimensional MH/PT samplers replayed on the chain machine (active sets through steps, sweeps, clear, set_state); "
        "direct well-formedness checks of every level after every iteration across clear and three kinds of state load.",
   note=MACH_NOTE + " That numpy's choice(replace=False) returns distinct elements of its first argument, and that births/in-model jumps are finite, "
        "are premises (checked on every captured call).",
   technique="Coq proof (counting lemma by induction over flipped components, invariant by induction over step histories) + vm_compute correspondence",
   ref="DESIGN.md section 3, C10")

WIRE_NOTE = COMMON_NOTE + ("Mutable Python objects (generators, proposal copies, annealers) are cells of a heap; what a chain does is a program of "
             "primitive reads/writes on the cells it references. That real chain code touches only objects reachable from the chain is a "
             "premise, checked behaviourally. ")
CLAIMED['C07'] = dict(
   text="Partial by nature (OS process pools enter only through map semantics). Theorems about the object-graph model: if every chain's "
        "program stays within cells reachable from that chain and no cell is reachable from two chains, then serial evaluation in ANY "
        "order and evaluation on copies in ANY order give every chain the output and final cells it has when run alone (induction over "
        "the schedule with a frame and a locality lemma), and nothing outside a chain's cells - another chain's start, proposals, "
        "generator - influences it; the sampler constructors allocate disjoint footprints and wire every chain only to its own cells; "
        "the code as it was (one annealer for all chains) is refuted (serial vs copy, order dependence). Tie: the real object graph "
        "(generator/annealer/proposal copies per chain, generator of every drawing site, scan for mutable objects reachable from two "
        "chains) against the constructed graph under vm_compute; direct: per-chain histories under seven map implementations and real "
        "multiprocessing pools (thorough) against the built-in map, and perturbation of one chain's start.",
   note=WIRE_NOTE + " Source tie (Props/C07_src.v): that Chain.state stores and Chain.set_state hands on a deep copy of the proposals' state is read off "
        "/repo's chain.py on every run (tools/py2coq_state.py); with those flags the heap theorem says that one state object loaded into "
        "several samplers does not couple them.", technique="Coq proof (frame/locality lemmas, induction over evaluation schedules, arithmetic disjointness of allocations) + vm_compute correspondence of the object graph",
   ref="DESIGN.md section 3, C07")
CLAIMED['C04'] = dict(
   text="Partial by nature (bit-reproducibility of numpy/scipy/CPython across processes is sampled, not modelled). Theorems about the wiring "
        "model: every random decision of chain i (acceptance on every level, swaps, every constituent's jump, births and in-model jumps of "
        "transdimensional proposals) is drawn from the generator spawned from the sampler's seed with index i; different chains use "
        "different streams; a chain's output depends only on the cells it is wired to, whatever else differs in the process; the default "
        "proposal's parameter tuple is the order-preserving filter of the sampler's parameters, a function of the covered SET only. Tie: "
        "generator identity of every drawing site (incl. the Generator object actually drawn from) and the seed sequence "
        "(entropy, spawn key) of every chain against the model under vm_compute, also for proposal instances that drew numbers before the "
        "sampler got them; direct: every configuration rebuilt and rerun in 4-8 fresh interpreters differing in PYTHONHASHSEED, ambient "
        "numpy/random seeds, unrelated entropy-seeded objects and samplers built first, and pool; SHA-256 of all outputs must agree.",
   note=WIRE_NOTE + "Source tie (Props/C04_src.v): a census of every file of epsie/ regenerated on every run (tools/py2coq.py): the only names taken "
        "from numpy.random are PCG64, SeedSequence and Generator, and nothing refers to a process-wide source of randomness (numpy.random.*, the "
        "stdlib random module, .rvs(), default_rng(), RandomState(), seed()).",
   technique="Coq proof (provenance and locality on the wiring model, list lemmas for the default-proposal order) + vm_compute correspondence + subprocess matrix",
   ref="DESIGN.md section 3, C04")

LAW_NOTE = NUM_NOTE + ("The law of a jump is formalised as a push-forward: a generator draw is mapped to the proposed point; a rejection loop "
            "returns the first accepted draw, whose law is the conditional one (series lemma). Phi is an abstract strictly increasing cdf with "
            "Phi(-x) = 1 - Phi(x); that numpy's draws follow their documented laws is a premise. Solid-angle densities are with respect to the "
            "solid-angle measure. ")
CLAIMED['C02'] = dict(
   text="Theorems over the reals about the single-definition densities and jump maps (Dens.v): the draws that floorceil / round-half-even map "
        "to a displacement k form the cell whose mass NormalDiscrete reports (symmetric in k); BoundedDiscrete (successive on and off) "
        "reports cell mass over the mass of the acceptance region of its rejection loop, the cells of all reachable integers tile that "
        "region, and the first accepted draw has the conditional law (geometric series); BoundedNormal reports the conditional normal "
        "density on its bounds, zero outside, and its Hastings factor is the ratio of acceptance masses; bounded eigenvector likewise along "
        "the segment; Normal, Angular (for all angles and widths, via the wrapped signed distance), Eigenvector and the von Mises-Fisher "
        "density are symmetric; the solid-angle polar angle is the exact inverse cdf and the frame change is a rotation; with one cdf "
        "dictionary per parameter every query sequence returns the uncached value (the shared dictionary is refuted). The float instance of "
        "the same definitions runs against real logpdf()/jump() calls of all families in as-built, adapted, reset and std-reassigned states; "
        "a failing input is searched by feeding jump() a quantile grid (push-forward law vs reported density, Hastings factor vs law ratio).",
   note=LAW_NOTE + "Birth densities, the eigen-direction choice and the bounded eigenvector's box intersections are tied by correspondence only. "
        "Source tie (Props/C02_src.v): the public wrappers BaseProposal.jump and BaseProposal.logpdf as written in /repo's base.py today are "
        "translated on every run (tools/py2coq.py) to the condition under which each hands over to the family's _jump / _logpdf, and proved "
        "equal to each other and to the model's clock for every state: a density is reported exactly for the moves that are drawn; and the "
        "rejection loops of BoundedDiscrete._jump / BoundedNormal._jump regenerated by tools/py2coq_jump.py are bd_jump1 / bn_jump1, the "
        "jumps whose law the cell and truncation theorems describe.",
   technique="Coq proof over Reals (interval arithmetic of rounding cells with Flocq, telescoping sums, Coquelicot series, trigonometric identities) + vm_compute correspondence of the float instance",
   ref="DESIGN.md section 3, C02")

CLAIMED['C12'] = dict(
   text="Theorems about the single-definition jump maps (Dens.v): for every list of draws, every scale and every numeric instance the "
        "rejection loops of the bounded discrete and bounded normal families return only points within the bounds and refuse from "
        "outside them; discrete proposals return integers and, without successive jumps, never the current one (over the reals the only "
        "draw mapped to displacement 0 is 0.0, which the loop redraws); every proposed angle lies in [0, 2 pi); solid-angle proposals have "
        "azimuth in [0, 2 pi) and polar angle in [0, pi]; uniform and log-normal births land where their own density is positive. The "
        "float instance runs against real jump()/birth calls under scripted draws (typical, 8-37 sigma, denormal, exactly zero, cell "
        "edges, thousands of consecutive misses), scales 1e-40..1e10 times the domain, boundary points and poles, all four solid-angle "
        "conventions; membership and refusal are also checked directly, and proposed_position along adaptive runs.",
   note=LAW_NOTE + "Binary64 effects at the faces (a wrapped angle of exactly 2 pi, cosines rounding outside [-1,1], the bounded eigenvector's "
        "isclose tolerance) are explored on the implementation only. Source tie (Props/C12_src.v): the scalar membership test of "
        "BoundedNormal.__contains__, the acceptance test of BoundedNormal._jump, one pass of the redraw loop of BoundedDiscrete._jump and the "
        "refusal at the top of each _jump are regenerated from /repo on every run (tools/py2coq_jump.py); the in-bounds, refusal and "
        "never-the-current-integer theorems are restated and proved for the loops built from these generated pieces.",
   technique="Coq proof (induction over draw lists, interval reasoning over Reals) + vm_compute correspondence of the float instance",
   ref="DESIGN.md section 3, C12")

CLAIMED['C11'] = dict(
   text="Theorems: the composite density NestedTransdimensional reports contains the index-jump term, birth terms only when the dimension "
        "grows and then exactly for the newly active components, in-model terms for the components active on both sides (every numeric "
        "instance); C(N-k,d) C(N,k) = C(k+d,d) C(N,k+d); hence, with qt the true law of the composite jump (which also contains the uniform "
        "choice of the d components switched) the step's acceptance ratio is f(x') C(x) qt(x|x') / (f(x) C(x') qt(x'|x)) for births and "
        "for deaths of any multiplicity, and detailed balance holds for f/C. The index-jump law itself is C02's bounded-discrete theorem. "
        "Tie: every step of real transdimensional chains (2-5 components, multiplicities up to 4, successive on/off, three birth laws, "
        "five in-model families incl. a non-symmetric one, betas < 1): both composite densities and the recorded acceptance ratio "
        "against td_logpdf / bd_logpmf1 / the MH kernel under vm_compute, and directly against the formula evaluated with scipy and "
        "exact binomials.",
   note=LAW_NOTE + "That numpy's choice(replace=False) is uniform over d-subsets is a premise. Source tie (Props/C11_src.v): one pass of the redraw "
        "loop of BoundedDiscrete._jump (the index proposal) as written in /repo today is regenerated on every run (tools/py2coq_jump.py) and "
        "proved to be the model's pass, and its iteration to the first kept draw to be bd_jump1, whose law is the mass in the ratio.",
   technique="Coq proof over Reals (factorial algebra, exp/ln, Rmin) + vm_compute correspondence of the float instance",
   ref="DESIGN.md section 3, C11")

PENDING_REASON = "not yet claimed: model/theorems for this property are still being built (see DESIGN.md section 3); nothing is asserted about it"

def main():
    m = dict(
        version=1,
        setup_cmd="./setup.sh",
        hooks=dict(
            guard="EPSIE_VERIF",
            enable="no source hooks exist: all instrumentation is harness-side monkey-patching inside the harness process (PYTHONPATH=/repo)",
            baseline_off_cmd="cd /repo && /venv/bin/python -m pytest -ra -q -p no:cacheprovider --timeout=900 --continue-on-collection-errors",
            source_commits=[],
            add_only=True),
        engines=[dict(name="coq-model+correspondence", path="check",
                      serves_properties=sorted(CLAIMED),
                      kind_free_text="Coq 8.16.1 development under coq/theories (model, proofs, Props/Cxx.v), Python harness under harness/ "
                                     "(generated cases.v evaluated by vm_compute against the real implementation)")],
        checks=[],
        notes="See DESIGN.md. known_findings.json lists genuine defects recorded rather than repaired.",
        not_applicable=[])
    for pid in ALL:
        if pid in CLAIMED:
            c = CLAIMED[pid]
            m['checks'].append(dict(
                property_id=pid,
                quick_cmd="./check %s --tier quick" % pid,
                thorough_cmd="./check %s --tier thorough" % pid,
                evidence_file="evidence/%s.json" % pid,
                replay_cmd_template="./check %s --replay {path}" % pid,
                engine="coq-model+correspondence",
                level_claimed=dict(category="proof", text=c['text'], design_ref=c['ref']),
                level_note=c['note'],
                technique=c['technique']))
        else:
            m['not_applicable'].append(dict(property_id=pid, reason=PENDING_REASON))
    with open(os.path.join(VERIF, 'MANIFEST.json'), 'w') as f:
        json.dump(m, f, indent=1)
    print('claimed:', sorted(CLAIMED))

if __name__ == '__main__':
    main()
