#!/usr/bin/env python3
"""Fail-closed translator for the `state` property / `set_state` method of the proposal families (C05).

For every family class it renders, from the CURRENT /repo sources,
  src_saved_<fam>    : list (string * string)   key of the state dict -> the attribute whose value is stored under it
  src_assigned_<fam> : list (string * string)   key of the state dict -> the attribute set_state assigns it to
as Gallina data (coq/theories/Gen/SrcState.v).  "The attribute" means exactly that: `self._x`, or a property whose getter is
`return self._x` (setter: optional validation that only raises, then `self._x = value`), or the generator state
(`self.bit_generator.state`).  Anything else - a computed property such as `self.nsteps`, an expression around `state[key]` -
is rendered as an attribute named "?<source text>", which no table entry matches, so that SrcTie_state.v stops compiling.
Families whose state depends on `self.isdiagonal` are rendered once per branch (<fam>_diag / <fam>_full).
"""
import ast
import glob
import os
import sys

REPO = os.environ.get('EPSIE_REPO', '/repo')
FAMILIES = [            # (file, class, family name, has diag/full branches)
    ('epsie/proposals/normal.py', 'Normal', 'normal', False),
    ('epsie/proposals/solid_angle.py', 'IsotropicSolidAngle', 'solid_angle', False),
    ('epsie/proposals/eigenvector.py', 'Eigenvector', 'eigenvector', False),
    ('epsie/proposals/normal.py', 'AdaptiveSupport', 'veitch', False),
    ('epsie/proposals/normal.py', 'SSAdaptiveSupport', 'ss', True),
    ('epsie/proposals/normal.py', 'ATAdaptiveSupport', 'at', True),
    ('epsie/proposals/eigenvector.py', 'AdaptiveEigenvectorSupport', 'adaptive_eigenvector', False),
    ('epsie/proposals/solid_angle.py', 'AdaptiveIsotropicSolidAngleSupport', 'adaptive_solid_angle', False),
]


class Untranslatable(Exception):
    pass


def strip_doc(stmts):
    return [s for s in stmts if not (isinstance(s, ast.Expr) and isinstance(s.value, ast.Constant) and isinstance(s.value.value, str))]


def all_classes():
    out = []
    for path in sorted(glob.glob(os.path.join(REPO, 'epsie', 'proposals', '*.py'))):
        tree = ast.parse(open(path).read())
        for node in tree.body:
            if isinstance(node, ast.ClassDef):
                out.append(node)
    return out


CLASSES = None


def accessors(name):
    """all getters and setters of a property called `name` in epsie/proposals (any class)"""
    global CLASSES
    if CLASSES is None:
        CLASSES = all_classes()
    getters, setters = [], []
    for c in CLASSES:
        for f in c.body:
            if isinstance(f, ast.FunctionDef) and f.name == name:
                decs = [ast.unparse(d) for d in f.decorator_list]
                if 'property' in decs:
                    getters.append(f)
                elif name + '.setter' in decs:
                    setters.append(f)
    return getters, setters


def is_self_attr(e):
    return isinstance(e, ast.Attribute) and isinstance(e.value, ast.Name) and e.value.id == 'self'


def getter_attr(f):
    b = strip_doc(f.body)
    if len(b) == 1 and isinstance(b[0], ast.Return) and b[0].value is not None:
        v = b[0].value
        if is_self_attr(v):
            return v.attr
        if isinstance(v, ast.Attribute) and v.attr == 'state' and is_self_attr(v.value):
            return v.value.attr                       # self.bit_generator.state
    return None


def setter_attr(f):
    b = strip_doc(f.body)
    param = f.args.args[1].arg
    while b and isinstance(b[0], ast.If) and not b[0].orelse and all(isinstance(s, ast.Raise) for s in b[0].body):
        b = b[1:]                                     # validation that only raises
    if len(b) == 1 and isinstance(b[0], ast.Assign) and len(b[0].targets) == 1 and isinstance(b[0].value, ast.Name) and b[0].value.id == param:
        t = b[0].targets[0]
        if is_self_attr(t):
            return t.attr
        if isinstance(t, ast.Attribute) and t.attr == 'state' and is_self_attr(t.value):
            return t.value.attr
    return None


def read_attr(e):
    """the attribute a saved value is read from, or '?<text>'"""
    if not is_self_attr(e):
        return '?' + ast.unparse(e)
    getters, _ = accessors(e.attr)
    if not getters:
        return e.attr
    got = {getter_attr(g) for g in getters}
    if len(got) == 1 and None not in got:
        return got.pop()
    return '?' + ast.unparse(e)


def write_attr(t):
    if not is_self_attr(t):
        return '?' + ast.unparse(t)
    _, setters = accessors(t.attr)
    getters, _ = accessors(t.attr)
    if not setters and not getters:
        return t.attr
    got = {setter_attr(s) for s in setters}
    if len(got) == 1 and None not in got:
        return got.pop()
    return '?' + ast.unparse(t)


def branch_value(test, diag):
    """value of a test on self.isdiagonal in the given branch, or None when the test is about something else"""
    if is_self_attr(test) and test.attr == 'isdiagonal':
        return diag
    if isinstance(test, ast.UnaryOp) and isinstance(test.op, ast.Not):
        v = branch_value(test.operand, diag)
        return None if v is None else (not v)
    return None


def flatten(stmts, diag):
    """statements with the isdiagonal branches resolved; other ifs are kept"""
    out = []
    for s in stmts:
        if isinstance(s, ast.If):
            v = branch_value(s.test, diag) if diag is not None else None
            if v is None and diag is None and branch_value(s.test, True) is not None:
                raise Untranslatable('a branch on isdiagonal in a family that is rendered without branches')
            if v is True:
                out += flatten(s.body, diag)
                continue
            if v is False:
                out += flatten(s.orelse, diag)
                continue
        out.append(s)
    return out


def dict_items(d):
    if not isinstance(d, ast.Dict):
        raise Untranslatable('state is not built from dictionary literals')
    out = []
    for k, v in zip(d.keys, d.values):
        if not (isinstance(k, ast.Constant) and isinstance(k.value, str)):
            raise Untranslatable('a key of the state dictionary is not a string literal')
        out.append((k.value, read_attr(v)))
    return out


def saved(f, diag):
    b = flatten(strip_doc(f.body), diag)
    items, var = [], None
    for s in b:
        if isinstance(s, ast.Return):
            if isinstance(s.value, ast.Dict):
                if var is not None:
                    raise Untranslatable('state returns a second dictionary')
                return items + dict_items(s.value)
            if isinstance(s.value, ast.Name) and s.value.id == var:
                return items
            raise Untranslatable('state returns %s' % ast.unparse(s.value))
        if isinstance(s, ast.Assign) and len(s.targets) == 1 and isinstance(s.targets[0], ast.Name) and isinstance(s.value, ast.Dict) and var is None:
            var = s.targets[0].id
            items += dict_items(s.value)
            continue
        if (isinstance(s, ast.Expr) and isinstance(s.value, ast.Call) and isinstance(s.value.func, ast.Attribute)
                and s.value.func.attr == 'update' and isinstance(s.value.func.value, ast.Name) and s.value.func.value.id == var
                and len(s.value.args) == 1 and not s.value.keywords):
            items += dict_items(s.value.args[0])
            continue
        if (isinstance(s, ast.Assign) and len(s.targets) == 1 and isinstance(s.targets[0], ast.Subscript)
                and isinstance(s.targets[0].value, ast.Name) and s.targets[0].value.id == var
                and isinstance(s.targets[0].slice, ast.Constant) and isinstance(s.targets[0].slice.value, str)):
            items.append((s.targets[0].slice.value, read_attr(s.value)))
            continue
        raise Untranslatable('statement in state: %s' % ast.unparse(s)[:60])
    raise Untranslatable('state does not return')


def state_key(e, pname):
    """`state['k']` or `state.get('k', default)` -> k"""
    if (isinstance(e, ast.Subscript) and isinstance(e.value, ast.Name) and e.value.id == pname
            and isinstance(e.slice, ast.Constant) and isinstance(e.slice.value, str)):
        return e.slice.value
    if (isinstance(e, ast.Call) and isinstance(e.func, ast.Attribute) and e.func.attr == 'get' and isinstance(e.func.value, ast.Name)
            and e.func.value.id == pname and e.args and isinstance(e.args[0], ast.Constant) and isinstance(e.args[0].value, str)):
        return e.args[0].value
    return None


def mentions(e, pname):
    return any(isinstance(n, ast.Name) and n.id == pname for n in ast.walk(e))


def assigned(f, diag):
    pname = f.args.args[1].arg
    out = []

    def go(stmts, conditional):
        for s in stmts:
            if isinstance(s, ast.If):
                if mentions(s.test, pname):
                    raise Untranslatable('set_state branches on the state')
                go(s.body, True)
                go(s.orelse, True)
                continue
            if isinstance(s, ast.Assign) and mentions(s.value, pname):
                k = state_key(s.value, pname)
                if k is None or len(s.targets) != 1:
                    # an expression around state[key]: find the key for the report, mark the attribute
                    keys = [state_key(n, pname) for n in ast.walk(s.value)]
                    keys = [x for x in keys if x]
                    out.append((keys[0] if keys else '?', '?' + ast.unparse(s)))
                elif conditional:
                    out.append((k, '?conditional ' + ast.unparse(s)))
                else:
                    out.append((k, write_attr(s.targets[0])))
                continue
            if mentions(s, pname) and not isinstance(s, ast.Assign):
                raise Untranslatable('set_state uses the state in: %s' % ast.unparse(s)[:60])
    go(flatten(strip_doc(f.body), diag), False)
    return out


ADAPTIVE = [fam for fam in FAMILIES if fam[2] in ('veitch', 'ss', 'at', 'adaptive_eigenvector', 'adaptive_solid_angle')]


def key_attr(k):
    """the attribute that `setattr(self, k, ..)` ends up writing"""
    return write_attr(ast.Attribute(value=ast.Name(id='self', ctx=ast.Load()), attr=k, ctx=ast.Store()))


def reset_attrs(f, diag):
    """setup_adaptation: the keys of `self._initial_proposal_params` (= the attributes a reset writes), each with whether the stored
    initial value is a copy of its own (a `.copy()` / `numpy.copy(..)` / a literal / a local) rather than the live attribute object"""
    out = []

    def is_ipp(e):
        return is_self_attr(e) and e.attr == '_initial_proposal_params'

    def fresh(v):
        if isinstance(v, ast.Constant):
            return True
        if isinstance(v, ast.Call) and isinstance(v.func, ast.Attribute) and v.func.attr == 'copy':
            return True
        if isinstance(v, ast.IfExp):
            return fresh(v.body) and fresh(v.orelse)
        if isinstance(v, ast.Name):
            return True
        return False           # e.g. self._cov itself: the stored initial value is the live object

    def items(d, conditional):
        if not isinstance(d, ast.Dict):
            raise Untranslatable('_initial_proposal_params is not built from dictionary literals')
        for k, v in zip(d.keys, d.values):
            if not (isinstance(k, ast.Constant) and isinstance(k.value, str)):
                raise Untranslatable('a key of _initial_proposal_params is not a string literal')
            a = key_attr(k.value)
            out.append((('?conditional ' + a) if conditional else a, 'copy' if fresh(v) else 'live'))

    def go(stmts, conditional):
        for st in stmts:
            if isinstance(st, ast.If):
                go(st.body, True)
                go(st.orelse, True)
            elif isinstance(st, ast.Assign) and len(st.targets) == 1 and is_ipp(st.targets[0]):
                items(st.value, conditional)
            elif (isinstance(st, ast.Expr) and isinstance(st.value, ast.Call) and isinstance(st.value.func, ast.Attribute)
                  and st.value.func.attr == 'update' and is_ipp(st.value.func.value) and len(st.value.args) == 1):
                items(st.value.args[0], conditional)
            elif any(is_ipp(n) for n in ast.walk(st)):
                raise Untranslatable('_initial_proposal_params is used in: %s' % ast.unparse(st)[:60])
    go(flatten(strip_doc(f.body), diag), False)
    return out


def reset_copies():
    """BaseAdaptiveSupport._reset_adaptation: does every attribute get a deep copy of the stored initial value?"""
    f = find('epsie/proposals/base.py', 'BaseAdaptiveSupport', '_reset_adaptation')
    loops = [n for n in ast.walk(f) if isinstance(n, ast.For)]
    if len(loops) != 1:
        raise Untranslatable('_reset_adaptation does not have exactly one loop')
    lp = loops[0]
    if not (isinstance(lp.iter, ast.Call) and isinstance(lp.iter.func, ast.Attribute) and lp.iter.func.attr == 'items'
            and is_self_attr(lp.iter.func.value) and lp.iter.func.value.attr == '_initial_proposal_params'
            and isinstance(lp.target, ast.Tuple) and len(lp.target.elts) == 2 and all(isinstance(e, ast.Name) for e in lp.target.elts)):
        raise Untranslatable('the loop of _reset_adaptation is not over self._initial_proposal_params.items()')
    a, v = lp.target.elts[0].id, lp.target.elts[1].id
    b = strip_doc(lp.body)
    if not (len(b) == 1 and isinstance(b[0], ast.Expr) and isinstance(b[0].value, ast.Call) and isinstance(b[0].value.func, ast.Name)
            and b[0].value.func.id == 'setattr' and len(b[0].value.args) == 3 and isinstance(b[0].value.args[0], ast.Name)
            and b[0].value.args[0].id == 'self' and isinstance(b[0].value.args[1], ast.Name) and b[0].value.args[1].id == a):
        raise Untranslatable('the loop body of _reset_adaptation is not setattr(self, attr, ..)')
    val = b[0].value.args[2]
    deep = (isinstance(val, ast.Call) and ast.unparse(val.func) in ('copy.deepcopy', 'deepcopy') and len(val.args) == 1
            and isinstance(val.args[0], ast.Name) and val.args[0].id == v)
    # nothing after the loop may write the attributes again, other than recomputing what is derived from them
    return deep


def is_deepcopy_of(e, inner):
    return (isinstance(e, ast.Call) and ast.unparse(e.func) in ('copy.deepcopy', 'deepcopy') and len(e.args) == 1 and not e.keywords
            and ast.unparse(e.args[0]) == inner)


def chain_state_copies():
    """Chain.state: is the proposals' state stored as a deep copy?  Chain.set_state: is it handed to the proposals as a deep copy?"""
    f = find('epsie/chain/chain.py', 'Chain', 'state')
    hits = [n.value for n in ast.walk(f) if isinstance(n, ast.Assign) and len(n.targets) == 1 and isinstance(n.targets[0], ast.Subscript)
            and isinstance(n.targets[0].slice, ast.Constant) and n.targets[0].slice.value == 'proposal_dist']
    for d in ast.walk(f):               # ... or as an entry of a dictionary literal
        if isinstance(d, ast.Dict):
            hits += [v for k, v in zip(d.keys, d.values) if isinstance(k, ast.Constant) and k.value == 'proposal_dist']
    if len(hits) != 1:
        raise Untranslatable("Chain.state does not store the key 'proposal_dist' exactly once")
    out = is_deepcopy_of(hits[0], 'self.proposal_dist.state')
    g = find('epsie/chain/chain.py', 'Chain', 'set_state')
    pname = g.args.args[1].arg
    calls = [n for n in ast.walk(g) if isinstance(n, ast.Call) and ast.unparse(n.func) == 'self.proposal_dist.set_state']
    if len(calls) != 1 or len(calls[0].args) != 1:
        raise Untranslatable('Chain.set_state does not call self.proposal_dist.set_state(..) exactly once')
    into = is_deepcopy_of(calls[0].args[0], "%s['proposal_dist']" % pname)
    return out, into


def find(path, cls, fn):
    tree = ast.parse(open(os.path.join(REPO, path)).read())
    for node in tree.body:
        if isinstance(node, ast.ClassDef) and node.name == cls:
            for f in node.body:
                if isinstance(f, ast.FunctionDef) and f.name == fn:
                    return f
    raise Untranslatable('%s.%s not found in %s' % (cls, fn, path))


def cstr(s):
    return '"%s"' % s.replace('\\', '\\\\').replace('"', "'")


def clist(items):
    return '[' + '; '.join('(%s, %s)' % (cstr(k), cstr(a)) for k, a in items) + ']'


def generate():
    lines = ['(* GENERATED by tools/py2coq_state.py from the current /repo sources - do not edit. *)',
             'From Coq Require Import String List.', 'Import ListNotations.', 'Open Scope string_scope.', '']
    notes = []
    for path, cls, fam, branches in FAMILIES:
        for diag, suffix in (((True, '_diag'), (False, '_full')) if branches else ((None, ''),)):
            name = fam + suffix
            for what, fn, tr in (('saved', 'state', saved), ('assigned', 'set_state', assigned)):
                try:
                    items = tr(find(path, cls, fn), diag)
                    lines.append('Definition src_%s_%s : list (string * string) := %s.' % (what, name, clist(items)))
                except (Untranslatable, SyntaxError, OSError, IndexError) as e:
                    lines.append('(* src_%s_%s: NOT TRANSLATED: %s *)' % (what, name, str(e).replace('*)', '* )')))
                    notes.append('py2coq_state: src_%s_%s not translated: %s' % (what, name, e))
            lines.append('')
    for path, cls, fam, branches in ADAPTIVE:
        for diag, suffix in (((True, '_diag'), (False, '_full')) if branches else (((True if fam == 'veitch' else None), ''),)):
            name = fam + suffix
            try:
                items = reset_attrs(find(path, cls, 'setup_adaptation'), diag)
                lines.append('Definition src_reset_%s : list (string * string) := %s.' % (name, clist(items)))
            except (Untranslatable, SyntaxError, OSError, IndexError) as e:
                lines.append('(* src_reset_%s: NOT TRANSLATED: %s *)' % (name, str(e).replace('*)', '* )')))
                notes.append('py2coq_state: src_reset_%s not translated: %s' % (name, e))
    try:
        lines.append('\nDefinition src_reset_deepcopies : bool := %s.' % ('true' if reset_copies() else 'false'))
    except (Untranslatable, SyntaxError, OSError, IndexError) as e:
        lines.append('(* src_reset_deepcopies: NOT TRANSLATED: %s *)' % (str(e).replace('*)', '* )'),))
        notes.append('py2coq_state: src_reset_deepcopies not translated: %s' % e)
    try:
        a, b = chain_state_copies()
        lines.append('\nDefinition src_chain_state_deepcopies : bool := %s.' % ('true' if a else 'false'))
        lines.append('\nDefinition src_chain_set_state_deepcopies : bool := %s.' % ('true' if b else 'false'))
    except (Untranslatable, SyntaxError, OSError, IndexError) as e:
        lines.append('(* src_chain_state_deepcopies: NOT TRANSLATED: %s *)' % (str(e).replace('*)', '* )'),))
        notes.append('py2coq_state: src_chain_state_deepcopies not translated: %s' % e)
    return '\n'.join(lines) + '\n', notes


if __name__ == '__main__':
    text, notes = generate()
    out = sys.argv[1] if len(sys.argv) > 1 else '-'
    if out == '-':
        sys.stdout.write(text)
    else:
        old = open(out).read() if os.path.exists(out) else None
        if old != text:
            open(out, 'w').write(text)
    for n in notes:
        print(n)
