#!/bin/bash
# usage: tools/try_seeded2.sh <mutant dir name under seeded/> "<check ids>" [tier]  -- apply, run checks, revert
set -u
cd /verif
mid=$1; cids=$2; tier=${3:-quick}
if ! git -C /repo diff --quiet; then echo "/repo has uncommitted changes"; exit 2; fi
rm -rf /var/tmp/evidence_keep && cp -r /verif/evidence /var/tmp/evidence_keep   # runs against a changed tree must not leave their evidence behind
if ! git -C /repo apply /verif/seeded/$mid/patch.diff 2>/tmp/apply.err; then echo "patch does not apply: $(cat /tmp/apply.err | head -2)"; exit 3; fi
for cid in $cids; do
  out=$(./check $cid --tier $tier 2>&1); rc=$?
  echo "$mid vs $cid: exit=$rc $(echo "$out" | grep -v '^KNOWN' | tail -1 | sed 's/obligations.*cases/cases/')"
  echo "$out" | grep "^VIOLATION" | head -1
done
git -C /repo checkout -- . ; git -C /repo status --short | head -3
rm -rf /verif/evidence && mv /var/tmp/evidence_keep /verif/evidence
