#!/usr/bin/env python3
"""Helper used while committing minimal `fix:` repairs to /repo:
   repo_fix.py <spec.json>   where spec = {"message": ..., "edits": [[path, old, new], ...]}"""
import json
import subprocess
import sys

spec = json.load(open(sys.argv[1]))
for path, old, new in spec['edits']:
    p = '/repo/' + path
    s = open(p).read()
    assert s.count(old) >= 1, (path, old)
    s = s.replace(old, new, 1)
    open(p, 'w').write(s)
subprocess.check_call(['git', '-C', '/repo', 'commit', '-qam', spec['message']])
print(subprocess.check_output(['git', '-C', '/repo', 'log', '--oneline', '-1']).decode().strip())
