#!/usr/bin/env python3
"""Second-round seeded changes (made against the repaired tree): collect from /tmp/wt2-<id>, confirm
independently in a scratch worktree at /repo's HEAD (demo passes without / fails with the change; the
stable baseline tests still pass with it) and store under seeded/<id>b/."""
import json, os, shutil, subprocess, sys, time
VERIF = os.path.dirname(os.path.dirname(os.path.abspath(__file__)))
WT = '/tmp/verify-wt4-' + '-'.join(sys.argv[1:])[:40]
ids = sys.argv[1:]
props = {json.loads(l)['id']: json.loads(l) for l in open(os.path.join(VERIF, 'properties.jsonl'))}
HEAD = subprocess.check_output(['git', '-C', '/repo', 'rev-parse', '--short', 'HEAD']).decode().strip()


def sh(cmd, cwd=None, timeout=3600):
    p = subprocess.run(cmd, shell=True, cwd=cwd, stdout=subprocess.PIPE, stderr=subprocess.STDOUT, text=True, timeout=timeout)
    return p.returncode, p.stdout


subprocess.run('git -C /repo worktree remove --force %s 2>/dev/null; git -C /repo worktree add -q --detach %s HEAD' % (WT, WT), shell=True)
env = 'PYTHONPATH=%s PYTHONDONTWRITEBYTECODE=1' % WT
for pid in ids:
    src = '/tmp/wt4-%s' % pid
    if not os.path.exists(os.path.join(src, 'demo_%s.py' % pid)):
        print(pid, 'no demo in', src)
        continue
    d = os.path.join(VERIF, 'seeded', pid + "d")
    os.makedirs(d, exist_ok=True)
    rc, diff = sh('git diff -- epsie', cwd=src)          # the change as it is in the agent's worktree
    open(os.path.join(d, 'patch.diff'), 'w').write(diff)
    shutil.copy(os.path.join(src, 'demo_%s.py' % pid), d)
    if os.path.exists(os.path.join(src, 'meta_agent.json')):
        shutil.copy(os.path.join(src, 'meta_agent.json'), d)
    t0 = time.time()
    sh('git checkout -q -- . && git clean -fdq', cwd=WT)
    demo = os.path.join(d, 'demo_%s.py' % pid)
    rc0, out0 = sh('%s timeout 1200 /venv/bin/python %s' % (env, demo), cwd=WT)
    rca, outa = sh('git apply %s' % os.path.join(d, 'patch.diff'), cwd=WT)
    rc1, out1 = sh('%s timeout 1200 /venv/bin/python %s' % (env, demo), cwd=WT)
    rcs, outs = sh('python3 %s/tools/baseline_check.py %s' % (VERIF, WT))
    agent = {}
    try:
        agent = json.load(open(os.path.join(d, 'meta_agent.json')))
    except Exception:
        pass
    meta = dict(
        property=pid, title=props[pid]['title'], round=4,
        summary=agent.get('summary'), needs=agent.get('needs'),
        confirmed=dict(
            worktree_commit=HEAD, patch_applies=rca == 0,
            demo_exit_without_change=rc0, demo_exit_with_change=rc1,
            demo_tail_with_change=out1.strip().splitlines()[-3:],
            baseline_suite=outs.strip().splitlines()[0] if outs.strip() else '',
            stable_tests_still_pass=rcs == 0,
            commands=['git apply patch.diff (scratch worktree at /repo HEAD %s)' % HEAD,
                      'PYTHONPATH=<wt> /venv/bin/python demo_%s.py  (before and after applying)' % pid,
                      'tools/baseline_check.py <wt>  (pinned suite vs BASELINE.json stable_pass)'],
            wall_s=round(time.time() - t0, 1)),
        valid=(rca == 0 and rc0 == 0 and rc1 != 0 and rcs == 0))
    json.dump(meta, open(os.path.join(d, 'meta.json'), 'w'), indent=1)
    print(pid + "d", 'valid' if meta['valid'] else 'INVALID', rc0, rc1, meta['confirmed']['baseline_suite'], flush=True)
subprocess.run('git -C /repo worktree remove --force %s' % WT, shell=True)
