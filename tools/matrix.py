#!/usr/bin/env python3
"""Run every seeded change against the check of its property (quick tier) and record the verdicts in
seeded/MATRIX.json.  Applies each patch to /repo, runs ./check, reverts."""
import json, os, subprocess, sys, time
VERIF = os.path.dirname(os.path.dirname(os.path.abspath(__file__)))
ids = sys.argv[1:] or sorted(d for d in os.listdir(os.path.join(VERIF, 'seeded')) if os.path.isdir(os.path.join(VERIF, 'seeded', d)))
path = os.path.join(VERIF, 'seeded', 'MATRIX.json')
M = json.load(open(path)) if os.path.exists(path) else {}


def sh(cmd, cwd=None):
    p = subprocess.run(cmd, shell=True, cwd=cwd, stdout=subprocess.PIPE, stderr=subprocess.STDOUT, text=True)
    return p.returncode, p.stdout


assert sh('git -C /repo diff --quiet')[0] == 0, '/repo has uncommitted changes'
# runs against a changed tree must not leave their evidence behind
sh('rm -rf /var/tmp/evidence_keep && cp -r %s/evidence /var/tmp/evidence_keep' % VERIF)
import atexit
atexit.register(lambda: sh('rm -rf %s/evidence && mv /var/tmp/evidence_keep %s/evidence' % (VERIF, VERIF)))
# ... nor the files generated from the changed sources
atexit.register(lambda: sh('git -C /repo checkout -- . ; PYTHONPATH=/repo:%s /venv/bin/python -c "from harness import core; core.translate_sources()"' % VERIF, cwd=VERIF))
for mid in ids:
    pid = mid[:3]
    patch = os.path.join(VERIF, 'seeded', mid, 'patch.diff')
    if not os.path.exists(patch):
        continue
    rc, out = sh('git -C /repo apply %s' % patch)
    if rc != 0:
        rc2, out2 = sh('git -C /repo apply --3way %s' % patch)
        sh('git -C /repo reset -q')
        if rc2 != 0:
            sh('git -C /repo checkout -- .')
            M[mid] = dict(property=pid, applies=False, verdict='does not apply to the repaired tree')
            print(mid, 'does not apply', flush=True)
            continue
    # does the change still break the property on this tree? (its own demonstration)
    demo = os.path.join(VERIF, 'seeded', mid, 'demo_%s.py' % pid)
    drc, dout = sh('cd /tmp && PYTHONHASHSEED=0 PYTHONPATH=/repo PYTHONDONTWRITEBYTECODE=1 timeout 900 /venv/bin/python %s' % demo)
    t0 = time.time()
    crc, cout = sh('./check %s --tier quick' % pid, cwd=VERIF)
    lines = [l for l in cout.splitlines() if l.startswith('VIOLATION')]
    sh('git -C /repo checkout -- .')
    sh('find /repo -name "*.orig" -o -name "*.rej" | xargs -r rm -f')
    M[mid] = dict(property=pid, applies=True, demo_fails_with_change=(drc != 0), check_exit=crc,
                  violation_lines=len(lines), with_failing_input=any('no-failing-input-found' not in l for l in lines),
                  wall_s=round(time.time() - t0, 1),
                  verdict=('detected' if crc != 0 else ('not a violation on the repaired tree (its demonstration passes)' if drc == 0 else 'MISSED')))
    print(mid, M[mid]['verdict'], 'demo_rc=%d check_rc=%d' % (drc, crc), flush=True)
    json.dump(M, open(path, 'w'), indent=1, sort_keys=True)
json.dump(M, open(path, 'w'), indent=1, sort_keys=True)
