#!/usr/bin/env python3
"""Fail-closed translator of the rejection loops of the bounded proposals (C12, C02, C11) into Gallina.

From the CURRENT /repo sources it renders into coq/theories/Gen/SrcJump.v
  src_contains_Z / src_contains_T : the scalar membership test of BoundedNormal.__contains__ (inherited by the bounded discrete
        family), over the integers and over the numeric class of the model
  src_bn_accept     : the test under which BoundedNormal._jump keeps a draw (its `while <pt> not in self` loop)
  src_bd_accept     : one pass of the redraw loop of BoundedDiscrete._jump: draw -> displacement (rounding / floor-ceil by the
        parameter's `successive` flag) -> new integer -> kept (Some) or redrawn (None)
  src_bn_refuses_outside / src_bd_refuses_outside : the first statement of each _jump raises ValueError when the given point,
        as given, is not in the bounds
Anything outside the accepted shapes: the definition is omitted, so that SrcTie_jump.v stops compiling."""
import ast
import os
import sys

sys.path.insert(0, os.path.dirname(os.path.abspath(__file__)))
from py2coq import Untranslatable, find_func, strip_doc, REPO   # noqa

BN = 'epsie/proposals/bounded_normal.py'
BD = 'epsie/proposals/discrete.py'


def dotted(e):
    if isinstance(e, ast.Name):
        return e.id
    if isinstance(e, ast.Attribute):
        b = dotted(e.value)
        return None if b is None else b + '.' + e.attr
    return None


# ------------------------------------------------------------------------------------------------------------------
def contains_test():
    """BoundedNormal.__contains__: the scalar test on one parameter as a function (lo, hi, v) -> source comparison chain.
    Checked around it: the tests of the parameters are combined by `&` / `and` only and the combination is what is returned."""
    f = find_func(BN, 'BoundedNormal', '__contains__')
    loops = [n for n in f.body if isinstance(n, ast.For)]
    if len(loops) != 1:
        raise Untranslatable('__contains__ does not have exactly one loop over the parameters')
    lp = loops[0]
    bnds = [n for n in ast.walk(lp) if isinstance(n, ast.Assign) and len(n.targets) == 1
            and isinstance(n.value, ast.Subscript) and dotted(n.value.value) == 'self.boundaries']
    if len(bnds) != 1:
        raise Untranslatable('__contains__: expected one `<b> = self.boundaries[p]`')
    bname, lo_name, hi_name = None, None, None
    if isinstance(bnds[0].targets[0], ast.Name):
        bname = bnds[0].targets[0].id
    elif isinstance(bnds[0].targets[0], ast.Tuple) and len(bnds[0].targets[0].elts) == 2 and all(isinstance(x, ast.Name) for x in bnds[0].targets[0].elts):
        lo_name, hi_name = [x.id for x in bnds[0].targets[0].elts]
    else:
        raise Untranslatable('__contains__: the bounds are bound to neither a name nor a pair of names')
    vals = [n for n in ast.walk(lp) if isinstance(n, ast.Assign) and len(n.targets) == 1 and isinstance(n.targets[0], ast.Name)
            and isinstance(n.value, ast.Call) and isinstance(n.value.func, ast.Attribute) and n.value.func.attr in ('pop', 'get')]
    if len(vals) != 1:
        raise Untranslatable('__contains__: expected one `<v> = testpt.pop(p)`')
    vname = vals[0].targets[0].id
    # the scalar branch: an assignment whose value is a comparison chain over <b> and <v> without `&`
    cands = [n for n in ast.walk(lp) if isinstance(n, ast.Assign) and (isinstance(n.value, ast.Compare) or (
        isinstance(n.value, ast.BoolOp) and isinstance(n.value.op, ast.And) and all(isinstance(v, ast.Compare) for v in n.value.values)))]
    if len(cands) != 1:
        raise Untranslatable('__contains__: expected exactly one scalar comparison chain')
    cmp_, tname = cands[0].value, dotted(cands[0].targets[0])
    # accumulation: `isin = t` / `isin &= t` (or `isin = isin and t`), and `return isin`
    acc = [n for n in ast.walk(lp) if isinstance(n, ast.AugAssign) and isinstance(n.op, ast.BitAnd) and dotted(n.value) == tname]
    rets = [n for n in ast.walk(f) if isinstance(n, ast.Return) and n.value is not None]
    if len(acc) != 1 or len(rets) != 1 or dotted(rets[0].value) != dotted(acc[0].target):
        raise Untranslatable('__contains__: the tests of the parameters are not combined by `&=` into the returned value')
    for n in ast.walk(f):
        if isinstance(n, (ast.BitOr, ast.Or)):
            raise Untranslatable('__contains__ combines tests with `or`')

    def leaf(e):
        if isinstance(e, ast.Name) and e.id == vname:
            return 'v'
        if isinstance(e, ast.Name) and e.id in (lo_name, hi_name) and lo_name is not None:
            return 'lo' if e.id == lo_name else 'hi'
        if (isinstance(e, ast.Subscript) and isinstance(e.value, ast.Name) and e.value.id == bname and isinstance(e.slice, ast.Constant)
                and e.slice.value in (0, 1)):
            return ('lo', 'hi')[e.slice.value]
        if isinstance(e, ast.Attribute) and isinstance(e.value, ast.Name) and e.value.id == bname and e.attr in ('lower', 'upper'):
            return 'lo' if e.attr == 'lower' else 'hi'
        raise Untranslatable('__contains__: operand %s' % ast.unparse(e))
    return cmp_, leaf


def render_cmp(cmp_, leaf, sort):
    if isinstance(cmp_, ast.BoolOp):
        return '(' + ' && '.join(render_cmp(v, leaf, sort) for v in cmp_.values) + ')'
    parts, left = [], cmp_.left
    for op, right in zip(cmp_.ops, cmp_.comparators):
        a, b = leaf(left), leaf(right)
        if isinstance(op, ast.LtE):
            parts.append('(%s <=? %s)%%Z' % (a, b) if sort == 'Z' else '(nleb %s %s)' % (a, b))
        elif isinstance(op, ast.Lt):
            parts.append('(%s <? %s)%%Z' % (a, b) if sort == 'Z' else '(nltb %s %s)' % (a, b))
        elif isinstance(op, ast.GtE):
            parts.append('(%s <=? %s)%%Z' % (b, a) if sort == 'Z' else '(nleb %s %s)' % (b, a))
        elif isinstance(op, ast.Gt):
            parts.append('(%s <? %s)%%Z' % (b, a) if sort == 'Z' else '(nltb %s %s)' % (b, a))
        else:
            raise Untranslatable('__contains__: comparison %s' % type(op).__name__)
        left = right
    return '(' + ' && '.join(parts) + ')'


# ------------------------------------------------------------------------------------------------------------------
def refuses_outside(path, cls):
    """first statement of _jump: `if <param> not in self: raise ValueError(..)` on the parameter as given"""
    f = find_func(path, cls, '_jump')
    b = strip_doc(f.body)
    param = f.args.args[1].arg
    if not b or not isinstance(b[0], ast.If):
        return False, f, b, param
    g = b[0]
    ok = (isinstance(g.test, ast.Compare) and len(g.test.ops) == 1 and isinstance(g.test.ops[0], ast.NotIn)
          and isinstance(g.test.left, ast.Name) and g.test.left.id == param and dotted(g.test.comparators[0]) == 'self'
          and not g.orelse and len(g.body) == 1 and isinstance(g.body[0], ast.Raise))
    return ok, f, b, param


def param_loop(b, cls):
    loops = [n for n in b if isinstance(n, ast.For)]
    if len(loops) != 1:
        raise Untranslatable('%s._jump does not have exactly one loop over the parameters' % cls)
    lp = loops[0]
    if not (isinstance(lp.iter, ast.Call) and dotted(lp.iter.func) == 'enumerate' and dotted(lp.iter.args[0]) == 'self.parameters'
            and isinstance(lp.target, ast.Tuple) and len(lp.target.elts) == 2):
        raise Untranslatable('%s._jump: the loop is not `for ii, p in enumerate(self.parameters)`' % cls)
    return lp, lp.target.elts[0].id, lp.target.elts[1].id


ALIASES = {}


def is_normal_draw(e, ii):
    """self.random_generator.normal(loc, self._std[ii]) -> loc expression (a local bound once to self._std[ii] is followed)"""
    if isinstance(e, ast.Call) and dotted(e.func) == 'self.random_generator.normal' and len(e.args) == 2 and not e.keywords:
        sc = e.args[1]
        if isinstance(sc, ast.Name) and sc.id in ALIASES:
            sc = ALIASES[sc.id]
        if isinstance(sc, ast.Subscript) and dotted(sc.value) == 'self._std' and dotted(sc.slice) == ii:
            return e.args[0]
    return None


def collect_aliases(lp):
    ALIASES.clear()
    count = {}
    for n in ast.walk(lp):
        if isinstance(n, ast.Assign) and len(n.targets) == 1 and isinstance(n.targets[0], ast.Name):
            count[n.targets[0].id] = count.get(n.targets[0].id, 0) + 1
            ALIASES[n.targets[0].id] = n.value
    for k in list(ALIASES):
        if count[k] != 1:
            del ALIASES[k]


def single_dict(e, p):
    if isinstance(e, ast.Dict) and len(e.keys) == 1 and dotted(e.keys[0]) == p:
        return e.values[0]
    return None


def t_bn_accept():
    ok, f, b, param = refuses_outside(BN, 'BoundedNormal')
    lp, ii, p = param_loop(b, 'BoundedNormal')
    whiles = [n for n in lp.body if isinstance(n, ast.While)]
    if len(whiles) != 1:
        raise Untranslatable('BoundedNormal._jump: expected one while loop per parameter')
    w = whiles[0]
    collect_aliases(lp)
    if isinstance(w.test, ast.Constant) and w.test.value is True and not w.orelse:
        # `while True: <pt> = {p: draw}; if <pt> in self: break`
        inner = [n for n in w.body if not (isinstance(n, ast.Expr) and isinstance(n.value, ast.Constant))]
        if not (len(inner) == 2 and isinstance(inner[0], ast.Assign) and isinstance(inner[0].targets[0], ast.Name)
                and isinstance(inner[1], ast.If) and not inner[1].orelse and len(inner[1].body) == 1 and isinstance(inner[1].body[0], ast.Break)
                and isinstance(inner[1].test, ast.Compare) and len(inner[1].test.ops) == 1 and isinstance(inner[1].test.ops[0], ast.In)
                and dotted(inner[1].test.left) == inner[0].targets[0].id and dotted(inner[1].test.comparators[0]) == 'self'):
            raise Untranslatable('BoundedNormal._jump: `while True` without the draw / `if <pt> in self: break` shape')
        pt = inner[0].targets[0].id
        v = single_dict(inner[0].value, p)
        if v is None or is_normal_draw(v, ii) is None:
            raise Untranslatable('BoundedNormal._jump: the candidate is not {p: normal(mu, std[ii])}')
        after = lp.body[lp.body.index(w) + 1:]
        if not (len(after) == 1 and isinstance(after[0], ast.Expr) and isinstance(after[0].value, ast.Call)
                and after[0].value.func.attr == 'update' and dotted(after[0].value.args[0]) == pt):
            raise Untranslatable('BoundedNormal._jump: the accepted candidate is not what is stored')
        cmp_, leaf = contains_test()
        return ok, 'Definition src_bn_accept {T : Type} `{Num T} (lo hi v : T) : bool := %s.' % render_cmp(cmp_, leaf, 'T')
    if not (isinstance(w.test, ast.Compare) and len(w.test.ops) == 1 and isinstance(w.test.ops[0], ast.NotIn)
            and isinstance(w.test.left, ast.Name) and dotted(w.test.comparators[0]) == 'self' and not w.orelse):
        raise Untranslatable('BoundedNormal._jump: the loop is not `while <pt> not in self`')
    pt = w.test.left.id
    # <pt> is {p: draw} before the loop and in its body, and is what is stored afterwards
    before = [n for n in lp.body[:lp.body.index(w)] if isinstance(n, ast.Assign) and dotted(n.targets[0]) == pt]
    inside = [n for n in w.body if not (isinstance(n, ast.Expr) and isinstance(n.value, ast.Constant))]
    if len(before) != 1 or len(inside) != 1 or not isinstance(inside[0], ast.Assign) or dotted(inside[0].targets[0]) != pt:
        raise Untranslatable('BoundedNormal._jump: the candidate point is not drawn once before and once inside the loop')
    for a in (before[0], inside[0]):
        v = single_dict(a.value, p)
        if v is None or is_normal_draw(v, ii) is None:
            raise Untranslatable('BoundedNormal._jump: the candidate is not {p: normal(mu, std[ii])}')
    after = lp.body[lp.body.index(w) + 1:]
    if not (len(after) == 1 and isinstance(after[0], ast.Expr) and isinstance(after[0].value, ast.Call)
            and after[0].value.func.attr == 'update' and dotted(after[0].value.args[0]) == pt):
        raise Untranslatable('BoundedNormal._jump: the accepted candidate is not what is stored')
    cmp_, leaf = contains_test()
    body = render_cmp(cmp_, leaf, 'T')
    return ok, 'Definition src_bn_accept {T : Type} `{Num T} (lo hi v : T) : bool := %s.' % body


def t_bd_accept():
    ok, f, b, param = refuses_outside(BD, 'BoundedDiscrete')
    lp, ii, p = param_loop(b, 'BoundedDiscrete')
    whiles = [n for n in lp.body if isinstance(n, ast.While)]
    if len(whiles) != 1:
        raise Untranslatable('BoundedDiscrete._jump: expected one while loop per parameter')
    w = whiles[0]
    if not (isinstance(w.test, ast.UnaryOp) and isinstance(w.test.op, ast.Not) and isinstance(w.test.operand, ast.Name) and not w.orelse):
        raise Untranslatable('BoundedDiscrete._jump: the loop is not `while not <flag>`')
    flag = w.test.operand.id
    collect_aliases(lp)
    init = [n for n in lp.body[:lp.body.index(w)] if isinstance(n, ast.Assign) and dotted(n.targets[0]) == flag]
    if not (len(init) == 1 and isinstance(init[0].value, ast.Constant) and init[0].value.value is False):
        raise Untranslatable('BoundedDiscrete._jump: the flag does not start False')
    env = {}            # local -> (sort, term)
    result = None

    def succ_test(e):
        return isinstance(e, ast.Subscript) and dotted(e.value) == 'self.successive' and dotted(e.slice) == p

    def zexpr(e):
        if isinstance(e, ast.Name) and e.id in env and env[e.id][0] == 'Z':
            return env[e.id][1]
        if isinstance(e, ast.Constant) and isinstance(e.value, int) and not isinstance(e.value, bool):
            return '(%d)%%Z' % e.value
        if isinstance(e, ast.Call) and dotted(e.func) == 'int' and len(e.args) == 1:
            a = e.args[0]
            if isinstance(a, ast.Subscript) and dotted(a.value) == param and dotted(a.slice) == p:
                return 'x'                           # int(fromx[p]) of the (integral) current point
            if isinstance(a, ast.Call) and dotted(a.func) in ('round', 'numpy.round') and a.args and isinstance(a.args[0], ast.Name) \
                    and env.get(a.args[0].id, ('', ''))[0] == 'T' and all(isinstance(x, ast.Constant) and x.value == 0 for x in a.args[1:]) \
                    and all(isinstance(k.value, ast.Constant) and k.value.value == 0 for k in a.keywords):
                return '(rnd_even %s)' % env[a.args[0].id][1]
            if isinstance(a, ast.Call) and dotted(a.func) == '_floorceil' and len(a.args) == 1 and isinstance(a.args[0], ast.Name) \
                    and env.get(a.args[0].id, ('', ''))[0] == 'T':
                return '(floorceil %s)' % env[a.args[0].id][1]
        if isinstance(e, ast.Subscript) and dotted(e.value) == param and dotted(e.slice) == p:
            return 'x'
        if isinstance(e, ast.BinOp) and isinstance(e.op, (ast.Add, ast.Sub)):
            return '(%s %s %s)%%Z' % (zexpr(e.left), '+' if isinstance(e.op, ast.Add) else '-', zexpr(e.right))
        if isinstance(e, ast.IfExp) and succ_test(e.test):
            return '(if succ then %s else %s)' % (zexpr(e.body), zexpr(e.orelse))
        raise Untranslatable('BoundedDiscrete._jump: integer expression %s' % ast.unparse(e)[:60])

    cmp_, leaf = contains_test()

    def bexpr(e):
        if isinstance(e, ast.BoolOp):
            op = ' && ' if isinstance(e.op, ast.And) else ' || '
            return '(' + op.join(bexpr(v) for v in e.values) + ')'
        if isinstance(e, ast.UnaryOp) and isinstance(e.op, ast.Not):
            return '(negb %s)' % bexpr(e.operand)
        if succ_test(e):
            return 'succ'
        if isinstance(e, ast.Compare) and len(e.ops) == 1:
            op, a, c = e.ops[0], e.left, e.comparators[0]
            if isinstance(op, ast.In) and dotted(c) == 'self' and isinstance(a, ast.Name) and a.id in env and env[a.id][0] == 'pt':
                return '(let v := %s in %s)' % (env[a.id][1], render_cmp(cmp_, leaf, 'Z'))
            if isinstance(op, (ast.NotEq, ast.Eq)):
                t = '(%s =? %s)%%Z' % (zexpr(a), zexpr(c))
                return t if isinstance(op, ast.Eq) else '(negb %s)' % t
        raise Untranslatable('BoundedDiscrete._jump: test %s' % ast.unparse(e)[:60])

    flag_term = None
    for s_ in w.body:
        if isinstance(s_, ast.Expr) and isinstance(s_.value, ast.Constant):
            continue
        if isinstance(s_, ast.Assign) and len(s_.targets) == 1 and isinstance(s_.targets[0], ast.Name):
            v = s_.targets[0].id
            loc = is_normal_draw(s_.value, ii)
            if loc is not None:
                if not (isinstance(loc, ast.Constant) and loc.value in (0, 0.0)) or any(k[0] == 'T' for k in env.values()):
                    raise Untranslatable('BoundedDiscrete._jump: more than one draw per pass, or a draw not centred on 0')
                env[v] = ('T', 'z')
                continue
            if v == flag:
                flag_term = bexpr(s_.value)
                continue
            d = single_dict(s_.value, p)
            if d is not None:
                env[v] = ('pt', zexpr(d))
                result = v
                continue
            env[v] = ('Z', zexpr(s_.value))
            continue
        if isinstance(s_, ast.If) and succ_test(s_.test) and len(s_.body) == 1 and len([x for x in s_.orelse if not isinstance(x, ast.Expr)]) == 1:
            a1 = s_.body[0]
            a2 = [x for x in s_.orelse if not isinstance(x, ast.Expr)][0]
            if (isinstance(a1, ast.Assign) and isinstance(a2, ast.Assign) and dotted(a1.targets[0]) == dotted(a2.targets[0])
                    and isinstance(a1.targets[0], ast.Name)):
                t1, t2 = zexpr(a1.value), zexpr(a2.value)
                env[a1.targets[0].id] = ('Z', '(if succ then %s else %s)' % (t1, t2))
                continue
        raise Untranslatable('BoundedDiscrete._jump: statement in the redraw loop: %s' % ast.unparse(s_)[:70])
    if flag_term is None or result is None:
        raise Untranslatable('BoundedDiscrete._jump: the pass does not set the flag / build a candidate')
    after = lp.body[lp.body.index(w) + 1:]
    if not (len(after) == 1 and isinstance(after[0], ast.Expr) and isinstance(after[0].value, ast.Call)
            and after[0].value.func.attr == 'update' and dotted(after[0].value.args[0]) == result):
        raise Untranslatable('BoundedDiscrete._jump: the accepted candidate is not what is stored')
    text = ('Definition src_bd_accept {T : Type} (rnd_even floorceil : T -> Z) (succ : bool) (lo hi x : Z) (z : T) : option Z :=\n'
            '  if %s then Some %s else None.' % (flag_term, env[result][1]))
    return ok, text


def generate():
    lines = ['(* GENERATED by tools/py2coq_jump.py from the current /repo sources - do not edit. *)',
             'From Coq Require Import ZArith Bool.', 'From Epsie Require Import Num.', '']
    notes = []

    def add(name, thunk):
        try:
            lines.append(thunk())
        except (Untranslatable, SyntaxError, OSError, IndexError, AttributeError) as e:
            lines.append('(* %s: NOT TRANSLATED: %s *)' % (name, str(e).replace('*)', '* )')))
            notes.append('py2coq_jump: %s not translated: %s' % (name, e))
        lines.append('')

    def contains(sort):
        cmp_, leaf = contains_test()
        if sort == 'Z':
            return 'Definition src_contains_Z (lo hi v : Z) : bool := %s.' % render_cmp(cmp_, leaf, 'Z')
        return 'Definition src_contains_T {T : Type} `{Num T} (lo hi v : T) : bool := %s.' % render_cmp(cmp_, leaf, 'T')
    add('src_contains_Z', lambda: contains('Z'))
    add('src_contains_T', lambda: contains('T'))
    flags = {}

    def bn():
        ok, text = t_bn_accept()
        flags['bn'] = ok
        return text

    def bd():
        ok, text = t_bd_accept()
        flags['bd'] = ok
        return text
    add('src_bn_accept', bn)
    add('src_bd_accept', bd)
    for k, nm in (('bn', 'src_bn_refuses_outside'), ('bd', 'src_bd_refuses_outside')):
        if k in flags:
            lines.append('Definition %s : bool := %s.' % (nm, 'true' if flags[k] else 'false'))
        else:
            lines.append('(* %s: NOT TRANSLATED: its _jump was not translated *)' % nm)
        lines.append('')
    return '\n'.join(lines), notes


if __name__ == '__main__':
    text, notes = generate()
    out = sys.argv[1] if len(sys.argv) > 1 else '-'
    if out == '-':
        sys.stdout.write(text)
    else:
        old = open(out).read() if os.path.exists(out) else None
        if old != text:
            open(out, 'w').write(text)
    for n in notes:
        print(n)
