"""Sampler configurations shared by the sampler-level checks (C05, C04, C07, C10): every proposal
family (adaptive before/during/after adaptation through short durations, slow parameters,
joint mixes, transdimensional), MH and PT, blobs, swap intervals, fixed or annealed ladders."""
import numpy

from epsie import proposals as P
from epsie.chain.ptchain import DynamicalAnnealer
from epsie.samplers import MetropolisHastingsSampler, ParallelTemperedSampler

from .adapt import FAMILIES
from .models import GaussModel, TDModel

BND2 = {'a': (-3.0, 5.0), 'b': (0.0, 1.0)}
NONADAPTIVE = {
    'normal': lambda T, k, s: P.Normal(['a', 'b'], cov=[1., .25], jump_interval=k, jump_interval_duration=T),
    'bounded_normal': lambda T, k, s: P.BoundedNormal(['a', 'b'], BND2, cov=[1., .04], jump_interval=k, jump_interval_duration=T),
    'angular': lambda T, k, s: P.Angular(['a', 'b'], cov=[.5, .1], jump_interval=k, jump_interval_duration=T),
    'discrete': lambda T, k, s: P.NormalDiscrete(['a', 'b'], cov=[4., 1.], jump_interval=k, jump_interval_duration=T),
    'bounded_discrete': lambda T, k, s: P.BoundedDiscrete(['a', 'b'], {'a': (-3, 5), 'b': (0, 20)}, cov=[4., 1.],
                                                          jump_interval=k, jump_interval_duration=T),
    'eigenvector': lambda T, k, s: P.Eigenvector(['a', 'b'], jump_interval=k, jump_interval_duration=T),
    'bounded_eigenvector': lambda T, k, s: P.BoundedEigenvector(['a', 'b'], BND2, jump_interval=k, jump_interval_duration=T),
    'isotropic_solid_angle': lambda T, k, s: P.IsotropicSolidAngle('a', 'b', jump_interval=k, jump_interval_duration=T),
}
WIDE_BOX = {'a': (-3.0, 5.0), 'b': (0.0, 0.01)}
# a proposal far wider than one of its bounds (std / width = 100): hundreds of rejected draws per jump
NONADAPTIVE['wide_normal_in_narrow_box'] = lambda T, k, s: P.BoundedNormal(['a', 'b'], WIDE_BOX, jump_interval=k, jump_interval_duration=T)
EXTRA = {
    'at_adaptive_normal_componentwise':
        lambda T, k, start: P.ATAdaptiveNormal(['a', 'b'], adaptation_duration=T, componentwise=True, start_step=start, jump_interval=k),
    'at_adaptive_normal_componentwise_diag':
        lambda T, k, start: P.ATAdaptiveNormal(['a', 'b'], adaptation_duration=T, componentwise=True, diagonal=True, start_step=start,
                                               jump_interval=k),
}
ALL = {}
ALL.update(NONADAPTIVE)
ALL.update({n: f for n, (_, f) in FAMILIES.items()})
ALL.update(EXTRA)
DISCRETE = {n for n in ALL if 'discrete' in n}
SPEC = {}          # family name -> entry of coq/theories/PropState.v
for n in NONADAPTIVE:
    SPEC[n] = 'eigenvector' if 'eigenvector' in n else 'normal'
for n, (kind, _) in FAMILIES.items():
    SPEC[n] = {'veitch': 'veitch', 'ss': 'ss_diag', 'ss_cov': 'ss_full', 'at': 'at_diag', 'at_full': 'at_full', 'eig': 'adaptive_eigenvector',
               'kappa': 'adaptive_solid_angle'}[kind]
SPEC['at_adaptive_normal_componentwise'] = 'at_full'
SPEC['at_adaptive_normal_componentwise_diag'] = 'at_diag'


def joint_mix(rng):
    """2-3 constituents over disjoint parameters a | b | c, some of them slow."""
    T = rng.choice([5, 9, 30])
    k1, k2 = rng.choice([1, 2, 3]), rng.choice([1, 2, 4])
    first = rng.choice([
        lambda: P.AdaptiveBoundedNormal(['a'], {'a': (-3., 5.)}, adaptation_duration=T, jump_interval=k1),
        lambda: P.SSAdaptiveNormal(['a'], jump_interval=k1, jump_interval_duration=T),
        lambda: P.ATAdaptiveNormal(['a'], adaptation_duration=T, diagonal=True, jump_interval=k1),
        lambda: P.BoundedNormal(['a'], {'a': (-3., 5.)}, cov=[1.0], jump_interval=k1, jump_interval_duration=T),
    ])()
    second = rng.choice([
        lambda: P.Normal(['b', 'c'], cov=[0.5, 0.2], jump_interval=k2, jump_interval_duration=T + 3),
        lambda: P.AdaptiveEigenvector(['b', 'c'], adaptation_duration=T, jump_interval=k2),
        lambda: P.ATAdaptiveNormal(['b', 'c'], adaptation_duration=T + 2, jump_interval=k2),
        lambda: P.Angular(['b', 'c'], cov=[0.4, 0.4], jump_interval=k2, jump_interval_duration=T),
    ])()
    return [first, second], dict(T=T, k1=k1, k2=k2, first=first.name, second=second.name)


def td_proposal(cfg):
    n = cfg['td_n']
    comps = ['a%d' % i for i in range(1, n + 1)]
    fam = cfg['td_family']
    T = cfg['T']
    kk = cfg.get('td_k', 1)                  # the in-model proposals may be slow ones (jump interval > 1) like any other
    slow = dict(jump_interval=kk, jump_interval_duration=T) if kk > 1 else {}
    aslow = dict(jump_interval=kk) if kk > 1 else {}
    if fam == 'normal':
        tds = [P.Normal([c], cov=[0.5], **slow) for c in comps]
    elif fam == 'adaptive_normal':
        tds = [P.AdaptiveNormal([c], {c: 4.}, adaptation_duration=T, **aslow) for c in comps]
    elif fam == 'ss_adaptive_normal':
        tds = [P.SSAdaptiveNormal([c], **slow) for c in comps]
    elif fam == 'bounded_normal':            # not symmetric: the in-model Hastings factor matters
        tds = [P.BoundedNormal([c], {c: (0., 4.)}, cov=[1.5], **slow) for c in comps]
    else:
        tds = [P.ATAdaptiveNormal([c], adaptation_duration=T, **aslow) for c in comps]
    shared = cfg.get('mixseed', 0) % 2 == 1        # one dictionary naming every component, handed to each component's birth
    if cfg['birth'] == 'uniform':
        lo_b, hi_b = cfg.get('birth_bounds', (0., 4.))       # may be narrower than the prior support (0, 4)
        every = {c: (lo_b, hi_b) for c in comps}
        births = [P.UniformBirth([c], every if shared else {c: (lo_b, hi_b)}) for c in comps]
    elif cfg['birth'] == 'normal':
        mus, sds = {c: 1.0 for c in comps}, {c: 1.0 for c in comps}
        births = [P.NormalBirth([c], mus if shared else {c: 1.0}, sds if shared else {c: 1.0}) for c in comps]
    else:
        mus, sds = {c: 0.3 for c in comps}, {c: 0.6 for c in comps}
        births = [P.LogNormalBirth([c], mus if shared else {c: 0.3}, sds if shared else {c: 0.6}) for c in comps]
    # index bounds may be given as non-integers: "the floor (ceil) of the lower (upper) bound will be used" - the same range 0..n
    kb = (0.5, n - 0.5) if cfg.get('k_bounds_frac') else (0, n)
    mp = P.BoundedDiscrete(['k'], boundaries={'k': kb}, successive={'k': cfg['successive']})
    return P.NestedTransdimensional(comps + ['k'], mp, tds, births)


def gen(rng, kind=None, allow_annealer=True):
    kind = kind or rng.choice(['family', 'family', 'family', 'joint', 'td'])
    pt = rng.random() < 0.5
    nt = rng.choice([1, 2, 2, 3, 3, 4]) if pt else 1
    cfg = dict(kind=kind, pt=pt, ntemps=nt, nchains=rng.choice([1, 2]), si=rng.choice([1, 2, 3]) if pt else 1,
               blobs=rng.random() < 0.35, sigma=rng.choice([0.5, 1.0, 2.5]), seed=rng.randrange(1, 10 ** 6),
               T=rng.choice([4, 8, 15, 40]), k=rng.choice([1, 1, 2, 3]), start=rng.choice([1, 1, 2, 5]),
               annealer=None, mixseed=rng.randrange(10 ** 6), preused=rng.random() < 0.3)
    if pt:
        cfg['ras'] = nt > 1 and rng.random() < 0.25          # reset_after_swap: exchanged levels restart their adaptation
        cfg['betas'] = [round(b, 4) for b in numpy.geomspace(1.0, rng.choice([0.02, 0.1]), nt)] if nt > 1 else [1.0]
        if allow_annealer and nt >= 3 and rng.random() < 0.35:
            cfg['annealer'] = dict(tau=rng.choice([20, 50, 1000]), nu=rng.choice([1, 2, 10]), tmax=rng.random() < 0.6)
    if kind == 'family':
        cfg['family'] = rng.choice(sorted(ALL))
    elif kind == 'td':
        cfg.update(td_n=rng.choice([2, 3, 4]), td_family=rng.choice(['normal', 'adaptive_normal', 'ss_adaptive_normal', 'at_adaptive_normal', 'bounded_normal']),
                   birth=rng.choice(['uniform', 'normal', 'lognormal']), successive=rng.random() < 0.5,
                   birth_bounds=rng.choice([(0., 4.), (0., 4.), (1., 3.), (0.5, 2.0)]))
        cfg['k_bounds_frac'] = cfg['mixseed'] % 3 == 0          # (no extra draw: the random stream of the other fields is unchanged)
        cfg['td_k'] = 2 if cfg['mixseed'] % 4 == 1 else 1       # in-model proposals with a jump interval
    return cfg


def params_of(cfg):
    if cfg['kind'] == 'family':
        return ['a', 'b']
    if cfg['kind'] in ('joint', 'default', 'partial'):
        return ['a', 'b', 'c']
    return ['a%d' % i for i in range(1, cfg['td_n'] + 1)] + ['k']


def make_model(cfg, log=False):
    if cfg['kind'] == 'td':
        return TDModel(cfg['td_n'], sigma=cfg['sigma'], blobs=cfg['blobs'], log=log)
    return GaussModel(params_of(cfg), sigma=cfg['sigma'], mu=0.5, lo=-30., hi=30., blobs=cfg['blobs'], log=log)


def make_proposals(cfg):
    import random
    if cfg['kind'] == 'family':
        return [ALL[cfg['family']](cfg['T'], cfg['k'], cfg['start'])]
    if cfg['kind'] == 'joint':
        props, _ = joint_mix(random.Random(cfg['mixseed']))
        return props
    if cfg['kind'] == 'default':
        return None                      # the sampler builds its default proposal for all parameters
    if cfg['kind'] == 'partial':
        return [P.Normal(['b'], cov=[0.3])]          # default proposal for the unlisted parameters a, c
    return [td_proposal(cfg)]


def _touch(obj):
    """draw once from an object's own (entropy-seeded) generator, as a user trying a proposal out would"""
    try:
        obj.random_generator.random()
    except Exception:      # noqa
        pass


def preuse(props):
    for p in props or []:
        _touch(p)
        for sub in getattr(p, '_proposals', []) if getattr(p, 'transdimensional', False) else []:
            _touch(sub)
            if getattr(sub, 'birth_distribution', None) is not None:
                _touch(sub.birth_distribution)
        if getattr(p, '_model_proposal', None) is not None:
            _touch(p._model_proposal)


def build(cfg, seed=None, model=None, pool=None, annealer_obj=None, **kw):
    model = model if model is not None else make_model(cfg)
    seed = cfg['seed'] if seed is None else seed
    props = make_proposals(cfg)
    if cfg.get('preused'):
        preuse(props)          # proposal instances that already drew numbers before the sampler got them
    if cfg['pt']:
        ann = annealer_obj
        if ann is None and cfg.get('annealer'):
            a = cfg['annealer']
            ann = DynamicalAnnealer(tau=a['tau'], nu=a['nu'], Tmax_prior=a['tmax'])
        return ParallelTemperedSampler(params_of(cfg), model, cfg['nchains'], betas=numpy.array(cfg['betas']),
                                       swap_interval=cfg['si'], proposals=props, adaptive_annealer=ann, seed=seed, pool=pool,
                                       **dict(dict(reset_after_swap=bool(cfg.get('ras', False))), **kw))
    return MetropolisHastingsSampler(params_of(cfg), model, cfg['nchains'], proposals=props, seed=seed, pool=pool, **kw)


def start_position(cfg, rng=None):
    import random
    rng = rng or random.Random(cfg['mixseed'] + 1)
    shape = (cfg['ntemps'], cfg['nchains']) if cfg['pt'] else (cfg['nchains'],)
    n = int(numpy.prod(shape))
    if cfg['kind'] == 'td':
        N = cfg['td_n']
        out = {'a%d' % i: numpy.full(n, numpy.nan) for i in range(1, N + 1)}
        ks = numpy.zeros(n, dtype=int)
        for j in range(n):
            act = [i for i in range(1, N + 1) if rng.random() < 0.5]
            for i in act:
                out['a%d' % i][j] = round(rng.uniform(0.2, 3.8), 3)
            ks[j] = len(act)
        out = {p: v.reshape(shape) for p, v in out.items()}
        out['k'] = ks.reshape(shape)
        return out
    if cfg['kind'] == 'family' and cfg['family'] in DISCRETE:
        return {'a': numpy.array([rng.choice([0, 1, 2]) for _ in range(n)], dtype=int).reshape(shape),
                'b': numpy.array([rng.choice([1, 2, 5]) for _ in range(n)], dtype=int).reshape(shape)}
    out = {'a': numpy.array([round(rng.uniform(0.5, 1.5), 3) for _ in range(n)]).reshape(shape),
           'b': numpy.array([round(rng.uniform(0.3, 0.7), 3) for _ in range(n)]).reshape(shape)}
    if cfg['kind'] == 'family' and cfg['family'] == 'wide_normal_in_narrow_box':
        out['b'] = out['b'] * 0.01
    if cfg['kind'] in ('joint', 'default', 'partial'):
        out['c'] = numpy.array([round(rng.uniform(0.3, 2.0), 3) for _ in range(n)]).reshape(shape)
    return out
