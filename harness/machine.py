"""Machine-level correspondence: run real samplers under the tracer, build the
operation/observation sequences for the Coq machine (coq/theories/Machine.v),
and provide direct oracles on the same traces.  Shared by C06, C08, C09, C18."""
import copy
import pickle
import random

import numpy

import epsie
from epsie import proposals as P
from epsie.samplers import MetropolisHastingsSampler, ParallelTemperedSampler

from . import core
from .models import GaussModel
from .trace import Tracer, Interner, lvl_state

HEADER = ('From Coq Require Import ZArith.\nFrom Epsie Require Import Base Machine Exec.ExecMachine.\n'
          'Local Open Scope Z_scope.\nNotation case := mcase.')


# ---------------------------------------------------------------------------
# configurations
def make_proposals(kind, params, rng):
    if kind == 'default':
        return None
    if kind == 'normal':
        return [P.Normal(params, cov=[rng.choice([0.5, 1.0, 2.0]) for _ in params])]
    if kind == 'adaptive':
        return [P.AdaptiveNormal(params, {p: 40. for p in params}, adaptation_duration=rng.choice([5, 20]))]
    if kind == 'ss':
        return [P.SSAdaptiveNormal(params)]
    if kind == 'at':
        return [P.ATAdaptiveNormal(params, adaptation_duration=rng.choice([6, 30]), diagonal=rng.random() < .5)]
    if kind == 'solid':
        # right ascension / declination in degrees: the proposal converts units on the way in and out
        props = [P.IsotropicSolidAngle(params[0], params[1], kappa=40., radec=True, degs=True)]
        if len(params) > 2:
            props.append(P.Normal(params[2:], cov=[1.0] * (len(params) - 2)))
        return props
    if kind == 'bounded':
        return [P.BoundedNormal(params, {p: (-20., 20.) for p in params}, cov=[1.5 for _ in params])]
    if kind == 'cw':
        return [P.ATAdaptiveNormal(params, adaptation_duration=rng.choice([6, 30]), componentwise=True)]
    if kind == 'mixed':
        props = [P.AdaptiveBoundedNormal([params[0]], {params[0]: (-20., 20.)}, adaptation_duration=8)]
        if len(params) > 1:
            props.append(P.Normal(params[1:], cov=[1.0] * (len(params) - 1), jump_interval=2, jump_interval_duration=7))
        return props
    if kind == 'allslow':
        # every parameter is slow: between jumps the proposed point IS the current point
        return [P.Normal(params, cov=[1.0] * len(params), jump_interval=rng.choice([2, 3]), jump_interval_duration=rng.choice([5, 9]))]
    if kind == 'allslow2':
        props = [P.Normal([params[0]], jump_interval=2, jump_interval_duration=8)]
        if len(params) > 1:
            props.append(P.AdaptiveNormal(params[1:], {p: 40. for p in params[1:]}, adaptation_duration=8, jump_interval=4))
        return props
    if kind == 'td':
        from . import configs
        n = len(params) - 1
        return [configs.td_proposal(dict(td_n=n, td_family=rng.choice(['normal', 'adaptive_normal', 'ss_adaptive_normal', 'at_adaptive_normal']),
                                         birth=rng.choice(['uniform', 'normal', 'lognormal']), successive=rng.random() < 0.5, T=8))]
    raise ValueError(kind)


class Config:
    def __init__(self, rng, pt=None, thorough=False, td=None):
        self.pt = rng.random() < 0.65 if pt is None else pt
        self.nparams = rng.choice([1, 2, 2, 3])
        self.params = ['p%d' % i for i in range(self.nparams)]
        self.blobs = rng.random() < 0.5
        self.nchains = rng.choice([1, 1, 2])
        self.ntemps = rng.choice([1, 2, 3, 3, 4, 5, 2, 3]) if self.pt else 1
        self.si = rng.choice([1, 1, 2, 3, 4]) if self.pt else 1
        self.betas = sorted([1.0] + [round(rng.uniform(0.01, 0.95), 3) for _ in range(self.ntemps - 2)] +
                            ([rng.choice([0.0, 0.05])] if self.ntemps > 1 else []), reverse=True)
        self.prop_kind = rng.choice(['default', 'normal', 'adaptive', 'ss', 'at', 'bounded', 'mixed', 'allslow', 'allslow2'])
        self.sigma = rng.choice([0.5, 1.0, 3.0])
        self.seed = rng.randrange(1, 10 ** 6)
        self.box = rng.choice([20.0, 20.0, 2.5])      # small box: proposals leave the prior support -> forced rejects
        if self.prop_kind in ('bounded', 'mixed', 'adaptive', 'allslow2'):
            self.box = 20.0
        self.comps = []
        self.annealer = bool(self.pt and self.ntemps >= 3 and rng.random() < 0.25)
        self.ras = bool(self.pt and self.ntemps >= 2 and self.seed % 4 == 0)      # reset_after_swap (no extra draw from rng)
        if (rng.random() < 0.15 and td is None) or td:
            self.prop_kind = 'td'
            n = rng.choice([2, 3, 4])
            self.nparams = n + 1
            self.params = ['a%d' % i for i in range(1, n + 1)] + ['k']
            self.comps = [[i] for i in range(n)]
            self.box = 20.0

        if self.prop_kind != 'td' and self.nparams >= 2 and self.seed % 5 == 0:
            self.prop_kind = 'solid'          # (no extra draw from rng)
            self.box = 20.0

    def describe(self):
        return dict(pt=self.pt, nparams=self.nparams, blobs=self.blobs, nchains=self.nchains, ntemps=self.ntemps,
                    swap_interval=self.si, betas=self.betas, proposals=self.prop_kind, box=self.box, seed=self.seed,
                    annealer=getattr(self, 'annealer', False), reset_after_swap=getattr(self, 'ras', False),
                    public_reads_before_every_operation=(self.seed % 2 == 0),
                    placeholder_start_before_a_resume_into_a_fresh_sampler=(self.seed % 3 == 0),
                    model_reuses_its_blob_dictionary=bool(self.blobs and self.seed % 3 == 1 and self.prop_kind != 'td'))

    def build(self, tracer, seed=None):
        if self.prop_kind == 'td':
            from .models import TDModel
            model = TDModel(len(self.params) - 1, sigma=self.sigma, blobs=self.blobs, log=False)
        else:
            model = GaussModel(self.params, sigma=self.sigma, lo=-self.box, hi=self.box, blobs=self.blobs, log=False)
            model.reuse_blob = self.blobs and self.seed % 3 == 1
        model = tracer.wrap_model(model) if tracer is not None else model
        rng = random.Random(self.seed)
        props = make_proposals(self.prop_kind, self.params, rng)
        seed = self.seed if seed is None else seed
        if self.pt:
            ann = None
            if getattr(self, 'annealer', False):
                from epsie.chain.ptchain import DynamicalAnnealer
                ann = DynamicalAnnealer(tau=20, nu=2, Tmax_prior=(self.betas[-1] == 0.0))
            s = ParallelTemperedSampler(self.params, model, self.nchains, betas=numpy.array(self.betas),
                                        swap_interval=self.si, proposals=props, adaptive_annealer=ann, seed=seed,
                                        reset_after_swap=getattr(self, 'ras', False))
        else:
            s = MetropolisHastingsSampler(self.params, model, self.nchains, proposals=props, seed=seed)
        return s

    def start(self, rng):
        shape = (self.ntemps, self.nchains) if self.pt else (self.nchains,)
        if self.prop_kind == 'td':
            n = len(self.params) - 1
            tot = int(numpy.prod(shape))
            out = {p: numpy.full(tot, numpy.nan) for p in self.params[:-1]}
            ks = numpy.zeros(tot, dtype=int)
            for j in range(tot):
                for p in self.params[:-1]:
                    if rng.random() < 0.5:
                        out[p][j] = round(rng.uniform(0.2, 3.8), 3)
                        ks[j] += 1
            out = {p: v.reshape(shape) for p, v in out.items()}
            out['k'] = ks.reshape(shape)
            return out
        lim = min(self.box, 3.0) * 0.9
        return {p: numpy.array([rng.uniform(-lim, lim) for _ in range(int(numpy.prod(shape)))]).reshape(shape)
                for p in self.params}


def gen_state_ops(rng, thorough):
    """schedules around set_state: into the running sampler (rewind) and into fresh ones, with runs before and after"""
    ops = [('start',), ('run', rng.choice([2, 3, 4, 6]))]
    nst = 0
    for _ in range(rng.randrange(2, 5 if not thorough else 8)):
        r = rng.random()
        if r < 0.35 or nst == 0:
            ops.append(('getstate',))
            nst += 1
        elif r < 0.7:
            ops.append(('setstate', rng.randrange(nst)))          # load into the sampler that is running
        elif r < 0.85:
            ops.append(('fresh', rng.randrange(nst)))
        else:
            ops.append(('clear',))
        ops.append(('run', rng.choice([1, 2, 3, 4, 5])))
    return ops


def gen_ops(rng, thorough, allow_setstate=True):
    if allow_setstate and rng.random() < 0.3:
        return gen_state_ops(rng, thorough)
    """Operation schedule: ('start',) ('run', n) ('clear',) ('getstate',) ('setstate', k) ('fresh', k)."""
    ops = [('start',)]
    total = 0
    nops = rng.randrange(2, 7 if not thorough else 10)
    have_state = 0
    for _ in range(nops):
        r = rng.random()
        if r < 0.55 or total == 0:
            n = rng.choice([0, 1, 1, 2, 3, 4, 5, 7])
            ops.append(('run', n))
            total += n
        elif r < 0.8:
            ops.append(('clear',))
        elif r < 0.9 and allow_setstate:
            ops.append(('getstate',))
            have_state += 1
        elif have_state and allow_setstate:
            ops.append((rng.choice(['setstate', 'fresh', 'fresh']), rng.randrange(have_state)))
        else:
            ops.append(('run', rng.choice([1, 2, 3])))
    if rng.random() < 0.6:
        ops.append(('run', rng.choice([1, 2, 3, 6])))
    return ops


# ---------------------------------------------------------------------------
# observation (mirrors ExecMachine.obs_pt)
def encZ(xs):
    return [len(xs)] + list(xs)


def enc_opt(x, f):
    return [0] if x is None else [1] + f(x)


def enc_list(xs, f):
    out = [len(xs)]
    for x in xs:
        out += f(x)
    return out


class Observer:
    def __init__(self, cfg, tracer, intern):
        self.cfg = cfg
        self.tracer = tracer
        self.I = intern

    def pos(self, d):
        return [self.I(d[p]) for p in self.cfg.params]

    def blob(self, b):
        return [self.I(b[k]) for k in sorted(b.keys())] if not isinstance(b, numpy.void) else [self.I(b[k]) for k in sorted(b.dtype.names)]

    def ncalls(self, c):
        n = sum(len([m for m in r['model'] if m[0] == 'start']) for r in self.tracer.starts.get(id(c), []))
        n += sum(len([m for m in r['model'] if m[0] == 'main']) for r in self.tracer.steps.get(id(c), []))
        return n

    def level(self, c):
        n = len(c)
        hb = bool(c.hasblobs)
        out = [c.iteration, c.lastclear, n, int(hb)]

        def view(arr):
            if n == 0 or arr is None or arr.data is None:
                return None
            return arr.data[:n]
        pv, sv, av = view(c._positions), view(c._stats), view(c._acceptance)
        bv = view(c._blobs) if hb else None
        out += enc_list([] if pv is None else list(pv), lambda r: [1] + encZ([self.I(r[p]) for p in self.cfg.params]))
        out += enc_list([] if sv is None else list(sv), lambda r: [1, self.I(r['logl']), self.I(r['logp'])])
        out += enc_list([] if av is None else list(av), lambda r: [1, self.I(r['acceptance_ratio']), int(bool(r['accepted']))])
        if hb:
            out += enc_list([] if bv is None else list(bv), lambda r: [1] + encZ(self.blob(r)))
        else:
            out += [0]
        # current_*
        try:
            cp = dict(c.current_position)
            cs = c.current_stats
            cb = c.current_blob
        except ValueError:
            cp = cs = cb = None
        out += enc_opt(cp, lambda d: encZ(self.pos(d)))
        out += enc_opt(cs, lambda d: [self.I(d['logl']), self.I(d['logp'])])
        out += enc_opt(cb, lambda d: encZ(self.blob(d)))
        pp = c._proposed_position
        out += enc_opt(pp, lambda d: encZ(self.pos(d)))
        act = [int(bool(x)) for x in c._active_props] if getattr(c, 'transdimensional', False) and hasattr(c, '_active_props') else []
        out += encZ(act)
        out += [self.ncalls(c)]
        items = []
        for i in range(-n, n):
            try:
                it = c[i]
                e = [1] + encZ([self.I(it['positions'][p]) for p in self.cfg.params])
                e += [1, self.I(it['stats']['logl']), self.I(it['stats']['logp'])]
                e += [1, self.I(it['acceptance']['acceptance_ratio']), int(bool(it['acceptance']['accepted']))]
                e += ([1] + encZ(self.blob(it['blobs']))) if hb else [0]
            except Exception:
                e = [-1]
            items.append(e)
        out += enc_list(items, lambda e: e)
        return out

    def chain(self, ch):
        levels = ch.chains if self.cfg.pt else [ch]
        out = enc_list(levels, self.level)
        if self.cfg.pt and ch.ntemps > 1:
            try:
                ts = ch.temperature_swaps.T
                ta = ch.temperature_acceptance.T
                out += enc_list(list(ts), lambda r: [1] + encZ([int(x) for x in r]))
                out += enc_list(list(ta), lambda r: [1] + encZ([self.I(x) for x in numpy.atleast_1d(r)]))
            except (ValueError, IndexError) as e:
                out += [-7]      # view raises: the model has no such outcome
        else:
            out += [0, 0]
        return out


# ---------------------------------------------------------------------------
def zlist(xs):
    return '[' + '; '.join(str(int(x)) for x in xs) + ']'


def blist(xs):
    return '[' + '; '.join('true' if x else 'false' for x in xs) + ']'


PEEKED = ('hasblobs', 'transdimensional', 'iteration', 'niterations', 'ntemps', 'betas', 'parameters', 'swap_interval',
          'current_blob', 'current_position', 'current_stats', 'start_position', 'blob0', 'stats0')


def peek(sampler):
    """A driver may look at any public read-only attribute at any time, also before the start positions are set: in the
    machine a read is no operation at all.  Reads that are not legal yet raise and are ignored."""
    for ch in sampler.chains:
        for obj in [ch] + list(getattr(ch, 'chains', [])):
            for a in PEEKED:
                try:
                    getattr(obj, a)
                except Exception:      # noqa
                    pass
            try:
                len(obj)
            except Exception:      # noqa
                pass


class CaseBuilder:
    """Executes an op schedule on a real sampler and emits one Coq case per chain."""

    def __init__(self, cfg, schedule, start_rng_seed, probe=None):
        self.probe = probe        # callback(phase, op, sampler, tracer) with phase in 'before'/'after'
        self.cfg = cfg
        self.schedule = schedule
        self.rs_seed = start_rng_seed
        self.rs = random.Random(start_rng_seed)
        self.I = Interner()
        self.keep_alive = []
        self.events = []       # per op: dict(kind, n, obs=[per chain], raised=bool)
        self.anomalies = []

    def mout(self, r):
        if len(r) == 3:
            logl, logp, b = r
            return '(%d, %d, Some %s)' % (self.I(logl), self.I(logp), zlist([self.I(b[k]) for k in sorted(b)]))
        logl, logp = r
        return '(%d, %d, None)' % (self.I(logl), self.I(logp))

    def sin(self, rec):
        pp = rec['proposed']
        prop = zlist([self.I(pp[p]) for p in self.cfg.params])
        state = blist([bool(x) for x in pp['_state']]) if '_state' in pp else '[]'
        main = [m for m in rec['model'] if m[0] == 'main']
        out = self.mout(main[0][2])
        decs = [d for d in rec['dec'] if d[0] == 'main']
        dec = 'None' if not decs else '(Some (%s, %d))' % ('true' if decs[0][1] else 'false', self.I(decs[0][2]))
        return 'SI %s %s %s %s' % (prop, state, out, dec)

    def cstate(self, st):
        def o(x, f):
            return 'None' if x is None else '(Some %s)' % f(x)
        return 'CS %d %s %s %s %s %s' % (
            st['iteration'],
            o(st['current_position'], lambda d: zlist([self.I(d[p]) for p in self.cfg.params])),
            o(st['proposed_position'], lambda d: zlist([self.I(d[p]) for p in self.cfg.params])),
            o(st['current_stats'], lambda d: '(%d, %d)' % (self.I(d['logl']), self.I(d['logp']))),
            'true' if st['hasblobs'] else 'false',
            o(st['current_blob'], lambda d: zlist([self.I(d[k]) for k in sorted(d)])))

    def run(self):
        cfg = self.cfg
        tracer = Tracer()
        with tracer:
            sampler = cfg.build(tracer)
            obsr = Observer(cfg, tracer, self.I)
            nch = cfg.nchains
            used_steps = [dict() for _ in range(nch)]      # per chain: id(level) -> consumed count
            used_sweeps = [0] * nch
            used_starts = [dict() for _ in range(nch)]
            terms = [[] for _ in range(nch)]               # per chain: list of (op term, obs)
            segments = [[] for _ in range(nch)]            # per chain: finished cases (a 'fresh' resume starts a new one)
            saved = []
            raised = False
            self.final_sampler = sampler
            def start_term(ci, levels):
                ss = []
                for lv in levels:
                    recs = tracer.starts.get(id(lv), [])
                    k = used_starts[ci].get(id(lv), 0)
                    rec = recs[k]
                    used_starts[ci][id(lv)] = k + 1
                    ss.append('(%s, %s)' % (zlist([self.I(rec['position'][p]) for p in cfg.params]),
                                            self.mout(rec['model'][0][2])))
                return 'Start [%s]' % '; '.join(ss)

            for op in self.schedule:
                kind = op[0]
                if cfg.seed % 2 == 0:
                    peek(sampler)
                if self.probe is not None:
                    self.probe('before', op, sampler, tracer)
                if kind == 'getstate':
                    saved.append(pickle.loads(pickle.dumps(sampler.state)))
                    continue
                try:
                    if kind == 'start':
                        sampler.start_position = cfg.start(self.rs)
                    elif kind == 'run':
                        sampler.run(op[1])
                    elif kind == 'clear':
                        sampler.clear()
                    elif kind == 'setstate':
                        sampler.set_state(copy.deepcopy(saved[op[1]]))
                    elif kind == 'fresh':
                        # resume into a freshly constructed sampler (other seed, no start position)
                        for ci in range(nch):
                            segments[ci].append(terms[ci])
                            terms[ci] = []
                        self.keep_alive.append(sampler)      # object ids key the tracer's logs: never let them be reused
                        sampler = cfg.build(tracer, seed=cfg.seed + 7919)
                        self.final_sampler = sampler
                        used_sweeps = [0] * nch
                        if cfg.seed % 3 == 0:
                            # 'build, set some start, resume if a checkpoint exists': the placeholder does not matter once a state
                            # is loaded, whatever its dtype (integer zeros for the float parameters of a fixed-dimension model)
                            if cfg.prop_kind == 'td':
                                sampler.start_position = cfg.start(random.Random(cfg.seed + 1))
                            else:
                                shp = (cfg.ntemps, cfg.nchains) if cfg.pt else (cfg.nchains,)
                                sampler.start_position = {p: numpy.zeros(shp, dtype=int) for p in cfg.params}
                            # in the machine: a start on the fresh sampler, then the load
                            for ci, ch in enumerate(sampler.chains):
                                terms[ci].append((start_term(ci, ch.chains if cfg.pt else [ch]), obsr.chain(ch)))
                        sampler.set_state(copy.deepcopy(saved[op[1]]))
                    err = None
                except Exception as e:      # noqa
                    err = e
                for ci, ch in enumerate(sampler.chains):
                    levels = ch.chains if cfg.pt else [ch]
                    if kind == 'start':
                        term = start_term(ci, levels)
                    elif kind == 'run':
                        steps = []
                        for j in range(op[1]):
                            ins = []
                            ok = True
                            it_after = None
                            for lv in levels:
                                recs = tracer.steps.get(id(lv), [])
                                k = used_steps[ci].get(id(lv), 0)
                                if k >= len(recs) or not [m for m in recs[k]['model'] if m[0] == 'main']:
                                    if k < len(recs):
                                        self.anomalies.append('iteration %d made no model evaluation at its proposed point' % recs[k].get('iteration_after', -1))
                                    ok = False
                                    break
                                ins.append(self.sin(recs[k]))
                                if it_after is None:
                                    it_after = recs[k]['iteration_after']
                                used_steps[ci][id(lv)] = k + 1
                            if not ok:
                                break
                            sw = '[]'
                            if cfg.pt:
                                sws = tracer.sweeps.get(id(ch), [])
                                if used_sweeps[ci] < len(sws) and sws[used_sweeps[ci]]['iteration'] == it_after:
                                    rec = sws[used_sweeps[ci]]
                                    used_sweeps[ci] += 1
                                    n = len(levels)
                                    idx = [int(x) for x in rec['swap_index']]
                                    pairs = []
                                    for tk in range(n - 1, 0, -1):
                                        pairs.append('(%d, %s)' % (self.I(rec['ars'][tk - 1]), 'true' if idx[tk] == tk - 1 else 'false'))
                                    sw = '[%s]' % '; '.join(pairs)
                            steps.append('([%s], %s)' % ('; '.join(ins), sw))
                        term = 'Run [%s]' % '; '.join(steps)
                    elif kind == 'clear':
                        term = 'Clr'
                    elif kind in ('setstate', 'fresh'):
                        st = saved[op[1]][ci]
                        sts = [st[t] for t in range(len(levels))] if cfg.pt else [st]
                        term = 'SetSt [%s]' % '; '.join(self.cstate(s) for s in sts)
                    obs = [-9] if err is not None else obsr.chain(ch)
                    terms[ci].append((term, obs))
                self.events.append(dict(op=op, raised=repr(err) if err is not None else None))
                if self.probe is not None and err is None:
                    self.probe('after', op, sampler, tracer)
                if err is not None:
                    raised = True
                    break
        self.tracer = tracer
        self.sampler = sampler
        comps = '[' + '; '.join('[' + '; '.join(str(i) for i in c) + ']' for c in cfg.comps) + ']'
        out = []
        for ci in range(nch):
            for seg in segments[ci] + [terms[ci]]:
                if not seg:
                    continue
                body = '; '.join('(%s, %s)' % (t, zlist(o)) for t, o in seg)
                out.append('(%s%%nat, (%d%%nat, %d%%nat, [%s]))' % (comps, cfg.ntemps, cfg.si, body))
        return out
