"""./check <Cxx> [--tier quick|thorough] [--replay file]"""
import argparse
import importlib
import json
import os
import sys
import time
import traceback

from . import core

import warnings
warnings.filterwarnings('ignore')
import logging
logging.disable(logging.WARNING)


def main():
    ap = argparse.ArgumentParser()
    ap.add_argument('pid')
    ap.add_argument('--tier', default=os.environ.get('VERIF_TIER', 'quick'), choices=['quick', 'thorough'])
    ap.add_argument('--replay', default=None)
    a = ap.parse_args()
    pid = a.pid.upper()
    seed = int(os.environ.get('VERIF_SEED', '0') or 0)
    t0 = time.time()
    mod = importlib.import_module('harness.props.' + pid.lower())
    if a.replay:
        payload = json.load(open(a.replay))
        return mod.replay(payload)
    ok, log, failed = core.ensure_build()
    audit = core.audit_proofs(pid)
    if not ok and core.build_concerns(pid, failed):
        audit['problems'].append('make reported errors: ' + log[-500:])
    try:
        out = mod.run(seed, a.tier)
    except Exception:
        out = core.Outcome()
        out.corr_failures.append(dict(note='harness exception', traceback=traceback.format_exc()[-3000:]))
        traceback.print_exc()
    chk = core.coqchk(pid) if (a.tier == 'thorough' and not os.environ.get('VERIF_NO_COQCHK')) else None
    return core.finish(pid, a.tier, seed, t0, audit, out, getattr(mod, 'ASSUMPTIONS', None), chk)


if __name__ == '__main__':
    sys.exit(main())
