"""Structural comparison of epsie states / histories (never pickle bytes)."""
import numpy


def struct_diff(a, b, path='', rtol=0.0):
    """Return '' when a and b are structurally equal (NaN == NaN), else a short
    description of the first difference."""
    if isinstance(a, dict) and isinstance(b, dict):
        ka, kb = set(a.keys()), set(b.keys())
        if ka != kb:
            return '%s: key sets differ (%s vs %s)' % (path, sorted(map(repr, ka - kb)), sorted(map(repr, kb - ka)))
        for k in sorted(a.keys(), key=repr):
            d = struct_diff(a[k], b[k], '%s[%r]' % (path, k), rtol)
            if d:
                return d
        return ''
    if isinstance(a, (list, tuple)) and isinstance(b, (list, tuple)):
        if len(a) != len(b):
            return '%s: lengths differ (%d vs %d)' % (path, len(a), len(b))
        for i, (x, y) in enumerate(zip(a, b)):
            d = struct_diff(x, y, '%s[%d]' % (path, i), rtol)
            if d:
                return d
        return ''
    if isinstance(a, (numpy.ndarray, numpy.void)) or isinstance(b, (numpy.ndarray, numpy.void)):
        a_, b_ = numpy.asarray(a), numpy.asarray(b)
        if a_.shape != b_.shape:
            return '%s: shapes differ (%s vs %s)' % (path, a_.shape, b_.shape)
        if a_.dtype.names or b_.dtype.names:
            if a_.dtype.names != b_.dtype.names:
                return '%s: fields differ' % path
            for f in a_.dtype.names:
                d = struct_diff(a_[f], b_[f], '%s.%s' % (path, f), rtol)
                if d:
                    return d
            return ''
        if a_.dtype.kind != b_.dtype.kind and not (a_.dtype.kind in 'fiub' and b_.dtype.kind in 'fiub'):
            return '%s: dtype kinds differ (%s vs %s)' % (path, a_.dtype, b_.dtype)
        try:
            if a_.dtype.kind == 'f' or b_.dtype.kind == 'f':
                if rtol:
                    ok = numpy.allclose(a_, b_, rtol=rtol, atol=0, equal_nan=True)
                else:
                    ok = numpy.array_equal(a_, b_, equal_nan=True)
            else:
                ok = numpy.array_equal(a_, b_)
        except Exception:
            ok = False
        return '' if ok else '%s: values differ (%s vs %s)' % (path, _short(a_), _short(b_))
    if isinstance(a, (float, numpy.floating)) or isinstance(b, (float, numpy.floating)):
        try:
            fa, fb = float(a), float(b)
        except Exception:
            return '%s: %r vs %r' % (path, a, b)
        if fa != fa and fb != fb:
            return ''
        if fa == fb:
            return ''
        if rtol and abs(fa - fb) <= rtol * max(abs(fa), abs(fb)):
            return ''
        return '%s: %r vs %r' % (path, a, b)
    if isinstance(a, (set, frozenset)) and isinstance(b, (set, frozenset)):
        return '' if a == b else '%s: sets differ' % path
    try:
        eq = a == b
        if isinstance(eq, numpy.ndarray):
            eq = eq.all()
    except Exception:
        eq = False
    return '' if eq else '%s: %r vs %r' % (path, a, b)


def _short(x):
    s = numpy.array2string(numpy.asarray(x).ravel()[:6], precision=17)
    return s
