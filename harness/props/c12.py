"""C12 - proposed points always lie in the proposal's declared domain."""
import math
import random

import numpy

from epsie import proposals as P

from .. import core, dens, configs as C
from ..trace import GenTap
from ..dens import Script

ASSUMPTIONS = [
    "over the reals the wrapped angle is < 2 pi; in binary64 a tiny negative angle wraps to exactly 2 pi, which the property allows ([0, 2 pi])",
    "the draws delivered to jump() are scripted: typical, extreme (8 sigma, denormal, exactly zero) and cell-edge quantiles",
    "bounded eigenvector: membership is tested with the tolerance of numpy.isclose that the implementation applies at the faces",
]
EXTREME_Z = [0.0, -0.0, 1e-300, -1e-300, 5e-324, 1e-17, -1e-17, 0.5, -0.5, 1.0, -1.0, 1.5, 2.5, -2.5, 8.0, -8.0, 37.0, -37.0]


def in_box(v, lo, hi):
    return lo <= v <= hi


def direct_ranges(rng, out, thorough):
    n = 60 if thorough else 14
    viol = []
    # ---- bounded normal / angular / discrete under extreme draws and scales
    grid = [(f, sc_) for f in ('bounded_normal', 'angular', 'discrete', 'bounded_discrete')
            for sc_ in (1e-40, 1e-8, 1e-3, 1.0, 50.0, 300.0, 1e4, 1e10)]
    rng.shuffle(grid)
    for fam, scale in (grid if thorough else grid[:24]) + [('bounded_normal', 300.0), ('bounded_normal', 1e4), ('bounded_discrete', 1e4)]:
        if scale >= 50.0 and rng.random() < 0.6:
            # far larger than the domain, and no tiny draws: thousands of consecutive misses
            zs = [z for z in (rng.gauss(0, 1) for _ in range(5000)) if abs(z) > 1e-2][:4000]
        else:
            zs = [rng.choice(EXTREME_Z) for _ in range(6)] + dens.zq(rng, 4000, extreme=True)
        sc = Script(zs=zs)
        if fam == 'bounded_normal':
            lo, hi = rng.choice([(-3.0, 5.0), (0.0, 1.0), (1e3, 1e3 + 1e-6)])
            prop = P.BoundedNormal(['a'], {'a': (lo, hi)}, cov=[(scale * (hi - lo)) ** 2])
            x = rng.choice([lo, hi, lo + (hi - lo) * rng.random()])
            check = lambda r: in_box(r['a'], lo, hi)          # noqa
            dom = '[%r, %r]' % (lo, hi)
        elif fam == 'angular':
            prop = P.Angular(['a'], cov=[scale ** 2])
            x = rng.choice([0.0, 2 * math.pi, rng.uniform(0, 2 * math.pi), 1e-300])
            check = lambda r: 0.0 <= r['a'] <= 2 * math.pi     # noqa
            dom = '[0, 2 pi]'
        elif fam == 'discrete':
            succ = rng.random() < 0.5
            prop = P.NormalDiscrete(['a'], cov=[min(scale, 1e6) ** 2], successive={'a': succ})
            x = rng.randint(-5, 5)
            check = lambda r, x=x, succ=succ: float(r['a']) == int(r['a']) and (succ or int(r['a']) != x)   # noqa
            dom = 'the integers%s' % ('' if succ else ' other than the current one')
        else:
            succ = rng.random() < 0.5
            lo, hi = rng.choice([(0, 3), (-4, 5), (1, 2)])
            prop = P.BoundedDiscrete(['a'], {'a': (lo, hi)}, cov=[min(scale, 1e6) ** 2 + 1e-12], successive={'a': succ})
            x = rng.randint(lo, hi)
            check = lambda r, x=x, succ=succ, lo=lo, hi=hi: float(r['a']) == int(r['a']) and lo <= r['a'] <= hi and (succ or int(r['a']) != x)   # noqa
            dom = 'the integers in [%d, %d]%s' % (lo, hi, '' if succ else ' other than the current one')
        prop.bit_generator = numpy.random.PCG64(1)
        for _ in range(5):
            with GenTap(script=sc):
                try:
                    r = prop.jump({'a': x})
                except IndexError:
                    break                      # script exhausted: the rejection loop needed > 4000 draws (C14's subject)
                except Exception as e:         # noqa
                    viol.append(dict(what='%s(scale %g).jump(%r) raised %r' % (fam, scale, x, e), replay=dict(family=fam, scale=scale, fromx=x)))
                    break
            out.evaluations += 1
            used = sc.normals[-1] if sc.normals else None
            if not check(r):
                zero = used is not None and used == 0.0
                item = dict(what='%s(scale %g) proposed %r from %r, outside %s (last draw %r)' % (fam, scale, r['a'], x, dom, used),
                            replay=dict(family=fam, scale=scale, fromx=x, last_draw=used))
                if zero and fam in ('discrete', 'bounded_discrete'):
                    out.known_hits.append(dict(flag='zero_draw_proposes_current', what=item['what'], witness=item['replay']))
                else:
                    viol.append(item)
        out.count('range_' + fam)
    # ---- several discrete parameters with mixed toggles, given in another key order than the parameters
    for _ in range(n):
        params = ['n', 'k', 'm'][:rng.choice([2, 3])]
        succ = {p: (i % 2 == 0) for i, p in enumerate(params)}
        if rng.random() < 0.5:
            succ = {p: not v for p, v in succ.items()}
        keys = list(params)
        rng.shuffle(keys)
        arg = {p: succ[p] for p in keys}
        bounded = rng.random() < 0.5
        if bounded:
            prop = P.BoundedDiscrete(params, {p: (-3, 6) for p in params}, cov=[1.0] * len(params), successive=arg)
        else:
            prop = P.NormalDiscrete(params, cov=[1.0] * len(params), successive=arg)
        prop.bit_generator = numpy.random.PCG64(rng.randrange(1, 10 ** 6))
        x = {p: rng.randint(-2, 5) for p in params}
        for _ in range(60):
            r = prop.jump(dict(x))
            out.evaluations += 1
            bad = [p for p in params if float(r[p]) != int(r[p]) or (bounded and not -3 <= r[p] <= 6) or (not succ[p] and int(r[p]) == x[p])]
            if bad:
                viol.append(dict(what='%s(successive=%s) proposed %s from %s: parameter(s) %s outside their domain (non-successive parameters '
                                      'must move)' % (prop.name, arg, {p: int(r[p]) for p in params}, x, bad),
                                 replay=dict(family=prop.name, params=params, successive=arg, fromx=x)))
                break
        out.count('range_multi_discrete')
    # ---- refusal outside the bounds
    for _ in range(6):
        lo, hi = -3.0, 5.0
        for prop, x in ((P.BoundedNormal(['a'], {'a': (lo, hi)}), rng.choice([-3.0000001, 5.5, 1e9])),
                        (P.BoundedDiscrete(['a'], {'a': (-3, 5)}), rng.choice([-4, 6, 100]))):
            try:
                r = prop.jump({'a': x})
                viol.append(dict(what='%s jumped from %r outside its bounds to %r instead of refusing' % (prop.name, x, r['a']),
                                 replay=dict(family=prop.name, fromx=x)))
            except ValueError:
                pass
            out.evaluations += 1
    # a current point need not be an integer to be outside: less than one cell beyond either bound is outside all the same
    for i_ in range(9):
        lo, hi = rng.choice([(-3, 5), (0, 10), (1, 2)])
        succ = rng.random() < 0.5
        cls = ['BoundedDiscrete', 'SSAdaptiveBoundedDiscrete', 'AdaptiveBoundedDiscrete'][i_ % 3]
        if cls == 'AdaptiveBoundedDiscrete':
            prop = P.AdaptiveBoundedDiscrete(['a'], {'a': (lo, hi)}, adaptation_duration=20, successive={'a': succ})
        else:
            prop = getattr(P, cls)(['a'], {'a': (lo, hi)}, successive={'a': succ})
        prop.bit_generator = numpy.random.PCG64(rng.randrange(1, 10 ** 6))
        x = rng.choice([hi + 0.5, lo - 0.5, hi + 1e-9, lo - 0.999, hi + 0.999, lo - 1e-9])
        try:
            r = prop.jump({'a': x})
            viol.append(dict(what='%s with bounds (%d, %d) jumped from %r outside its bounds to %r instead of refusing'
                                  % (prop.name, lo, hi, x, r['a']), replay=dict(family=prop.name, bounds=(lo, hi), successive=succ, fromx=x)))
        except ValueError:
            pass
        out.evaluations += 1
        out.count('refusal_fractional_discrete')
    # ---- solid angle conventions
    for i_ in range(max(n, 32)):
        radec, degs = bool(i_ & 1), bool(i_ & 2)             # all four conventions take their turn
        kappa = rng.choice([1e-2, 0.5, 5.0, 100.0, 600.0])
        prop = P.IsotropicSolidAngle('a', 'b', kappa=kappa, radec=radec, degs=degs)
        prop.bit_generator = numpy.random.PCG64(1)
        full, halfpi = (360.0, 90.0) if degs else (2 * math.pi, math.pi / 2)
        tlo, thi = (-halfpi, halfpi) if radec else (0.0, 2 * halfpi)
        pole = rng.random() < 0.25
        x = {'a': rng.uniform(0, full), 'b': (rng.choice([tlo, thi]) if pole else rng.uniform(tlo, thi))}
        u1 = rng.choice([0.0, rng.random(), 1 - 2 ** -53])
        u2 = rng.choice([0.0, 1 - 2 ** -53, rng.random(), rng.random(), 1e-12])
        with GenTap(script=Script(us=[u1, u2])):
            try:
                with numpy.errstate(all='ignore'):
                    r = prop.jump(dict(x))
            except Exception as e:      # noqa
                viol.append(dict(what='IsotropicSolidAngle(kappa=%g).jump raised %r' % (kappa, e), replay=dict(kappa=kappa, fromx=x, u=(u1, u2))))
                continue
        out.evaluations += 1
        out.count('range_solid_angle')
        ok = (0.0 <= r['a'] <= full) and (tlo - 1e-12 <= r['b'] <= thi + 1e-12)
        if not ok:
            extreme_u = u2 in (0.0, 1 - 2 ** -53) or kappa <= 1e-2 or kappa >= 600.0
            item = dict(what='IsotropicSolidAngle(kappa=%g, radec=%s, degs=%s) proposed (%r, %r) from %s with uniforms (%r, %r): not a valid '
                             'azimuth/polar pair' % (kappa, radec, degs, r['a'], r['b'], x, u1, u2),
                        replay=dict(kappa=kappa, radec=radec, degs=degs, fromx=x, u=(u1, u2)))
            if pole and not (r['a'] == r['a']):
                item['flag'] = 'pole'
            viol.append(item)
    # ---- solid angle: the draws that rotate back onto a pole (drawn colatitude = the current one, drawn azimuth pi) and their
    # neighbours: the rotated z is cos^2 + sin^2, which rounding can put one step above 1
    nbad = 0
    for i_ in range(max(4 * n, 120)):
        kappa = rng.choice([2.0, 10.0, 40.0])
        prop = P.IsotropicSolidAngle('a', 'b', kappa=kappa)
        prop.bit_generator = numpy.random.PCG64(1)
        th = rng.uniform(0.05, math.pi - 0.05)
        c = (math.exp(kappa) - math.exp(kappa * math.cos(th))) * (2 * math.pi * float(prop.norm)) / kappa
        c = min(max(c + rng.choice([0.0, 1e-16, -1e-16]), 0.0), 1 - 2 ** -53)           # random() draws from [0, 1)
        ph = rng.choice([0.5, 0.5 + 1e-16, 0.5 - 1e-16])
        x = {'a': rng.uniform(0, 2 * math.pi), 'b': th}
        with GenTap(script=Script(us=[ph, c])):
            try:
                with numpy.errstate(all='ignore'):
                    r = prop.jump(dict(x))
            except Exception as e:      # noqa
                viol.append(dict(what='IsotropicSolidAngle(kappa=%g).jump raised %r' % (kappa, e), replay=dict(kappa=kappa, fromx=x, u=(ph, c))))
                continue
        out.evaluations += 1
        out.count('range_solid_angle_back_to_pole')
        if not ((0.0 <= r['a'] <= 2 * math.pi) and (0.0 <= r['b'] <= math.pi)) and nbad < 2:
            nbad += 1
            viol.append(dict(what='IsotropicSolidAngle(kappa=%g) proposed (%r, %r) from %s with uniforms (%r, %r) - the draw that rotates back '
                                  'onto the pole: not a valid azimuth/polar pair' % (kappa, r['a'], r['b'], x, ph, c),
                             replay=dict(kappa=kappa, fromx=x, u=(ph, c))))
    # ---- births
    for _ in range(n):
        kind = rng.choice(['uniform', 'normal', 'lognormal'])
        if kind == 'uniform':
            lo, hi = rng.choice([(0.0, 4.0), (-2.0, -1.0), (1e6, 1e6 + 1e-3)])
            b = P.UniformBirth(['a'], {'a': (lo, hi)})
        elif kind == 'normal':
            b = P.NormalBirth(['a'], {'a': rng.uniform(-3, 3)}, {'a': rng.choice([1e-6, 1.0, 1e6])})
        else:
            b = P.LogNormalBirth(['a'], {'a': rng.choice([0.1, 1.0, 50.0])}, {'a': rng.choice([0.01, 0.7, 5.0])})
        with GenTap(script=Script(zs=[rng.choice(EXTREME_Z + [rng.gauss(0, 1)])], us=[rng.choice([0.0, 1 - 2 ** -53, rng.random()])])):
            x = b.birth
        out.evaluations += 1
        out.count('range_birth_' + kind)
        with numpy.errstate(all='ignore'):
            lp = float(b.logpdf(dict(x)))
        if not (lp > -numpy.inf) or lp != lp:
            viol.append(dict(what='%s birth produced %r where its own density is %r' % (kind, x['a'], lp), replay=dict(kind=kind, value=float(x['a']))))
    # ---- bounded eigenvector, with the implementation's face tolerance
    for _ in range(n // 2):
        bnd = {'a': (-3.0, 5.0), 'b': (0.0, 1.0)}
        prop = P.BoundedEigenvector(['a', 'b'], bnd, cov=numpy.array([[4.0, 0.3], [0.3, 0.5]]) * rng.choice([1e-4, 1.0, 9.0]))
        prop.bit_generator = numpy.random.PCG64(rng.randrange(1, 10 ** 6))
        x = {'a': rng.choice([-3.0, 5.0, rng.uniform(-3, 5)]), 'b': rng.choice([0.0, 1.0, rng.uniform(0, 1)])}
        budget = [0]

        def counting(owner, method, a, k, real, budget=budget):
            budget[0] += 1
            if budget[0] > 20000:
                raise IndexError('draw budget exhausted')       # how long a rejection loop may take is C14's subject
            return real(*a, **k)
        try:
            with GenTap(script=counting):
                r = prop.jump(dict(x))
        except IndexError:
            continue
        except Exception as e:      # noqa
            viol.append(dict(what='BoundedEigenvector.jump(%s) raised %r' % (x, e), replay=dict(fromx=x)))
            continue
        out.evaluations += 1
        out.count('range_bounded_eigenvector')
        for p in ('a', 'b'):
            lo, hi = bnd[p]
            if not (lo <= r[p] <= hi or numpy.isclose(r[p], lo) or numpy.isclose(r[p], hi)):
                viol.append(dict(what='BoundedEigenvector proposed %s=%r outside [%r, %r] beyond the face tolerance' % (p, r[p], lo, hi),
                                 replay=dict(fromx=x, result={k: float(v) for k, v in r.items()})))
    # ---- bounded eigenvector with intervals that are wide compared with the bound at a face (a face at 0, symmetric bounds): the
    # tolerance at a face is a rounding tolerance for that bound, not a fraction of the interval's width.  Scripted jumps whose first
    # displacement ends a little beyond the face (beyond the tolerance) and whose second stays inside; starts a little outside.
    for i_ in range(n // 2):
        bnd = {'a': (0.0, 1000.0), 'b': (-40.0, 40.0)}
        th = rng.uniform(0.2, 1.2)
        R = numpy.array([[math.cos(th), -math.sin(th)], [math.sin(th), math.cos(th)]])
        prop = P.BoundedEigenvector(['a', 'b'], bnd, cov=R @ numpy.diag([1.0, rng.choice([0.25, 4.0])]) @ R.T)
        prop.bit_generator = numpy.random.PCG64(rng.randrange(1, 10 ** 6))
        face = rng.choice(['a0', 'b-', 'b+'])
        coord, fv, beyond, outward = {'a0': (0, 0.0, 5e-3, -1.0), 'b-': (1, -40.0, 6e-4, -1.0), 'b+': (1, 40.0, 6e-4, 1.0)}[face]
        x = {'a': rng.uniform(100, 900), 'b': rng.uniform(-30, 30)}
        x['ab'[coord]] = fv
        k = int(numpy.argmax(numpy.abs(prop.eigvects[coord, :])))
        vc = float(prop.eigvects[coord, k])
        dx_out = outward * beyond / vc
        dx_in = -outward * 0.5 / vc
        sc = dens.DirScript([k] * 12, [dx_out, dx_in] * 6)
        try:
            with GenTap(script=sc):
                r = prop.jump(dict(x))
        except Exception as e:      # noqa
            viol.append(dict(what='BoundedEigenvector.jump(%s) raised %r' % (x, e), replay=dict(fromx=x, bounds=bnd)))
            continue
        out.evaluations += 1
        out.count('range_bounded_eigenvector_wide')
        for p in ('a', 'b'):
            lo, hi = bnd[p]
            if not (lo <= r[p] <= hi or numpy.isclose(r[p], lo) or numpy.isclose(r[p], hi)):
                viol.append(dict(what='BoundedEigenvector with bounds %s proposed %s=%r from the face %s=%r: outside [%r, %r] beyond the rounding '
                                      'tolerance at that face' % (bnd, p, float(r[p]), 'ab'[coord], fv, lo, hi),
                                 replay=dict(fromx=x, bounds=bnd, direction=k, displacements=[dx_out, dx_in],
                                             result={q: float(v) for q, v in r.items()})))
        # a start beyond the tolerance is refused
        xo = dict(x)
        xo['ab'[coord]] = fv + outward * beyond
        try:
            with GenTap(script=dens.DirScript([k] * 12, [dx_in] * 12)):
                r = prop.jump(dict(xo))
            viol.append(dict(what='BoundedEigenvector with bounds %s jumped from %r, outside beyond the rounding tolerance at the face, instead '
                                  'of refusing' % (bnd, xo), replay=dict(fromx=xo, bounds=bnd)))
        except ValueError:
            pass
        out.evaluations += 1
    return viol


def run_positions(rng, out, thorough):
    """proposed_position along random runs of bounded/angular/discrete samplers with adaptive scales"""
    viol = []
    fams = [f for f in C.ALL if any(k in f for k in ('bounded', 'angular', 'discrete'))]
    for _ in range(30 if thorough else 8):
        cfg = C.gen(rng, kind='family')
        cfg['family'] = rng.choice(fams)
        cfg['pt'] = False
        cfg['ntemps'], cfg['nchains'] = 1, 1
        s = C.build(cfg)
        s.start_position = C.start_position(cfg)
        fam = cfg['family']
        for it in range(40 if thorough else 15):
            s.run(1)
            pp = s.chains[0].proposed_position
            out.evaluations += 1
            bad = None
            if 'angular' in fam:
                bad = [p for p in ('a', 'b') if not (0 <= pp[p] <= 2 * math.pi)]
            elif 'bounded_discrete' in fam:
                bad = [p for p, (lo, hi) in (('a', (-3, 5)), ('b', (0, 20))) if not (lo <= pp[p] <= hi and float(pp[p]) == int(pp[p]))]
            elif 'bounded' in fam and 'eigen' not in fam:
                bad = [p for p, (lo, hi) in C.BND2.items() if not (lo <= pp[p] <= hi)]
            elif 'discrete' in fam:
                bad = [p for p in ('a', 'b') if float(pp[p]) != int(pp[p])]
            if bad:
                viol.append(dict(what='%s proposed %s outside its domain at iteration %d' % (fam, {p: float(pp[p]) for p in bad}, it + 1),
                                 replay=dict(config=cfg, iteration=it + 1)))
                break
        out.count('runs')
    return viol


def run(seed, tier):
    thorough = tier == 'thorough'
    rng = random.Random(seed * 67867967 + 12)
    out = core.Outcome()
    out.rule = ("real jump()/birth of every bounded, discrete, angular, solid-angle, eigenvector and birth family under scripted draws "
                "(typical, 8-37 sigma, denormal, exactly zero, cell edges), scales from 1e-40 to 1e10 times the domain, current points on the "
                "boundaries and poles, all four solid-angle conventions: (a) model jump maps (Dens.v: rejection loops, rounding, wrap, rotation, "
                "guards) under vm_compute; (b) direct membership of every returned point in the declared domain and refusal from outside; "
                "(c) proposed_position along runs with adaptive scales. non-trivial = extreme draw or scale; distinct = (family, scale, point, draws)")
    import sys, time
    t0 = time.time()
    terms, metas = [], []
    for f, a in ((dens.discrete_cases, dict(n=10 if thorough else 4, bounded=False, extreme=True)),
                 (dens.discrete_cases, dict(n=14 if thorough else 5, bounded=True, extreme=True)),
                 (dens.bounded_normal_cases, dict(n=12 if thorough else 4, extreme=True)),
                 (dens.angular_cases, dict(n=10 if thorough else 4, extreme=True)),
                 (dens.vmf_cases, dict(n=10 if thorough else 4, extreme=False))):
        t, m = f(rng, out, **a)
        for tt, mm in zip(t, m):
            if mm.get('kind') == 'jump':
                terms.append(tt)
                metas.append(mm)
                out.nontrivial.add(repr(sorted((k, repr(v)) for k, v in mm.items())))
    for _ in range(20):
        lo, hi = -3.0, 5.0
        x = rng.choice([-3.0, 5.0, -3.0000001, 5.0000001, 0.0, 1e9, -1e9])
        prop = P.BoundedNormal(['a'], {'a': (lo, hi)})
        try:
            prop.jump({'a': x})
            ref = False
        except ValueError:
            ref = True
        terms.append('CBNG %s %s %s %s' % (core.cfloat(lo), core.cfloat(hi), core.cfloat(x), core.cbool(ref)))
        metas.append(dict(family='bounded_normal', kind='guard', fromx=x, refused=ref))
        xi = rng.choice([-3, 5, -4, 6, 0])
        prop = P.BoundedDiscrete(['a'], {'a': (-3, 5)}, successive={'a': True})
        try:
            prop.jump({'a': xi})
            ref = False
        except ValueError:
            ref = True
        terms.append('CBDG (-3)%%Z (5)%%Z %s %s' % (core.cZ(xi), core.cbool(ref)))
        metas.append(dict(family='bounded_discrete', kind='guard', fromx=xi, refused=ref))
    print('C12 phase cases %.1fs' % (time.time() - t0), file=sys.stderr, flush=True)
    failing = core.run_coq_cases('C12', dens.HEADER, terms, per_file=250)
    print('C12 phase coq %.1fs' % (time.time() - t0), file=sys.stderr, flush=True)
    for f in failing[:12]:
        out.corr_failures.append(dict(note='jump model (Dens.v) and implementation disagree', case=metas[f[0]]))
    out.count('coq_cases', len(terms))
    out.violations += direct_ranges(rng, out, thorough)[:4]
    print('C12 phase ranges %.1fs' % (time.time() - t0), file=sys.stderr, flush=True)
    if len(out.violations) < 4:
        out.violations += run_positions(rng, out, thorough)[:2]
    # one finding per flag
    seen = set()
    hits = []
    for h in out.known_hits:
        if h['flag'] not in seen:
            seen.add(h['flag'])
            hits.append(h)
    out.known_hits = hits
    return out


def replay(payload):
    print(payload.get('what'))
    print(payload.get('replay') or payload.get('witness'))
    return 0
