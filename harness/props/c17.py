"""C17 - ladder coherence: every level samples at the beta its swaps use."""
import copy
import random

import numpy

import epsie
from epsie.chain import ParallelTemperedChain
from epsie.chain.ptchain import DynamicalAnnealer
from epsie import proposals as P
from epsie.samplers import ParallelTemperedSampler

from .. import core
from ..models import GaussModel

ASSUMPTIONS = [
    "the annealer call is observed by wrapping DynamicalAnnealer.__call__ on the class (betas, _S and the acceptance row before/after)",
    "FloatLib.fexp/fln agree with numpy.exp/log to 1e-9",
]
HEADER = ('From Coq Require Import ZArith List PrimFloat.\nFrom Epsie Require Import Base FloatLib Num NumF Ladder Exec.ExecC17.\n'
          'Import ListNotations.\nOpen Scope float_scope.')


def fl(xs):
    return core.clist([core.cfloat(x) for x in xs])


def setter_cases(rng, out, terms, meta, n):
    for _ in range(n):
        k = rng.choice([1, 2, 3, 4, 5, 6])
        kind = rng.random()
        bs = [round(rng.random(), 3) for _ in range(k)]
        if kind < 0.3:
            bs[rng.randrange(k)] = 1.0
        if kind < 0.2:
            bs[rng.randrange(k)] = 0.0
        if 0.3 < kind < 0.4 and k > 1:
            bs[0] = bs[-1]                                  # ties
        if 0.85 < kind:
            bs[rng.randrange(k)] = rng.choice([-0.1, 1.0000001, 2.0, -1e-300])   # out of range
        rng.shuffle(bs)
        form = rng.choice(['list', 'array', 'tuple'])
        arg = bs if form == 'list' else (numpy.array(bs) if form == 'array' else tuple(bs))
        model = GaussModel(['x'], log=False)
        try:
            pt = ParallelTemperedChain(['x'], model, [P.Normal(['x'])], betas=arg, bit_generator=1)
            got = [float(b) for b in pt.betas]
            lv = [float(c.beta) for c in pt.chains]
        except ValueError:
            got, lv = None, None
        out.evaluations += 1
        out.count('setter')
        terms.append('CSet %s %s' % (fl(bs), 'None' if got is None else '(Some %s)' % fl(got)))
        meta.append(dict(kind='setter', betas=bs))
        ok_in = all(0 <= b <= 1 for b in bs)
        if got is None:
            if ok_in:
                out.violations.append(dict(what='betas %s in [0,1] were refused' % bs, replay=meta[-1]))
            continue
        if not ok_in:
            out.violations.append(dict(what='a beta outside [0,1] was accepted: %s' % bs, replay=meta[-1]))
        if got != sorted(bs, reverse=True):
            out.violations.append(dict(what='betas %s are held as %s, not ordered from coldest to hottest' % (bs, got), replay=meta[-1]))
        if lv != got:
            out.violations.append(dict(what='levels sample at %s while the ladder is %s' % (lv, got), replay=meta[-1]))
        if len(set(bs)) == len(bs) and len(bs) >= 3 and bs != sorted(bs) and bs != sorted(bs, reverse=True):
            out.nontrivial.add(repr(('setter', bs)))


def geom_cases(rng, out, terms, meta, n):
    for _ in range(n):
        nt = rng.choice([2, 3, 4, 5, 8, 12])
        mt = rng.choice([1.0, 2.0, 10.0, 100.0, 1e4, round(rng.uniform(1, 500), 2)])
        got = [float(x) for x in epsie.make_betas_ladder(nt, mt)]
        out.evaluations += 1
        out.count('make_betas_ladder')
        terms.append('CGeom %d%%nat %s %s' % (nt, core.cfloat(mt), fl(got)))
        meta.append(dict(kind='make_betas_ladder', ntemps=nt, maxtemp=mt))
        if not all(0 <= b <= 1 for b in got) or abs(got[-1] - 1.0) > 1e-15 or abs(got[0] - 1.0 / mt) > 1e-12:
            out.violations.append(dict(what='make_betas_ladder(%d, %r) = %s leaves [1/maxtemp, 1]' % (nt, mt, got), replay=meta[-1]))


class AnnealTap:
    """Wraps DynamicalAnnealer.__call__ / setup_annealing on the class."""

    def __init__(self):
        self.calls = []
        self.setups = []

    def __enter__(self):
        tap = self
        self.o_call = DynamicalAnnealer.__call__
        self.o_setup = DynamicalAnnealer.setup_annealing

        def call(self_, chain):
            before = dict(betas=[float(b) for b in chain.betas], S=[float(s) for s in self_._S],
                          t=chain.iteration // chain.swap_interval, nu=float(self_._nu), tau=float(self_._tau))
            try:
                row = (chain.iteration - chain.lastclear - 1) // chain.swap_interval     # the row the sweep just wrote
                before['ars'] = [float(a) for a in numpy.array(chain._temperature_acceptance.data['acceptance_ratio'][row]).reshape(-1)]
            except Exception as e:        # noqa
                before['ars_error'] = repr(e)
            r = tap.o_call(self_, chain)
            before['betas_after'] = [float(b) for b in chain.betas]
            before['S_after'] = [float(s) for s in self_._S]
            before['chain'] = id(chain)
            tap.calls.append(before)
            return r

        def setup(self_, betas):
            b0 = [float(b) for b in betas]
            r = tap.o_setup(self_, betas)
            tap.setups.append(dict(sorted=b0, S=[float(s) for s in self_._S], betas_after=[float(b) for b in betas],
                                   tmax=bool(self_._Tmax_prior)))
            return r
        DynamicalAnnealer.__call__ = call
        DynamicalAnnealer.setup_annealing = setup
        return self

    def __exit__(self, *a):
        DynamicalAnnealer.__call__ = self.o_call
        DynamicalAnnealer.setup_annealing = self.o_setup


def sweep_uses_reported_betas(ch, betas_before):
    """The sweep just made by parallel-tempered chain `ch`: its recorded acceptance ratios against min(1, (L_a/L_b)^(beta_k - beta_j)) at
    the ladder the chain reported when the sweep was made (`betas_before`: an annealer moves the ladder after the sweep), with the
    occupants' log-likelihoods reconstructed from the records after the sweep and the recorded permutation."""
    import math
    n = len(ch.chains)
    idx = [int(x) for x in numpy.atleast_2d(ch.temperature_swaps)[:, -1]]
    ars = [float(x) for x in numpy.atleast_2d(ch.temperature_acceptance)[:, -1]]
    newl = [float(c.current_stats['logl']) for c in ch.chains]
    old = [None] * n
    for t in range(n):
        old[idx[t]] = newl[t]
    occ = list(range(n))
    for tk in range(n - 1, 0, -1):
        tj = tk - 1
        logar = (betas_before[tk] - betas_before[tj]) * (old[occ[tj]] - old[occ[tk]])
        want = 1.0 if logar > 0 else math.exp(logar)
        if abs(ars[tj] - want) > 1e-9 * max(1.0, want):
            return ('the exchange of levels %d and %d was accepted with probability %r; at the betas the chain reports (%r, %r) it is %r'
                    % (tj, tk, ars[tj], betas_before[tj], betas_before[tk], want))
        if idx[tk] == occ[tj]:
            occ[tj], occ[tk] = occ[tk], occ[tj]
    return None


def foreign_state_runs(rng, out, n):
    """A sampler with a FIXED ladder that has already made sweeps is given the state of a sampler with another ladder (a fixed one, or
    one an annealer has moved): from then on its levels sample at, its sweeps use and it reports the loaded ladder."""
    import pickle
    for i in range(n):
        nt, nch, si = rng.choice([3, 4]), rng.choice([1, 2]), rng.choice([1, 2])
        l1 = [1.0] + sorted([round(rng.uniform(0.1, 0.9), 3) for _ in range(nt - 2)], reverse=True) + [0.02]
        l2 = [1.0] + sorted([round(rng.uniform(0.1, 0.9), 3) for _ in range(nt - 2)], reverse=True) + [0.02]
        model = GaussModel(['x', 'y'], sigma=1.0, log=False)
        donor_annealed = i % 2 == 1
        ann = DynamicalAnnealer(tau=20, nu=1, Tmax_prior=False) if donor_annealed else None
        donor = ParallelTemperedSampler(['x', 'y'], model, nch, betas=numpy.array(l2), swap_interval=si, adaptive_annealer=ann, seed=rng.randrange(1, 10 ** 6))
        donor.start_position = {'x': numpy.full((nt, nch), 0.3), 'y': numpy.full((nt, nch), 0.1)}
        donor.run(2 * si + 2)
        s = ParallelTemperedSampler(['x', 'y'], model, nch, betas=numpy.array(l1), swap_interval=si, seed=rng.randrange(1, 10 ** 6))
        s.start_position = {'x': numpy.full((nt, nch), 0.1), 'y': numpy.full((nt, nch), -0.2)}
        s.run(2 * si)                                # it has made sweeps with its own ladder
        s.set_state(pickle.loads(pickle.dumps(donor.state)))
        loaded = [[float(b) for b in ch.betas] for ch in donor.chains]
        desc = dict(kind='foreign_state', own_ladder=l1, donor_ladder=l2, donor_annealed=donor_annealed, swap_interval=si, nchains=nch)
        for it in range(3 * si):
            before = [[float(b) for b in ch.betas] for ch in s.chains]
            s.run(1)
            out.evaluations += 1
            for ci, ch in enumerate(s.chains):
                lv = [float(c.beta) for c in ch.chains]
                lad = [float(b) for b in ch.betas]
                bad = None
                if lad != loaded[ci] or lv != lad:
                    bad = 'after loading a state with ladder %s the levels sample at %s and the chain reports %s' % (loaded[ci], lv, lad)
                elif ch.iteration % si == 0:
                    bad = sweep_uses_reported_betas(ch, before[ci])
                if bad:
                    out.violations.append(dict(what='chain %d, iteration %d after the load: %s' % (ci, it + 1, bad), replay=desc))
                    return
        out.count('foreign_state_runs')
        out.nontrivial.add(repr(('foreign', i, l1, l2)))


def annealed_runs(rng, out, terms, meta, nruns, thorough):
    for _ in range(nruns):
        nt = rng.choice([3, 3, 4, 5, 6])
        nch = rng.choice([1, 2, 3])
        tmax = rng.random() < 0.7
        mid = sorted({round(rng.uniform(0.03, 0.95), 3) for _ in range(nt - 2)}, reverse=True)
        while len(mid) < nt - 2:
            mid.append(round(mid[-1] * 0.5, 4) if mid else 0.4)
        betas = [1.0] + mid + [rng.choice([0.01, 0.001, 0.02])]
        order = list(betas)
        rng.shuffle(order)
        tau, nu = rng.choice([(1000, 10), (50, 2), (20, 1), (200, 100)])
        si = rng.choice([1, 1, 2, 3])
        annealer = rng.random() < 0.85
        cfg = dict(betas=order, nchains=nch, tmax_prior=tmax, tau=tau, nu=nu, swap_interval=si, annealer=annealer,
                   seed=rng.randrange(1, 10 ** 6), sigma=rng.choice([0.3, 1.0, 3.0]))
        model = GaussModel(['x', 'y'], sigma=cfg['sigma'], log=False)
        with AnnealTap() as tap:
            ann = DynamicalAnnealer(tau=tau, nu=nu, Tmax_prior=tmax) if annealer else None
            s = ParallelTemperedSampler(['x', 'y'], model, nch, betas=numpy.array(order), swap_interval=si,
                                        adaptive_annealer=ann, seed=cfg['seed'])
            s.start_position = {'x': numpy.full((nt, nch), 0.1), 'y': numpy.full((nt, nch), -0.2)}
            niter = rng.choice([6, 12, 20] if not thorough else [12, 30, 60])
            ladder0 = [[float(b) for b in ch.betas] for ch in s.chains]
            problem = None
            load_at = rng.randrange(2, niter) if rng.random() < 0.5 else None
            load_how = rng.choice(['same', 'fresh'])
            cfg['state_load'] = (load_at, load_how) if load_at else None
            for it in range(niter):
                if load_at is not None and it == load_at:
                    # checkpoint / resume in the middle of the run: into the same sampler object or into a freshly built one
                    import pickle
                    st = pickle.loads(pickle.dumps(s.state))
                    if load_how == 'fresh':
                        ann2 = DynamicalAnnealer(tau=tau, nu=nu, Tmax_prior=tmax) if annealer else None
                        s2 = ParallelTemperedSampler(['x', 'y'], model, nch, betas=numpy.array(order), swap_interval=si,
                                                     adaptive_annealer=ann2, seed=cfg['seed'] + 1)
                        s2.set_state(st)
                        s = s2
                    else:
                        s.set_state(st)
                    out.count('state_loads_' + load_how)
                try:
                    s.run(1)
                except Exception as e:       # noqa
                    problem = ('run raised %r at iteration %d' % (e, it + 1), None)
                    break
                out.evaluations += 1
                sb = s.betas
                for ci, ch in enumerate(s.chains):
                    lad = [float(b) for b in ch.betas]
                    lv = [float(c.beta) for c in ch.chains]
                    if lv != lad:
                        problem = ('iteration %d, chain %d: levels sample at betas %s while swaps use and the sampler reports %s'
                                   % (it + 1, ci, lv, lad), dict(iteration=it + 1, chain=ci, level_betas=lv, ladder=lad))
                    if [float(b) for b in sb[ci]] != lad:
                        problem = ('sampler.betas row %d differs from the chain ladder' % ci, dict(iteration=it + 1))
                    if lad[0] != ladder0[ci][0] or lad[-1] != ladder0[ci][-1]:
                        problem = ('coldest/hottest beta changed: %s -> %s' % (ladder0[ci], lad), dict(iteration=it + 1))
                    if not all(0 <= b <= 1 for b in lad):
                        problem = ('beta outside [0,1]: %s' % lad, dict(iteration=it + 1))
                    if tmax and annealer and any(lad[i] <= lad[i + 1] for i in range(nt - 1)):
                        problem = ('ladder lost its order under annealing: %s' % lad, dict(iteration=it + 1))
                    if not annealer and lad != ladder0[ci]:
                        problem = ('fixed ladder changed', dict(iteration=it + 1))
                if problem:
                    break
            if problem:
                out.violations.append(dict(what=problem[0], replay=dict(config=cfg, detail=problem[1])))
            for su in tap.setups:
                terms.append('CSetup %s %s %s %s' % ('true' if su['tmax'] else 'false', fl(su['sorted']), fl(su['S']), fl(su['betas_after'])))
                meta.append(dict(kind='setup', config=cfg, setup=su))
            for c in tap.calls:
                if 'ars' not in c:
                    continue
                terms.append('CCall %s %s %s %s %s %s %s %s' % (core.cfloat(c['nu']), core.cfloat(c['tau']), core.cfloat(c['t']),
                                                               fl(c['betas']), fl(c['S']), fl(c['ars']), fl(c['betas_after']), fl(c['S_after'])))
                meta.append(dict(kind='call', config=cfg, call={k: v for k, v in c.items() if k != 'chain'}))
                out.count('annealer_calls')
                if c['betas_after'] != c['betas']:
                    out.nontrivial.add(repr((cfg['seed'], c['t'], c['chain'])))
            out.count('runs_with_annealer' if annealer else 'runs_fixed_ladder')
            if len(out.samples) < 2 and tap.calls:
                out.samples.append(dict(config=cfg, first_call={k: v for k, v in tap.calls[0].items() if k != 'chain'}))
        if len(out.violations) > 4:
            break


def run(seed, tier):
    thorough = tier == 'thorough'
    rng = random.Random(seed * 86028121 + 17)
    out = core.Outcome()
    out.rule = ("(a) betas setter on lists/arrays/tuples in random order with ties, boundary and out-of-range values; (b) real PT samplers "
                "(3-6 levels, 1-3 chains, swap interval 1-3) with and without DynamicalAnnealer (any tau/nu, hottest temperature infinite or "
                "not), one iteration at a time: ptchain.betas, sampler.betas and every level's beta compared, every annealer call and setup "
                "captured as a Coq case; (c) make_betas_ladder. non-trivial = an annealer call that changed the ladder / a setter input "
                "in neither sorted order; distinct = distinct call / input")
    terms, meta = [], []
    setter_cases(rng, out, terms, meta, 600 if thorough else 80)
    geom_cases(rng, out, terms, meta, 120 if thorough else 20)
    annealed_runs(rng, out, terms, meta, 150 if thorough else 18, thorough)
    if len(out.violations) <= 4:
        foreign_state_runs(rng, out, 24 if thorough else 6)
    failing = core.run_coq_cases('C17', HEADER, terms, per_file=600)
    for f in failing[:10]:
        out.corr_failures.append(dict(note='ladder model and implementation disagree', case=meta[f[0]]))
    out.count('coq_cases', len(terms))
    return out


def replay(payload):
    print(payload.get('what'))
    print(payload.get('replay'))
    return 0
