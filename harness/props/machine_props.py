"""C06, C08, C09, C18: machine-level properties.  One generator of real-sampler
runs (harness/machine.py) feeds (a) the correspondence with coq/theories/Machine.v
and (b) the direct oracle of the requested property on the same traces."""
import copy
import random

import numpy

from .. import core, machine
from ..compare import struct_diff
from ..trace import lvl_state

ASSUMPTIONS = [
    "the machine takes proposals, model outputs and accept/swap decisions as inputs (oracle stream); the decisions' formulas are "
    "C01/C03; swap decisions are decoded from the recorded swap_index row (swap at pair (t-1,t) iff swap_index[t] == t-1)",
    "the probe model is a pure function of its arguments",
]

RULES = {
    'C06': "real MH/PT samplers (1-3 params, blobs on/off, 1-2 chains, 2-5 levels, swap interval 1-4, seven proposal mixes) driven "
           "by random schedules of run(n) (n in 0..7), clear() and set_state; every schedule is compared with ONE uninterrupted run of "
           "an identically seeded twin; non-trivial = schedule has >= 2 runs of different length and >= 1 clear between steps; "
           "distinct = distinct (configuration, schedule)",
    'C08': "same generator; after every operation every access path is read (arrays, chain[i] for all i in [-len,len), current_*, "
           "sampler-level stacked arrays) and the pure model is re-evaluated at every recorded position; non-trivial = run with "
           ">= 1 accepted and >= 1 rejected step and (for PT) >= 1 accepted exchange; distinct = distinct (configuration, schedule)",
    'C09': "same generator restricted to PT; every real swap_temperatures() call is captured with the level states just before and "
           "after; non-trivial = a sweep with >= 1 accepted and >= 1 refused exchange, or a clear at a non-multiple of the swap "
           "interval followed by a sweep; distinct = distinct (configuration, schedule, sweep number)",
    'C18': "same generator plus componentwise Andrieu-Thoms proposals; the probe model's call log is compared with the count formula "
           "after every operation, and all read accessors are touched between operations; non-trivial = schedule containing a clear "
           "or set_state or a forced reject; distinct = distinct (configuration, schedule)",
}


class Probe:
    """Collects what the direct oracles need while the schedule runs."""

    def __init__(self, pid, cfg, out):
        self.pid = pid
        self.cfg = cfg
        self.out = out
        self.problems = []          # (what, detail)
        self.known = []             # (flag, detail)
        self.segments = None        # per chain: concatenated history pieces
        self.ncalls_before = None
        self.nsweeps_seen = {}
        self.clears_at = []
        self.flags = dict(accept=False, reject=False, forced=False, swap_yes=False, swap_no=False,
                          clear_nonmultiple_then_sweep=False)

    # --- helpers
    def chains(self, sampler):
        return sampler.chains

    def levels(self, ch):
        return ch.chains if self.cfg.pt else [ch]

    def total_calls(self, tracer):
        n = 0
        for recs in tracer.starts.values():
            n += sum(len(r['model']) for r in recs)
        for recs in tracer.steps.values():
            n += sum(len(r['model']) for r in recs)
        return n

    def hist_views(self, ch):
        """Retained history of one (pt)chain as plain python data."""
        out = []
        for lv in self.levels(ch):
            n = len(lv)
            if n == 0 or lv.iteration == 0:
                out.append(dict(pos=[], stats=[], acc=[], blobs=[]))
                continue
            out.append(dict(
                pos=[tuple(float(r[p]) for p in self.cfg.params) for r in lv.positions],
                stats=[(float(r['logl']), float(r['logp'])) for r in lv.stats],
                acc=[(float(r['acceptance_ratio']), bool(r['accepted'])) for r in lv.acceptance],
                blobs=[tuple(float(r[k]) for k in sorted(r.dtype.names)) for r in lv.blobs] if lv.hasblobs else []))
        sw = []
        if self.cfg.pt and ch.ntemps > 1:
            ts = ch.temperature_swaps.T
            ta = ch.temperature_acceptance.T
            sw = [(tuple(int(x) for x in a), tuple(float(x) for x in numpy.atleast_1d(b))) for a, b in zip(ts, ta)]
        return out, sw

    def __call__(self, phase, op, sampler, tracer):
        kind = op[0]
        cfg = self.cfg
        if self.segments is None:
            self.segments = [dict(levels=[dict(pos=[], stats=[], acc=[], blobs=[]) for _ in range(cfg.ntemps)], sw=[])
                             for _ in range(cfg.nchains)]
        if phase == 'before':
            self.ncalls_before = self.total_calls(tracer)
            if kind in ('clear', 'setstate', 'fresh'):
                # bank the retained history before it is dropped
                for ci, ch in enumerate(sampler.chains):
                    self.bank(ci, ch)
                if kind == 'clear':
                    self.clears_at.append(sampler.chains[0].iteration)
            if self.pid == 'C18':
                self.touch_readers(sampler)
            return
        # ---- after the op
        n_after = self.total_calls(tracer)
        if self.pid == 'C18':
            self.check_calls(op, sampler, tracer, n_after)
        if self.pid == 'C08':
            self.check_faithful(op, sampler, tracer)
        if self.pid == 'C09' and kind == 'run':
            self.check_sweeps(op, sampler, tracer)

    def bank(self, ci, ch):
        lv, sw = self.hist_views(ch)
        seg = self.segments[ci]
        for t in range(len(lv)):
            for k in ('pos', 'stats', 'acc', 'blobs'):
                seg['levels'][t][k] += lv[t][k]
        seg['sw'] += sw

    # --- C18
    def touch_readers(self, sampler):
        try:
            if sampler.chains[0].iteration > 0:
                _ = sampler.positions, sampler.stats, sampler.acceptance, sampler.blobs
            _ = sampler.current_positions, sampler.current_stats, sampler.current_blobs
            _ = sampler.state
            if self.cfg.pt:
                _ = sampler.temperature_swaps, sampler.temperature_acceptance, sampler.betas
            for ch in sampler.chains:
                if len(ch) > 0:
                    _ = ch[0], ch[-1]
        except ValueError:
            pass

    def check_calls(self, op, sampler, tracer, n_after):
        kind = op[0]
        cfg = self.cfg
        nlev = cfg.ntemps * cfg.nchains
        delta = n_after - self.ncalls_before
        if kind == 'start':
            want = nlev
        elif kind == 'run':
            want = nlev * op[1]
            # componentwise extras: ndim per in-window update, recorded as phase 'update'
            extras = 0
            for ch in sampler.chains:
                for lv in self.levels(ch):
                    recs = tracer.steps.get(id(lv), [])
                    for r in recs[-op[1]:] if op[1] else []:
                        nupd = len([m for m in r['model'] if m[0] == 'update'])
                        extras += nupd
                        # ... and only inside the adaptation window, by the harness's own reading of the clock (jump interval 1:
                        # the update after iteration `it` sees nsteps = it - 1; without reset_after_swap the window start is fixed)
                        pr = lv.proposal_dist.proposals[0]
                        if cfg.prop_kind == 'cw' and not getattr(cfg, 'ras', False) and hasattr(pr, 'adaptation_duration'):
                            it = r.get('iteration_after')
                            dk_ = it - pr.start_step
                            expect = len(pr.parameters) if 1 < dk_ < pr.adaptation_duration else 0
                            if it is not None and nupd != expect:
                                self.problems.append(('iteration %d: the componentwise adaptation evaluated the model %d times, %d expected '
                                                      '(step %d of an adaptation window of %d)' % (it, nupd, expect, dk_, pr.adaptation_duration),
                                                      dict(op=op)))
            want += extras
        elif kind == 'fresh' and cfg.seed % 3 == 0:
            want = nlev          # the placeholder start set on the fresh sampler before the state is loaded: one evaluation per level
        else:
            want = 0
        # reads made by touch_readers happened before 'before' snapshot of next op; any call they make shows up in the next delta
        if delta != want:
            self.problems.append(('model evaluated %d times during %r, expected %d' % (delta, op, want), dict(op=op)))
        if kind == 'run' and op[1]:
            for ch in sampler.chains:
                for lv in self.levels(ch):
                    for r in tracer.steps.get(id(lv), [])[-op[1]:]:
                        main = [m for m in r['model'] if m[0] == 'main']
                        if len(main) != 1:
                            self.problems.append(('a step evaluated the model %d times at the proposal' % len(main), dict(op=op)))
                            continue
                        args = {k: float(v) for k, v in main[0][1].items() if k != '_state'}
                        prop = {k: float(v) for k, v in r['proposed'].items() if k != '_state'}
                        if struct_diff(args, prop):
                            self.problems.append(('step evaluated the model away from the proposed point', dict(args=args, proposed=prop)))
                        if any(m for m in r['model'] if m[0] == 'main' and numpy.isneginf(m[2][1])):
                            self.flags['forced'] = True

    # --- C08
    def check_faithful(self, op, sampler, tracer):
        cfg = self.cfg
        inner = sampler.model.inner
        for ci, ch in enumerate(sampler.chains):
            for t, lv in enumerate(self.levels(ch)):
                n = len(lv)
                if n != lv.iteration - lv.lastclear:
                    self.problems.append(('len != iteration - lastclear', dict(chain=ci, level=t)))
                if lv.iteration == 0 or n == 0:
                    continue
                P, S, A = lv.positions, lv.stats, lv.acceptance
                B = lv.blobs
                if not (len(P) == len(S) == len(A) == n):
                    self.problems.append(('array lengths differ from len(chain)', dict(chain=ci, level=t)))
                    continue
                for i in range(n):
                    kw = {p: P[i][p] for p in cfg.params}
                    logl, logp = inner.evaluate(kw)
                    if struct_diff((float(S[i]['logl']), float(S[i]['logp'])), (float(logl), float(logp))):
                        self.problems.append(('recorded stats are not the model outputs at the recorded position',
                                              dict(chain=ci, level=t, index=i, pos=kw, recorded=(float(S[i]['logl']), float(S[i]['logp'])),
                                                   model=(float(logl), float(logp)))))
                    if lv.hasblobs:
                        wantb = inner.expected_blob(kw)
                        if struct_diff({k: float(B[i][k]) for k in B.dtype.names}, wantb):
                            self.problems.append(('recorded blob is not the model blob at the recorded position',
                                                  dict(chain=ci, level=t, index=i)))
                    ar = float(A[i]['acceptance_ratio'])
                    if not (0.0 <= ar <= 1.0):
                        self.problems.append(('recorded acceptance ratio outside [0,1]', dict(chain=ci, level=t, index=i, ar=ar)))
                    if bool(A[i]['accepted']):
                        self.flags['accept'] = True
                    else:
                        self.flags['reject'] = True
                # per-index access, every valid index
                for i in range(-n, n):
                    try:
                        it = lv[i]
                    except Exception as e:     # noqa
                        self.problems.append(('chain[%d] raised %r (len %d)' % (i, e, n), dict(chain=ci, level=t, index=i)))
                        continue
                    j = i % n
                    d = (struct_diff(it['positions'], P[j]) or struct_diff(it['stats'], S[j]) or struct_diff(it['acceptance'], A[j])
                         or (struct_diff(it['blobs'], B[j]) if lv.hasblobs else ''))
                    if d:
                        self.problems.append(('chain[%d] is not record %d of the history (len %d): %s' % (i, j, n, d),
                                              dict(chain=ci, level=t, index=i, length=n)))
                # current_* = last record
                if struct_diff({p: float(lv.current_position[p]) for p in cfg.params}, {p: float(P[n - 1][p]) for p in cfg.params}):
                    self.problems.append(('current_position is not the last record', dict(chain=ci, level=t)))
                if struct_diff({k: float(v) for k, v in lv.current_stats.items()}, {k: float(S[n - 1][k]) for k in ('logl', 'logp')}):
                    self.problems.append(('current_stats is not the last record', dict(chain=ci, level=t)))
            # ptchain[i]
            if cfg.pt and len(ch) > 0:
                n = len(ch)
                for i in (-n, -1, 0, n - 1):
                    try:
                        it = ch[i]
                        j = i % n
                        if struct_diff(it['positions'], ch.positions[..., j]) or struct_diff(it['stats'], ch.stats[..., j]):
                            self.problems.append(('ptchain[%d] is not record %d' % (i, j), dict(chain=ci, index=i)))
                    except Exception as e:      # noqa
                        self.problems.append(('ptchain[%d] raised %r' % (i, e), dict(chain=ci, index=i)))
        # sampler-level stacked arrays
        if sampler.chains[0].iteration > 0 and len(sampler.chains[0]) > 0:
            for name in ('positions', 'stats', 'acceptance'):
                stacked = getattr(sampler, name)
                for ci, ch in enumerate(sampler.chains):
                    mine = getattr(ch, name)
                    got = stacked[:, ci] if cfg.pt else stacked[ci]
                    if struct_diff(got, mine):
                        self.problems.append(('sampler.%s differs from chain %d .%s' % (name, ci, name), dict(chain=ci)))
        # sampler-level current_*: one entry per (temperature,) chain, equal to that level's own current_*
        try:
            cur = dict(positions=sampler.current_positions, stats=sampler.current_stats)
            if sampler.chains[0].hasblobs:
                cur['blobs'] = sampler.current_blobs
        except Exception as e:      # noqa
            self.problems.append(('sampler.current_* raised %r' % (e,), dict(ntemps=cfg.ntemps, nchains=cfg.nchains, pt=cfg.pt)))
            cur = {}
        for what, d in cur.items():
            for ci, ch in enumerate(sampler.chains):
                for t, lv in enumerate(self.levels(ch)):
                    mine = dict(positions=lv.current_position, stats=lv.current_stats, blobs=lv.current_blob if what == 'blobs' else None)[what]
                    for k in mine:
                        if k == '_state':
                            continue
                        got = d[k][t, ci] if cfg.pt else d[k][ci]
                        if struct_diff(float(got), float(mine[k])):
                            self.problems.append(('sampler.current_%s[%r] differs from the current %s of chain %d level %d' % (what, k, what, ci, t),
                                                  dict(chain=ci, level=t)))
        # pre-swap record rule: accepted step records the proposal, rejected repeats previous (before any sweep of that iteration)
        if op[0] == 'run' and op[1]:
            for ci, ch in enumerate(sampler.chains):
                sws = {r['iteration']: r for r in tracer.sweeps.get(id(ch), [])} if cfg.pt else {}
                for t, lv in enumerate(self.levels(ch)):
                    recs = tracer.steps.get(id(lv), [])[-op[1]:]
                    for r in recs:
                        it = r['iteration_after']
                        idx = it - lv.lastclear - 1
                        if idx < 0 or idx >= len(lv):
                            continue
                        decs = [d for d in r['dec'] if d[0] == 'main']
                        main = [m for m in r['model'] if m[0] == 'main']
                        if not main:
                            continue
                        accepted = bool(lv.acceptance[idx]['accepted'])
                        if it in sws:
                            rec_pos = sws[it]['before'][t]['pos']
                        else:
                            rec_pos = {p: float(lv.positions[idx][p]) for p in cfg.params}
                        prop = {p: float(r['proposed'][p]) for p in cfg.params}
                        if accepted and struct_diff({p: float(rec_pos[p]) for p in cfg.params}, prop):
                            self.problems.append(('accepted step did not record the proposed point', dict(chain=ci, level=t, iteration=it)))

    # --- C09
    def check_sweeps(self, op, sampler, tracer):
        cfg = self.cfg
        if not cfg.pt:
            return
        for ci, ch in enumerate(sampler.chains):
            sws = tracer.sweeps.get(id(ch), [])
            seen = self.nsweeps_seen.get(id(ch), 0)
            new = sws[seen:]
            self.nsweeps_seen[id(ch)] = len(sws)
            # schedule: iterations stepped during this op
            lv0 = ch.chains[0]
            its = [r['iteration_after'] for r in tracer.steps.get(id(lv0), [])[-op[1]:]] if op[1] else []
            want = [i for i in its if i % cfg.si == 0] if cfg.ntemps > 1 else []       # a single level has nothing to exchange
            got = [r['iteration'] for r in new]
            if want != got:
                self.problems.append(('sweeps happened at iterations %s, multiples of the swap interval %d stepped were %s'
                                      % (got, cfg.si, want), dict(chain=ci, swap_interval=cfg.si)))
            n = cfg.ntemps
            for k, r in enumerate(new):
                idx = [int(x) for x in r['swap_index']]
                if sorted(idx) != list(range(n)):
                    self.problems.append(('swap_index %s is not a permutation' % idx, dict(chain=ci)))
                    continue
                if any(idx[t] < t - 1 for t in range(n)):
                    self.problems.append(('swap_index %s moves a colder state up more than one level' % idx, dict(chain=ci)))
                # adjacent exchanges hot -> cold reproduce idx
                sim = list(range(n))
                for tk in range(n - 1, 0, -1):
                    if idx[tk] == tk - 1:
                        sim[tk], sim[tk - 1] = sim[tk - 1], sim[tk]
                        self.flags['swap_yes'] = True
                    else:
                        self.flags['swap_no'] = True
                if sim != idx:
                    self.problems.append(('swap_index %s does not arise from adjacent exchanges made from the hottest pair down' % idx,
                                          dict(chain=ci)))
                for t in range(n):
                    b, a = r['before'][idx[t]], r['after'][t]
                    for key in ('pos', 'stats', 'blob', 'active'):
                        if struct_diff(a[key], b[key]):
                            self.problems.append(('after the sweep level %d does not hold the %s that level swap_index[%d]=%d held before'
                                                  % (t, key, t, idx[t]), dict(chain=ci, iteration=r['iteration'], swap_index=idx,
                                                                              before=repr(b[key]), after=repr(a[key]))))
                    if struct_diff(r['after'][t]['acc'], r['before'][t]['acc']):
                        self.problems.append(('the sweep exchanged/changed the acceptance record of level %d' % t,
                                              dict(chain=ci, iteration=r['iteration'])))
                if any(idx[t] != t for t in range(n)) and any(idx[t] == t for t in range(n)):
                    self.out.nontrivial.add(repr((cfg.describe(), r['iteration'], idx)))
            # rows: exactly one row per sweep since the last clear, in order
            lastclear = ch.lastclear
            since = [r for r in sws if r['iteration'] > lastclear and r['iteration'] <= ch.iteration]
            # (after a set_state the iteration counter may repeat; only count sweeps after the last clear/set_state event)
            since = since[-len([i for i in range(lastclear + 1, ch.iteration + 1) if i % cfg.si == 0]):] if since else []
            if cfg.ntemps == 1:
                # documented: no swap history with a single temperature
                if ch.temperature_swaps is not None or ch.temperature_acceptance is not None or since:
                    self.problems.append(('a single-temperature chain reports a swap history', dict(chain=ci)))
                continue
            try:
                ts = ch.temperature_swaps.T
                ta = ch.temperature_acceptance.T
            except Exception as e:       # noqa
                self.problems.append(('temperature_swaps raised %r' % e, dict(chain=ci)))
                continue
            want_rows = [tuple(int(x) for x in r['swap_index']) for r in since]
            got_rows = [tuple(int(x) for x in row) for row in ts]
            if want_rows != got_rows:
                detail = dict(chain=ci, swap_interval=cfg.si, lastclear=lastclear, iteration=ch.iteration,
                              sweeps_since_clear=len(want_rows), rows_visible=len(got_rows))
                if lastclear % cfg.si != 0 and got_rows == want_rows[:len(got_rows)]:
                    self.known.append(('swap_rows_by_count', detail))
                    self.flags['clear_nonmultiple_then_sweep'] = True
                else:
                    self.problems.append(('swap history does not hold exactly one row per sweep since the last clear '
                                          '(%d sweeps, %d rows visible)' % (len(want_rows), len(got_rows)), detail))
            else:
                want_acc = [tuple(float(x) for x in r['ars']) for r in since]
                got_acc = [tuple(float(x) for x in numpy.atleast_1d(row)) for row in ta]
                if struct_diff(want_acc, got_acc):
                    self.problems.append(('temperature_acceptance rows are not the sweeps\' acceptance ratios', dict(chain=ci)))


def witness_swap_rows():
    """The stored witness of the open finding swap_rows_by_count (D3), run on the real code:
    swap_interval=3, run 4, clear, run 2 -> one sweep since the clear; how many rows are visible?"""
    from epsie.samplers import ParallelTemperedSampler
    from ..models import GaussModel
    s = ParallelTemperedSampler(['x'], GaussModel(['x'], log=False), 1, betas=numpy.array([1., .5, .1]), swap_interval=3, seed=11)
    s.start_position = {'x': numpy.zeros((3, 1))}
    s.run(4)
    s.clear()
    s.run(2)
    try:
        rows = s.chains[0].temperature_swaps.shape[1]
    except Exception as e:       # noqa
        return dict(defect=True, observed='temperature_swaps raised %r' % e)
    return dict(defect=rows != 1, observed='%d rows visible, 1 sweep since the clear' % rows)


def run_property(pid, seed, tier):
    thorough = tier == 'thorough'
    rng = random.Random(seed * 104729 + int(pid[1:]))
    out = core.Outcome()
    out.rule = RULES[pid]
    if pid in ('C06', 'C09'):
        w = witness_swap_rows()
        out.variant['swap_rows_by_count'] = not w['defect']
        if w['defect']:
            out.known_hits.append(dict(flag='swap_rows_by_count', what='swap history view hides rows after a clear at a non-multiple '
                                       'of the swap interval', witness=dict(swap_interval=3, ops=['start', 'run 4', 'clear', 'run 2'],
                                                                              observed=w['observed'])))
    ncases = dict(C06=(60, 600), C08=(60, 600), C09=(70, 700), C18=(60, 600))[pid][1 if thorough else 0]
    terms, meta = [], []
    k = 0
    while k < ncases:
        cfg = machine.Config(rng, pt=True if pid == 'C09' else None, thorough=thorough)
        if pid == 'C18' and cfg.prop_kind != 'td' and rng.random() < 0.3:
            cfg.prop_kind = 'cw'
        sched = machine.gen_ops(rng, thorough, allow_setstate=(pid != 'C06'))
        probe = Probe(pid, cfg, out)
        cb = machine.CaseBuilder(cfg, sched, rng.randrange(10 ** 6), probe=probe)
        try:
            ts = cb.run()
        except Exception as e:      # noqa
            import traceback
            out.corr_failures.append(dict(note='harness/implementation exception while building a case',
                                          config=cfg.describe(), schedule=sched, error=traceback.format_exc()[-1500:]))
            k += 1
            continue
        k += 1
        out.evaluations += 1
        for ev in cb.events:
            out.count('op_' + ev['op'][0])
            if ev['raised']:
                out.count('op_raised')
                out.corr_failures.append(dict(note='implementation raised during a legal operation', config=cfg.describe(),
                                              schedule=sched, error=ev['raised']))
        for an in cb.anomalies[:2]:
            out.corr_failures.append(dict(note=an, config=cfg.describe(), schedule=sched))
        out.count('pt' if cfg.pt else 'mh')
        out.count('levels_%d' % cfg.ntemps)
        out.count('si_%d' % cfg.si)
        out.count('blobs' if cfg.blobs else 'noblobs')
        out.count('proposals_' + cfg.prop_kind)
        for t in ts:
            terms.append(t)
            meta.append((cfg, sched))
        # ---- direct oracle of the property on this trace
        if pid == 'C06':
            check_split(cfg, sched, cb, probe, out)
        for what, detail in probe.problems[:3]:
            out.violations.append(dict(what=what, replay=dict(config=cfg.describe(), schedule=sched, detail=detail)))
        for flag, detail in probe.known[:1]:
            if not any(h['flag'] == flag for h in out.known_hits):
                out.known_hits.append(dict(flag=flag, what='swap history view hides rows after a clear at a non-multiple of the swap interval',
                                           witness=dict(config=cfg.describe(), schedule=sched, detail=detail)))
        nontrivial_rule(pid, cfg, sched, probe, out)
        if len(out.samples) < 3:
            out.samples.append(dict(config=cfg.describe(), schedule=sched))
        if len(out.violations) > 5:
            break
    failing = core.run_coq_cases(pid, machine.HEADER, terms, per_file=12)
    for f in failing:
        cfg, sched = meta[f[0]]
        out.corr_failures.append(dict(note='Coq machine and implementation differ after operation %d' % f[1],
                                      config=cfg.describe(), schedule=sched))
    out.count('coq_cases', len(terms))
    return out


def nontrivial_rule(pid, cfg, sched, probe, out):
    runs = [o[1] for o in sched if o[0] == 'run']
    has_clear_mid = any(o[0] == 'clear' for o in sched[2:])
    key = repr((cfg.describe(), sched))
    if pid == 'C06':
        if len(set(runs)) >= 2 and has_clear_mid:
            out.nontrivial.add(key)
    elif pid == 'C08':
        if probe.flags['accept'] and probe.flags['reject']:
            out.nontrivial.add(key)
    elif pid == 'C18':
        if has_clear_mid or any(o[0] in ('setstate', 'fresh') for o in sched) or probe.flags['forced']:
            out.nontrivial.add(key)
    elif pid == 'C09':
        if probe.flags['clear_nonmultiple_then_sweep']:
            out.nontrivial.add(key + 'nonmultiple')


def check_split(cfg, sched, cb, probe, out):
    """C06 direct oracle: the partitioned/cleared run against one uninterrupted run of an identically seeded twin."""
    total = sum(o[1] for o in sched if o[0] == 'run')
    sampler = cb.sampler
    for ci, ch in enumerate(sampler.chains):
        probe.bank(ci, ch)
    twin = cfg.build(None)
    rs = random.Random(cb.rs_seed)
    twin.start_position = cfg.start(rs)
    twin.run(total)
    tprobe = Probe('C06', cfg, out)
    tprobe.segments = [dict(levels=[dict(pos=[], stats=[], acc=[], blobs=[]) for _ in range(cfg.ntemps)], sw=[])
                       for _ in range(cfg.nchains)]
    for ci, ch in enumerate(twin.chains):
        tprobe.bank(ci, ch)
    for ci in range(cfg.nchains):
        a, b = probe.segments[ci], tprobe.segments[ci]
        for t in range(cfg.ntemps):
            for key in ('pos', 'stats', 'acc', 'blobs'):
                d = struct_diff(a['levels'][t][key], b['levels'][t][key])
                if d:
                    out.violations.append(dict(what='partitioned/cleared run differs from the uninterrupted run in %s of level %d: %s' % (key, t, d),
                                               replay=dict(config=cfg.describe(), schedule=sched, chain=ci)))
                    return
        if struct_diff(a['sw'], b['sw']):
            clears = probe.clears_at
            if cfg.si > 1 and any(c % cfg.si != 0 for c in clears) and len(a['sw']) < len(b['sw']):
                if not any(h['flag'] == 'swap_rows_by_count' for h in out.known_hits):
                    out.known_hits.append(dict(flag='swap_rows_by_count',
                                               what='swap history loses rows when clear() happens at a non-multiple of the swap interval',
                                               witness=dict(config=cfg.describe(), schedule=sched, rows_partitioned=len(a['sw']),
                                                            rows_uninterrupted=len(b['sw']))))
            else:
                out.violations.append(dict(what='swap history of the partitioned/cleared run differs from the uninterrupted run',
                                           replay=dict(config=cfg.describe(), schedule=sched, chain=ci,
                                                       rows_partitioned=len(a['sw']), rows_uninterrupted=len(b['sw']))))
                return
        ca, cbb = sampler.chains[ci], twin.chains[ci]
        if ca.iteration != cbb.iteration:
            out.violations.append(dict(what='iteration counts differ', replay=dict(config=cfg.describe(), schedule=sched)))
        for attr in ('current_position', 'current_stats', 'current_blob'):
            if struct_diff(getattr(ca, attr), getattr(cbb, attr)):
                out.violations.append(dict(what='%s differs between partitioned and uninterrupted run' % attr,
                                           replay=dict(config=cfg.describe(), schedule=sched)))
    if struct_diff(strip_rs(sampler.state), strip_rs(twin.state)) or struct_diff(sampler.state, twin.state):
        out.violations.append(dict(what='final sampler.state differs between partitioned and uninterrupted run: '
                                        + struct_diff(sampler.state, twin.state),
                                   replay=dict(config=cfg.describe(), schedule=sched)))


def strip_rs(x):
    return x


def replay(pid, payload):
    r = payload.get('replay') or payload.get('witness') or {}
    print('replay of %s: configuration %s' % (pid, r.get('config')))
    print('schedule:', r.get('schedule'))
    print('detail:', r.get('detail'))
    print('(re-run `./check %s` with the same VERIF_SEED to regenerate the trace; the configuration above is self-contained: '
          'harness.machine.Config fields + schedule)' % pid)
    return 0
