"""C05 - resuming from a saved state continues exactly as the uninterrupted run."""
import copy
import os
import pickle
import random
import subprocess
import sys
import tempfile

import numpy

from .. import core, machine, configs as C
from .. import alias as A
from ..compare import struct_diff

ASSUMPTIONS = [
    "the machine takes proposals, model outputs and accept/swap decisions as inputs (oracle stream); what a proposal's state must "
    "contain is modelled separately as a family table (PropState.v) compared with the live classes on every run",
    "scipy frozen distributions (the _proposal attribute) are compared through their parameters",
    "pickle round-trips (protocol default); the fresh sampler is built by the same constructor call with another seed and no start position",
]
TABLE_HEADER = ('From Coq Require Import String List.\nFrom Epsie Require Import PropState Exec.ExecC05.\n'
                'Import ListNotations.\nOpen Scope string_scope.')


# ---------------------------------------------------------------------------------------------
# (1) direct oracle: resume at cut points vs the uninterrupted run
def history(s, pt, lo, hi):
    """records lo..hi (iterations since the last clear) of every array the sampler exposes"""
    out = {}
    for name in ('positions', 'stats', 'acceptance', 'blobs'):
        arr = getattr(s, name)
        if arr is None:
            continue
        if isinstance(arr, dict):
            out[name] = {k: numpy.asarray(v)[..., lo:hi] for k, v in arr.items()}
        else:
            out[name] = numpy.asarray(arr)[..., lo:hi]
    return out


def swap_rows(s, pt):
    if not pt:
        return None
    out = []
    for ch in s.chains:
        try:
            out.append((numpy.array(ch.temperature_swaps), numpy.array(ch.temperature_acceptance)))
        except Exception as e:       # noqa
            out.append(repr(e))
    return out


def ladders(s, pt):
    if not pt:
        return None
    return [[float(b) for b in ch.betas] for ch in s.chains]


def resume_case(cfg, cuts, N, out, roundtrip='pickle'):
    """Returns a violation dict or None."""
    ref = C.build(cfg)
    ref.start_position = C.start_position(cfg)
    ref.run(N)
    s = C.build(cfg)
    s.start_position = C.start_position(cfg)
    pos = 0
    seedshift = 0
    for cut in list(cuts) + [N]:
        n = cut - pos
        s.run(n)
        lo = len_since_clear(s) - n
        got = history(s, cfg['pt'], lo, lo + n)
        want = history(ref, cfg['pt'], pos, cut)
        d = struct_diff(got, want)
        if d:
            return dict(what='iterations %d..%d of the resumed run differ from the uninterrupted run: %s' % (pos + 1, cut, d),
                        replay=dict(config=cfg, cuts=list(cuts), N=N, roundtrip=roundtrip))
        pos = cut
        out.evaluations += 1
        if cut == N:
            break
        st = s.state
        if roundtrip == 'late':
            # the state object is held while the sampler it came from runs on, and is serialised only then
            s.run(3)
            st = pickle.loads(pickle.dumps(st))
        elif roundtrip == 'pickle':
            st = pickle.loads(pickle.dumps(st))
        elif roundtrip == 'subprocess':
            st = through_subprocess(st)
        seedshift += 7919
        fresh = C.build(cfg, seed=cfg['seed'] + seedshift)          # other seed, no start position
        try:
            fresh.set_state(st)
        except Exception as e:     # noqa
            return dict(what='set_state on a fresh sampler raised %r at cut %d' % (e, cut),
                        replay=dict(config=cfg, cuts=list(cuts), N=N, roundtrip=roundtrip))
        s = fresh
    d = struct_diff(s.state, ref.state)
    if d:
        return dict(what='final state of the resumed run differs from the uninterrupted run: %s' % d,
                    replay=dict(config=cfg, cuts=list(cuts), N=N, roundtrip=roundtrip))
    d = struct_diff(ladders(s, cfg['pt']), ladders(ref, cfg['pt']))
    if d:
        return dict(what='temperature ladder of the resumed run differs from the uninterrupted run: %s' % d,
                    replay=dict(config=cfg, cuts=list(cuts), N=N, roundtrip=roundtrip))
    return None


def ladder_restore_case(rng, out):
    """a saved ladder is restored as saved, whatever it looks like: with a finite hottest temperature the annealer can take the second-hottest
    beta below the fixed hottest one for an iteration, so a saved ladder need not be ordered"""
    import numpy
    from epsie.samplers import ParallelTemperedSampler
    from epsie.chain.ptchain import DynamicalAnnealer
    from ..models import GaussModel
    nt, nch = rng.choice([4, 5]), rng.choice([1, 2])
    betas = [1.0] + sorted([round(rng.uniform(0.2, 0.9), 3) for _ in range(nt - 2)], reverse=True) + [0.1]

    def build(seed):
        smp = ParallelTemperedSampler(['x'], GaussModel(['x'], sigma=1.0, log=False), nch, betas=numpy.array(betas), swap_interval=1,
                                      adaptive_annealer=DynamicalAnnealer(tau=20, nu=2, Tmax_prior=False), seed=seed)
        return smp
    s = build(3)
    s.start_position = {'x': numpy.full((nt, nch), 0.2)}
    s.run(3)
    st = pickle.loads(pickle.dumps(s.state))
    want = []
    for ci in range(nch):
        lad = numpy.array(st[ci]['betas'], dtype=float)
        lad[-2] = lad[-1] * 0.8                       # the second-hottest level has overshot the fixed hottest one
        st[ci]['betas'] = lad
        want.append([float(b) for b in lad])
    fresh = build(4)
    fresh.set_state(pickle.loads(pickle.dumps(st)))
    out.evaluations += 1
    out.count('ladder_restore_cases')
    for ci, ch in enumerate(fresh.chains):
        got = [float(b) for b in ch.betas]
        lv = [float(c.beta) for c in ch.chains]
        if got != want[ci] or lv != want[ci]:
            return dict(what='a saved ladder %s was restored as %s (levels sample at %s)' % (want[ci], got, lv),
                        replay=dict(kind='ladder_restore', betas=betas, saved=want[ci], restored=got, level_betas=lv))
    return None


def len_since_clear(s):
    ch = s.chains[0]
    return len(ch)


def through_subprocess(st):
    """state -> pickle file -> a new interpreter loads and re-dumps it -> back"""
    with tempfile.TemporaryDirectory(dir='/var/tmp') as d:
        a, b = os.path.join(d, 'a.pkl'), os.path.join(d, 'b.pkl')
        with open(a, 'wb') as f:
            pickle.dump(st, f)
        code = "import pickle,sys; s=pickle.load(open(sys.argv[1],'rb')); pickle.dump(s, open(sys.argv[2],'wb'))"
        subprocess.run([sys.executable, '-c', code, a, b], check=True, env=dict(os.environ, PYTHONPATH='/repo'))
        with open(b, 'rb') as f:
            return pickle.load(f)


def is_known_annealer(cfg):
    return cfg['pt'] and cfg.get('annealer') is not None


# ---------------------------------------------------------------------------------------------
# (2) family table vs live classes
def enc_attr(v):
    """encoding of an attribute value that ignores object identity"""
    try:
        from scipy.stats._distn_infrastructure import rv_frozen
        from scipy.stats._multivariate import multi_rv_frozen
        if isinstance(v, rv_frozen):
            return ('frozen', type(v.dist).__name__, A.contents(list(v.args)), A.contents(dict(v.kwds)))
        if isinstance(v, multi_rv_frozen):
            return ('mfrozen', type(v).__name__, A.contents([numpy.asarray(getattr(v, 'mean', 0)), numpy.asarray(getattr(v, 'cov', 0))]))
    except Exception:     # noqa
        pass
    if isinstance(v, (list, tuple)) and v and any('frozen' in type(x).__name__ for x in v):
        return [enc_attr(x) for x in v]
    try:
        return A.contents(v)
    except Exception:     # noqa
        return repr(v)


def vars_enc(p):
    out = {}
    for k, v in vars(p).items():
        if k in ('_random_generator',):
            continue
        if k == '_bit_generator':
            out['bit_generator'] = A.contents(p.random_state)
            continue
        out[k] = enc_attr(v)
    return out


IGNORED_ATTRS = {'transdimensional'}          # set by the chain on its proposals, constant


def table_case(name, rng, out, k=None):
    mk = C.ALL[name]
    T, k, start = rng.choice([6, 12]), k or rng.choice([1, 2]), rng.choice([1, 2])
    cfg = dict(kind='family', family=name, pt=False, ntemps=1, nchains=1, si=1, blobs=False, sigma=1.0, seed=rng.randrange(1, 10 ** 6),
               T=T, k=k, start=start, annealer=None, mixseed=rng.randrange(10 ** 6))
    s = C.build(cfg)
    s.start_position = C.start_position(cfg)
    pr = s.chains[0].proposal_dist.proposals[0]
    v0 = vars_enc(pr)
    n = rng.choice([5, 9, 14]) if k == 1 else rng.choice([5, 7, 13])       # a slow proposal is left inside a cycle of its interval
    s.run(n)
    if hasattr(pr, '_reset_adaptation') and rng.random() < 0.3:
        s.chains[0].reset_proposals()
        r = 3
        while k > 1 and (n + r) % k == 0:
            r += 1
        s.run(r)
    v1 = vars_enc(pr)
    changed = sorted(a for a in v1 if v0.get(a) != v1[a] and a not in IGNORED_ATTRS)
    keys = sorted(pr.state.keys())
    q = mk(T, k, start)
    q.bit_generator = numpy.random.PCG64(12345)
    q.set_state(pickle.loads(pickle.dumps(pr.state)))
    vq = vars_enc(q)
    differ = sorted(a for a in v1 if vq.get(a) != v1[a] and a not in IGNORED_ATTRS)
    out.evaluations += 1
    out.count('table_cases')
    sl = lambda xs: core.clist(['"%s"' % x for x in xs])       # noqa
    return '("%s", %s, %s, %s)' % (C.SPEC[name], sl(keys), sl(changed), sl(differ)), dict(family=name, keys=keys, changed=changed, differ=differ)


# ---------------------------------------------------------------------------------------------
def gen_resume_ops(rng, thorough):
    """machine schedule made of runs and resumes into fresh samplers"""
    ops = [('start',)]
    nst = 0
    ops.append(('run', rng.choice([1, 2, 3, 5])))
    for _ in range(rng.randrange(1, 4 if not thorough else 6)):
        ops.append(('getstate',))
        nst += 1
        ops.append((rng.choice(['fresh', 'fresh', 'setstate']), nst - 1))
        ops.append(('run', rng.choice([1, 2, 3, 4, 6])))
        if rng.random() < 0.2:
            ops.append(('clear',))
    return ops


def run(seed, tier):
    thorough = tier == 'thorough'
    rng = random.Random(seed * 15485863 + 5)
    out = core.Outcome()
    out.rule = ("(a) real samplers of every proposal family (8 non-adaptive, 20 adaptive variants with short adaptation windows, slow "
                "parameters, joint mixes, transdimensional with three birth laws), MH and PT (2-4 levels, swap interval 1-3), blobs, fixed "
                "and annealed ladders: run to a cut point, pickle the state, load into a freshly built sampler with another seed and no "
                "start, run on - chains of 1-3 resumes - every segment and the final state against ONE uninterrupted run "
                "(thorough: every cut point 1..N-1 and a new interpreter); (b) machine correspondence on resume-heavy schedules "
                "(Machine.v set_state/get_state); (c) the family table of PropState.v against the live classes: keys of state, attributes "
                "changing while running, attributes differing after a restore into a fresh object. "
                "non-trivial = cut inside an adaptation window / slow-parameter cycle / between two sweeps; distinct = (configuration, cuts)")
    # ---- (c) table
    terms, metas = [], []
    for name in sorted(C.ALL):
        for kk in ([1, 2, 3, None] if thorough else [1, rng.choice([2, 3])]):
            t, m = table_case(name, rng, out, k=kk)
            terms.append(t)
            metas.append(m)
    failing = core.run_coq_cases('C05', TABLE_HEADER, terms, per_file=200, tag='table')
    codes = {1: 'family unknown to the table', 2: 'state keys differ from the table', 3: 'an attribute changes while running that the table does not list',
             4: 'a dynamic attribute differs after set_state(state) into a fresh object'}
    for f in failing[:10]:
        out.corr_failures.append(dict(note='family table (PropState.v) and live class disagree: ' + codes.get(f[1], '?'), case=metas[f[0]]))
    # ---- (a) direct oracle
    known_annealer = None
    ncfg = 260 if thorough else 70
    for i in range(ncfg):
        cfg = C.gen(rng)
        if i % 9 == 0:
            cfg = C.gen(rng, kind='td')
        N = rng.choice([8, 12, 18] if not thorough else [14, 24, 30])
        if thorough and i % 4 == 0:
            cutsets = [[c] for c in range(1, N)]
        else:
            cutsets = []
            for _ in range(2 if not thorough else 3):
                ncut = rng.choice([1, 1, 2, 3])
                cutsets.append(sorted(rng.sample(range(1, N), min(ncut, N - 1))))
        for cuts in cutsets:
            rt = 'subprocess' if (thorough and rng.random() < 0.05) else ('late' if rng.random() < 0.3 else 'pickle')
            try:
                v = resume_case(cfg, cuts, N, out, roundtrip=rt)
            except Exception as e:      # noqa
                import traceback
                out.corr_failures.append(dict(note='real sampler raised %r' % (e,), case=dict(config=cfg, cuts=cuts, N=N),
                                              traceback=traceback.format_exc()[-1200:]))
                break
            out.count('resume_cases')
            out.count('kind_' + cfg['kind'])
            out.count('pt' if cfg['pt'] else 'mh')
            out.count('resumes_%d' % len(cuts))
            if cfg.get('annealer'):
                out.count('annealed_ladder')
            if any((c < cfg['T'] * cfg['k']) or (cfg['si'] > 1 and c % cfg['si'] != 0) for c in cuts):
                out.nontrivial.add(repr((cfg, cuts)))
            if v:
                if is_known_annealer(cfg):
                    if known_annealer is None:
                        known_annealer = v
                else:
                    out.violations.append(v)
                break
        if len(out.violations) >= 4:
            break
        if len(out.samples) < 2:
            out.samples.append(dict(config=cfg, cutsets=cutsets[:2], N=N))
    # ---- (a') every family once more as a slow proposal (jump interval 2 or 3), cut inside a cycle of the interval: the phase
    # of the clock is part of the state
    for i, name in enumerate(sorted(C.ALL)):
        if len(out.violations) >= 4:
            break
        cfg = C.gen(rng, kind='family', allow_annealer=False)
        cfg['family'] = name
        cfg['k'] = rng.choice([2, 3])
        cfg['T'] = rng.choice([4, 8])
        N = 14
        cut = rng.choice([c for c in range(1, N) if c % cfg['k'] != 0])
        try:
            v = resume_case(cfg, [cut], N, out, roundtrip='late' if i % 2 else 'pickle')
        except Exception as e:      # noqa
            import traceback
            out.corr_failures.append(dict(note='real sampler raised %r' % (e,), case=dict(config=cfg, cuts=[cut], N=N),
                                          traceback=traceback.format_exc()[-1200:]))
            continue
        out.count('resume_cases')
        out.count('slow_phase_cases')
        out.nontrivial.add(repr((cfg, [cut])))
        if v:
            out.violations.append(v)
    for _ in range(6 if thorough else 2):
        v = ladder_restore_case(rng, out)
        if v:
            out.violations.append(v)
            break
    if known_annealer is not None:
        out.variant['pt_state_has_ladder'] = False
        out.known_hits.append(dict(flag='pt_state_has_ladder', what=known_annealer['what'], witness=known_annealer['replay']))
    # ---- (b) machine correspondence on resume schedules
    mterms, mmeta = [], []
    for i in range(120 if thorough else 24):
        cfg = machine.Config(rng, thorough=thorough)
        sched = gen_resume_ops(rng, thorough)
        cb = machine.CaseBuilder(cfg, sched, rng.randrange(10 ** 6))
        try:
            ts = cb.run()
        except Exception as e:      # noqa
            import traceback
            out.corr_failures.append(dict(note='harness/implementation exception while building a machine case',
                                          config=cfg.describe(), schedule=sched, error=traceback.format_exc()[-1200:]))
            continue
        for ev in cb.events:
            if ev['raised']:
                out.corr_failures.append(dict(note='implementation raised during a legal operation', config=cfg.describe(),
                                              schedule=sched, error=ev['raised']))
        out.evaluations += 1
        out.count('machine_cases')
        for t in ts:
            mterms.append(t)
            mmeta.append((cfg, sched))
    failing = core.run_coq_cases('C05', machine.HEADER, mterms, per_file=12, tag='machine')
    for f in failing[:10]:
        cfg, sched = mmeta[f[0]]
        out.corr_failures.append(dict(note='Coq machine and implementation differ after operation %d' % f[1],
                                      config=cfg.describe(), schedule=sched))
    out.count('coq_table_cases', len(terms))
    out.count('coq_machine_cases', len(mterms))
    return out


def replay(payload):
    print(payload.get('what'))
    rp = payload.get('replay') or payload.get('witness') or {}
    if 'config' in rp and 'cuts' in rp:
        out = core.Outcome()
        v = resume_case(rp['config'], rp['cuts'], rp['N'], out, rp.get('roundtrip', 'pickle'))
        print('on the current tree:', v['what'] if v else 'no violation')
        return 1 if v else 0
    print(rp)
    return 0
