"""C13 - adaptation follows acceptance in the documented direction and then stops."""
import random

from .. import core, adapt, adaptm

ASSUMPTIONS = [
    "the adaptation is driven through prop.update(stub chain): the stub provides exactly what _update reads (last acceptance record, "
    "current position); for the componentwise Andrieu-Thoms variants also the model, the current statistics, the proposed position and "
    "_acceptance_ratio, whose value for each virtual move is scripted (the oracle input `ars` of AdaptM.atc_update / atcf_update) and "
    "whose out-of-prior virtual moves (logp = -inf) must count as ratio 0",
    "the eigendecomposition of the adaptive eigenvector proposals (numpy.linalg.eigh) is not modelled: the covariance and mean recursion "
    "and the log-scale are; the eigenvalues are checked directly against eigh(cov) * exp(log_lambda)",
    "FloatLib exp/ln/sqrt agree with numpy to 1e-9",
]
MODELLED = ('veitch', 'ss', 'at', 'eig', 'kappa')


def struct_same(a, b, skip=('nsteps',)):
    return all(a[k] == b[k] for k in a if k not in skip)


def check_step(kind, b, a, info, problems):
    """The documented direction and the freeze, on one real update."""
    if a is None:
        return
    if not info['called']:
        if not struct_same(b, a):
            problems.append('adaptation state changed on an iteration where the proposal does not jump')
        return
    T = b.get('T')
    dk = b['nsteps'] - b['start'] + 1
    sv0, sv1 = adapt.scale_vars(kind, b), adapt.scale_vars(kind, a)
    if kind in ('ss', 'ss_cov'):
        niter = b['nsteps'] - (b['start'] - 1) + 1
        rate = a['nacc'] / niter
        if rate > b['target'] and any(y < x for x, y in zip(sv0, sv1)):
            problems.append('cumulative acceptance rate %.3f above target %.3f narrowed the proposal (%s -> %s)' % (rate, b['target'], sv0, sv1))
        if rate < b['target'] and any(y > x for x, y in zip(sv0, sv1)):
            problems.append('cumulative acceptance rate %.3f below target %.3f widened the proposal (%s -> %s)' % (rate, b['target'], sv0, sv1))
        return
    if dk >= T:
        if not struct_same(b, a):
            problems.append('proposal distribution changed after the adaptation duration (dk=%d >= %d): %s -> %s'
                            % (dk, T, {k: b[k] for k in b if b[k] != a[k]}, {k: a[k] for k in b if b[k] != a[k]}))
        return
    lo = 1 if kind == 'veitch' else 2
    if dk < lo:
        if not struct_same(b, a):
            problems.append('proposal distribution changed before the adaptation window (dk=%d)' % dk)
        return
    if kind == 'veitch':
        up = info['accepted']
        if up and any(y < x for x, y in zip(sv0, sv1)):
            problems.append('an accepted step narrowed the proposal: %s -> %s (dk=%d)' % (sv0, sv1, dk))
        if not up and any(y > x for x, y in zip(sv0, sv1)):
            problems.append('a rejected step widened the proposal: %s -> %s (dk=%d)' % (sv0, sv1, dk))
    else:
        ar, t = info['ar'], b['target']
        if ar > t and not all(y > x for x, y in zip(sv0, sv1)):
            problems.append('acceptance ratio %.3f above target %.3f did not widen the proposal (scale variable %s -> %s, dk=%d)'
                            % (ar, t, sv0, sv1, dk))
        if ar < t and not all(y < x for x, y in zip(sv0, sv1)):
            problems.append('acceptance ratio %.3f below target %.3f did not narrow the proposal (scale variable %s -> %s, dk=%d)'
                            % (ar, t, sv0, sv1, dk))


def check_mstep(kind, b, a, info, problems):
    """direction per component / globally, freezing of the whole state, eigenvalues consistent with the covariance"""
    if a is None:
        return
    if not info['called']:
        if not struct_same(b, a):
            problems.append('adaptation state changed on an iteration where the proposal does not jump')
        return
    if kind == 'ssc':
        # no end of adaptation; the covariance widens (narrows) in every direction when the cumulative rate is above (below) target
        import numpy
        niter = b['nsteps'] - (b['start'] - 1) + 1
        rate = a['nacc'] / niter
        d = numpy.asarray(a['cov']) - numpy.asarray(b['cov'])
        w = numpy.linalg.eigvalsh((d + d.T) / 2)
        tol = 1e-12 * abs(numpy.asarray(b['cov'])).max()
        if rate > b['target'] and w.min() < -tol:
            problems.append('cumulative acceptance rate %.3f above target %.3f narrowed the proposal in some direction (%s -> %s)' % (rate, b['target'], b['cov'], a['cov']))
        if rate < b['target'] and w.max() > tol:
            problems.append('cumulative acceptance rate %.3f below target %.3f widened the proposal in some direction (%s -> %s)' % (rate, b['target'], b['cov'], a['cov']))
        if b['cap'] is not None and abs(numpy.asarray(a['cov'])).max() > max(b['cap'] ** 2, abs(numpy.asarray(b['cov'])).max()) * (1 + 1e-12):
            problems.append('covariance entry above max_std**2 = %r: %s' % (b['cap'] ** 2, a['cov']))
        return
    T, t = b['T'], b['target']
    dk = b['nsteps'] - b['start'] + 1
    if dk >= T or dk < 2:
        if not struct_same(b, a):
            ch = [q for q in b if b[q] != a[q] and q != 'nsteps']
            problems.append('proposal distribution changed outside the adaptation window (dk=%d, duration %d): %s' % (dk, T, ch))
        return
    if kind in ('at_cw', 'at_cwf'):
        for i, (ar, l0, l1) in enumerate(zip(info['ars'], b['loglam'], a['loglam'])):
            if ar > t and not l1 > l0:
                problems.append('component %d: virtual-move acceptance ratio %.3f above target %.3f did not widen it (log-scale %r -> %r, dk=%d)'
                                % (i, ar, t, l0, l1, dk))
            if ar < t and not l1 < l0:
                problems.append('component %d: virtual-move acceptance ratio %.3f below target %.3f did not narrow it (log-scale %r -> %r, dk=%d)'
                                % (i, ar, t, l0, l1, dk))
        # each virtual move changes exactly its own parameter to the proposed value
        for i, v in enumerate(info['virtual']):
            keys = sorted(v)
            want = [info['proposed'][j] if j == i else info['x'][j] for j in range(len(keys))]
            if [v[q] for q in keys] != want:
                problems.append('virtual move %d evaluated the model at %s, expected %s' % (i, [v[q] for q in keys], want))
    else:
        ar = info['ar']
        if ar > t and not a['loglam'] > b['loglam']:
            problems.append('acceptance ratio %.3f above target %.3f did not raise the log-scale (%r -> %r, dk=%d)' % (ar, t, b['loglam'], a['loglam'], dk))
        if ar < t and not a['loglam'] < b['loglam']:
            problems.append('acceptance ratio %.3f below target %.3f did not lower the log-scale (%r -> %r, dk=%d)' % (ar, t, b['loglam'], a['loglam'], dk))
    if kind == 'eigc':
        import numpy
        w = numpy.linalg.eigvalsh(numpy.asarray(a['cov'])) * numpy.exp(a['loglam'])
        if not numpy.allclose(sorted(a['eigvals']), sorted(w), rtol=1e-9, atol=1e-300):
            problems.append('jump scales %s are not the eigenvalues of the covariance times exp(log_lambda) %s' % (a['eigvals'], list(w)))


def matrix_variants(out, rng, thorough):
    """componentwise / full-covariance Andrieu-Thoms and the eigenvector covariance recursion against AdaptM.v"""
    terms, meta = [], []
    hists = ['always', 'never', 'alternate', 'high', 'low', 'random']
    for rep in range(4 if thorough else 1):
        for name in sorted(adaptm.MFAMILIES):
            for hk in hists:
                T = rng.choice([8, 15, 40] if not thorough else [8, 15, 40, 120])
                k = rng.choice([1, 1, 2, 3])
                start = rng.choice([1, 1, 2, 5])
                n = int((T + start + 6) * k * rng.choice([0.6, 1.2])) + 3
                hist = adapt.history(hk, n, rng)
                reset_at = rng.randrange(2 * k, max(2 * k + 1, n - 2)) if rng.random() < 0.3 else None
                roundtrip_at = rng.randrange(1, n - 1) if rng.random() < 0.4 else None
                blobs = rng.random() < 0.3
                desc = dict(proposal=name, adaptation_duration=T, jump_interval=k, start_step=start, history=hk, steps=n,
                            reset_before_step=reset_at, state_roundtrip_before_step=roundtrip_at, chain_has_blobs=blobs, matrix_variant=True)
                problems = []
                own = dict(start=start)

                def on_step(kind, b, a, info):
                    out.evaluations += 1
                    out.count('family_m_' + name)
                    if info['error'] is not None:
                        problems.append('update raised %r' % (info['error'],))
                        return
                    check_mstep(kind, b, a, info, problems)
                    i = info['i']
                    if reset_at is not None and i == reset_at:
                        own['start'] = max(i // k, 1)
                    own_dk = i // k - own['start'] + 1
                    if kind != 'ssc' and own_dk >= T and not struct_same(b, a, skip=('nsteps', 'start')):
                        problems.append('proposal distribution changed %d proposal steps after its adaptation window started (duration %d)'
                                        % (own_dk, T))
                    if info['called']:
                        terms.append(adaptm.coq_case(kind, b, a, info['ar'], info['ars'], info['x'], accepted=info['accepted']))
                        meta.append(dict(desc, step=i, before=b, after=a, ar=info['ar'], ars=info['ars'], x=info['x']))
                        if kind != 'ssc' and 1 < b['nsteps'] - b['start'] + 1 < b['T']:
                            out.count('matrix_updates_inside_window')
                adaptm.drive(name, T, k, start, hist, hk, rng, on_step, reset_at=reset_at, roundtrip_at=roundtrip_at, blobs=blobs)
                accs = [h[1] for h in hist]
                if any(accs) and not all(accs) and n // k > T + start:
                    out.nontrivial.add(repr(desc))
                for p in problems[:2]:
                    out.violations.append(dict(what='%s: %s' % (name, p), replay=desc))
    failing = core.run_coq_cases('C13', adaptm.HEADER, terms, eval_fn='mfailing', per_file=600, tag='matrix')
    for f in failing[:10]:
        out.corr_failures.append(dict(note='AdaptM model and real _update disagree', case=meta[f[0]]))
    out.count('coq_cases_matrix', len(terms))


def witnesses(out):
    """The stored witness of the open finding D41, re-run on the real code: a Sivia-Skilling proposal with a jump interval, past the
    interval's duration, is updated on every iteration but measures its rate against nsteps = _nsteps // jump_interval."""
    from epsie import proposals as P_
    k, D = 5, 4
    prop = P_.SSAdaptiveNormal(['a'], jump_interval=k, jump_interval_duration=D)
    stub = adapt.StubChain(['a'])
    w0 = float(prop._std[0])
    calls = acc = 0
    for i in range(1200):
        called = prop._call_jump()
        a = (i % 10 == 0)                 # a true acceptance rate of 10%, well below the target of 0.234
        stub.set(1.0 if a else 0.0, a, [0.1])
        prop.update(stub)
        if called:
            calls += 1
            acc += int(a)
    w1 = float(prop._std[0])
    hit = acc / calls < prop.target_rate and w1 > 10 * w0
    out.variant['ss_rate_after_interval_duration'] = not hit
    if hit:
        out.known_hits.append(dict(
            flag='ss_rate_after_interval_duration',
            what='SSAdaptiveNormal(jump_interval=5, jump_interval_duration=4): %d updates with %d acceptances (rate %.3f < target %.3f) '
                 'widened the proposal from %g to %g' % (calls, acc, acc / calls, prop.target_rate, w0, w1),
            witness=dict(jump_interval=k, jump_interval_duration=D, updates=calls, accepted=acc, width_before=w0, width_after=w1,
                         n_accepted=int(prop.n_accepted), n_iter_used=int(prop.nsteps - (prop.start_step - 1) + 1))))


def run(seed, tier):
    thorough = tier == 'thorough'
    rng = random.Random(seed * 334214467 + 13)
    out = core.Outcome()
    witnesses(out)
    out.rule = ("all 18 adaptive classes (Veitch, Sivia-Skilling diagonal/full, Andrieu-Thoms diagonal/full, eigenvector, solid angle and "
                "their bounded/angular/discrete variants) driven through real prop.update() calls with forced histories (always/never "
                "accepted, alternating, high, low, random), durations 8..400, start steps 1..5, jump intervals 1..3; every update is a Coq "
                "case for the float instance of the update and is checked for direction and freezing; the componentwise / full-covariance "
                "Andrieu-Thoms variants (4 + 2 classes, scripted virtual-move ratios, a share of virtual moves out of the prior, chains with "
                "and without blobs) and the covariance / mean recursion of the eigenvector proposals (2 and 3 parameters) likewise against "
                "AdaptM.v, state round trips and resets included; non-trivial = a run that "
                "crosses the end of its adaptation window with >=1 accepted and >=1 rejected step; distinct = distinct (class, T, k, start, history)")
    terms, meta = [], []
    names = sorted(adapt.FAMILIES)
    hists = ['always', 'never', 'alternate', 'high', 'low', 'random']
    nrep = 6 if thorough else 1
    for rep in range(nrep):
        for name in names:
            for hk in hists:
                T = rng.choice([8, 15, 40] if not thorough else [8, 15, 40, 120, 400])
                k = rng.choice([1, 1, 1, 2, 3])
                start = rng.choice([1, 1, 2, 5])
                n = int((T + start + 6) * k * rng.choice([0.6, 1.2])) + 3
                hist = adapt.history(hk, n, rng)
                reset_at = rng.randrange(2 * k, max(2 * k + 1, n - 2)) if rng.random() < 0.35 else None
                roundtrip_at = rng.randrange(1, n - 1) if rng.random() < 0.4 else None
                desc = dict(proposal=name, adaptation_duration=T, jump_interval=k, start_step=start, history=hk, steps=n,
                            reset_before_step=reset_at, state_roundtrip_before_step=roundtrip_at)
                own = dict(start=start)           # the harness's own clock, independent of the proposal's counters
                problems = []
                first = [None]
                last = [None]
                kind0 = adapt.FAMILIES[name][0]

                def on_step(kind, b, a, info):
                    out.evaluations += 1
                    out.count('family_' + name)
                    if info['error'] is not None:
                        out.count('update_raised')        # C14's business
                        return
                    if first[0] is None:
                        first[0] = b
                    last[0] = a
                    check_step(kind, b, a, info, problems)
                    # Sivia-Skilling: the direction against the harness's OWN count of the history since the window (re)started - the
                    # number of updates made and how many of them followed an accepted step - not the proposal's figures
                    if kind in ('ss', 'ss_cov') and info['called'] and start == 1:
                        if reset_at is not None and info['i'] == reset_at:
                            own['calls'] = own['acc'] = 0
                        own['calls'] = own.get('calls', 0) + 1
                        own['acc'] = own.get('acc', 0) + int(bool(info['accepted']))
                        rate = own['acc'] / own['calls']
                        s0_, s1_ = adapt.scale_vars(kind, b), adapt.scale_vars(kind, a)
                        wrong = None
                        if own['calls'] >= 25 and rate < b['target'] - 0.15 and any(y > x for x, y in zip(s0_, s1_)):
                            wrong = 'widened'
                        if own['calls'] >= 25 and rate > b['target'] + 0.15 and any(y < x for x, y in zip(s0_, s1_)):
                            wrong = 'narrowed'
                        if wrong and not own.get('reported'):
                            own['reported'] = True
                            msg = ('update %d: %d of the %d updates since the window started followed an accepted step (rate %.3f, target %.3f) '
                                   'and the proposal was %s (%s -> %s); it measures the rate as %d / %d'
                                   % (info['i'] + 1, own['acc'], own['calls'], rate, b['target'], wrong, s0_, s1_, a['nacc'],
                                      b['nsteps'] - (b['start'] - 1) + 1))
                            if k > 1 and any(h['flag'] == 'ss_rate_after_interval_duration' for h in out.known_hits):
                                out.count('covered_by_known_ss_rate_after_interval_duration')
                            else:
                                problems.append(msg)
                    # freezing by the harness's own count of proposal steps (update calls // jump interval, resets tracked)
                    i = info['i']
                    if reset_at is not None and i == reset_at:
                        own['start'] = max(i // k, 1)
                    own_dk = i // k - own['start'] + 1
                    if kind not in ('ss', 'ss_cov') and own_dk >= T and not struct_same(b, a, skip=('nsteps', 'start')):
                        problems.append('proposal distribution changed %d proposal steps after its adaptation window started (duration %d): %s -> %s'
                                        % (own_dk, T, {q: b[q] for q in b if b[q] != a[q]}, {q: a[q] for q in b if b[q] != a[q]}))
                    if info['called'] and kind in MODELLED:
                        t = adapt.coq_case(kind, b, a, info['accepted'], info['ar'], info['x'])
                        if t:
                            terms.append(t)
                            meta.append(dict(desc, step=info['i'], before=b, after=a, ar=info['ar'], accepted=info['accepted']))
                adapt.drive(name, T, k, start, hist, rng, on_step, reset_at=reset_at, roundtrip_at=roundtrip_at)
                # sustained histories must move the scale strictly in the documented direction
                if first[0] is not None and last[0] is not None and hk in ('always', 'never') and n > 3 * k + start * k and reset_at is None:
                    s0, s1 = adapt.scale_vars(kind0, first[0]), adapt.scale_vars(kind0, last[0])
                    capped = kind0 == 'ss' and first[0].get('cap') is not None
                    if hk == 'always' and not any(y > x for x, y in zip(s0, s1)) and not capped:
                        problems.append('sustained acceptance did not widen the proposal at all: %s -> %s' % (s0, s1))
                    if hk == 'never' and not any(y < x for x, y in zip(s0, s1)):
                        problems.append('sustained rejection did not narrow the proposal at all: %s -> %s' % (s0, s1))
                accs = [h[1] for h in hist]
                if any(accs) and not all(accs) and n // k > T + start:
                    out.nontrivial.add(repr(desc))
                for p in problems[:2]:
                    out.violations.append(dict(what='%s: %s' % (name, p), replay=desc))
                if len(out.samples) < 3:
                    out.samples.append(dict(desc, first_state=first[0], last_state=last[0]))
            if len(out.violations) > 6:
                break
    matrix_variants(out, rng, thorough)
    failing = core.run_coq_cases('C13', adapt.HEADER, terms, per_file=1500)
    for f in failing[:10]:
        out.corr_failures.append(dict(note='adaptation model and real _update disagree', case=meta[f[0]]))
    out.count('coq_cases', len(terms))
    return out


def replay(payload):
    print(payload.get('what'))
    print(payload.get('replay'))
    return 0
