"""C11 - transdimensional moves are reversible for the intended target."""
import math
import random

import numpy
from scipy import stats as sstats
from scipy.special import comb

from epsie.chain import Chain
from epsie.proposals import NestedTransdimensional

from .. import core, dens, configs as C

ASSUMPTIONS = [
    "the per-component birth and in-model log-densities entering the composite density are taken from the real sub-objects at the moment "
    "of the call (that they are the laws of their draws is C02); the index-jump term is recomputed by the model (bd_logpmf1)",
    "numpy's choice(indx, size=d, replace=False) picks each d-subset with equal probability 1/C(len(indx), d) (premise)",
]
HEADER = ('From Coq Require Import ZArith List PrimFloat.\nFrom Epsie Require Import Base FloatLib FloatLib2 Num NumF Dens MH Exec.ExecC02 Exec.ExecC11.\n'
          'Import ListNotations.\nOpen Scope float_scope.\nNotation case := Exec.ExecC11.case.')


def fl(xs):
    return core.clist([core.cfloat(x) for x in xs])


def bl(xs):
    return core.clist([core.cbool(x) for x in xs])


def birth_logpdf_independent(bd, xv):
    """log-density of a birth distribution at xv from its parameters, with scipy - not through its own logpdf()"""
    tot = 0.0
    for p, v in xv.items():
        v = float(v)
        name = type(bd).__name__
        if name.startswith('UniformBirth'):
            lo, hi = float(bd.boundaries[p][0]), float(bd.boundaries[p][1])
            tot += -math.log(hi - lo) if lo <= v <= hi else float('-inf')
        elif name.startswith('NormalBirth'):
            tot += float(sstats.norm.logpdf(v, loc=bd.mu[p], scale=bd.std[p]))
        elif name.startswith('LogNormalBirth'):
            tot += float(sstats.lognorm.logpdf(v, s=bd.std[p], scale=math.exp(bd.mu[p]))) if v > 0 else float('-inf')
        else:
            return None
    return tot


class Tap:
    """records every NestedTransdimensional._logpdf call with its component terms, and every _acceptance_ratio call"""

    def __enter__(self):
        tap = self
        self.lp = []
        self.ar = []
        self.o_lp = NestedTransdimensional._logpdf
        self.o_ar = Chain._acceptance_ratio

        def lp(self_, xi, givenx):
            r = tap.o_lp(self_, xi, givenx)
            births, inmodel, births_ind = [], [], []
            for prop in self_.proposals:
                ps = prop.parameters
                xv = {p: xi[p] for p in ps}
                gv = {p: givenx[p] for p in ps}
                fin_x = all(v == v for v in xv.values())
                fin_g = all(v == v for v in gv.values())
                with numpy.errstate(all='ignore'):
                    births.append(float(prop.birth_distribution.logpdf(xv)) if fin_x else float('-inf'))
                    bi = birth_logpdf_independent(prop.birth_distribution, xv) if fin_x else float('-inf')
                    births_ind.append(births[-1] if bi is None else bi)
                    inmodel.append(float(prop.logpdf(xv, gv)) if (fin_x and fin_g) else float('-inf'))
            tap.lp.append(dict(xi={k: v for k, v in xi.items() if k != '_state'}, given={k: v for k, v in givenx.items() if k != '_state'},
                               xi_state=[bool(x) for x in xi['_state']], given_state=[bool(x) for x in givenx['_state']],
                               births=births, births_ind=births_ind, inmodel=inmodel, value=float(r)))
            return r

        def ar(self_, logp, logl, proposal, current_logp, current_logl, current_pos):
            n0 = len(tap.lp)
            acc, a = tap.o_ar(self_, logp, logl, proposal, current_logp, current_logl, current_pos)
            tap.ar.append(dict(logp=float(logp), logl=float(logl), clogp=float(current_logp), clogl=float(current_logl), beta=float(self_.beta),
                               ar=float(a), accept=bool(acc), calls=tap.lp[n0:]))
            return acc, a
        NestedTransdimensional._logpdf = lp
        Chain._acceptance_ratio = ar
        return self

    def __exit__(self, *a):
        NestedTransdimensional._logpdf = self.o_lp
        Chain._acceptance_ratio = self.o_ar


def index_pmf(succ, lo, hi, std, k, k2):
    """law of the index jump k -> k2, computed independently of the implementation and of the Coq model"""
    Phi = sstats.norm.cdf
    if succ:
        num = Phi((k2 - k + 0.5) / std) - Phi((k2 - k - 0.5) / std)
        den = Phi((hi - k + 0.5) / std) - Phi((lo - k - 0.5) / std)
    else:
        if k2 == k:
            return 0.0
        d = k2 - k
        num = Phi(d / std) - Phi((d - 1) / std) if d > 0 else Phi((d + 1) / std) - Phi(d / std)
        den = Phi((hi - k) / std) - Phi((lo - k) / std)
    return num / den


def expected_ar(rec, succ, lo, hi, std, N):
    """min(1, f(x') C(x) qt(x|x') / (f(x) C(x') qt(x'|x))) with qt the full composite law"""
    calls = rec['calls']
    if len(calls) != 2:
        return None
    rev, fwd = calls[0], calls[1]          # logpdf(current | proposal) is evaluated first, then logpdf(proposal | current)
    cur, prop = fwd['given_state'], fwd['xi_state']
    k, k2 = sum(cur), sum(prop)
    d = abs(k2 - k)
    qf = index_pmf(succ, lo, hi, std, k, k2)
    qr = index_pmf(succ, lo, hi, std, k2, k)
    if k2 > k:
        qf *= 1.0 / comb(N - k, d)
        qr *= 1.0 / comb(k2, d)
    elif k2 < k:
        qf *= 1.0 / comb(k, d)
        qr *= 1.0 / comb(N - k2, d)
    for c in range(N):
        if cur[c] and prop[c]:
            qf *= math.exp(fwd['inmodel'][c])
            qr *= math.exp(rev['inmodel'][c])
        elif (not cur[c]) and prop[c]:
            qf *= math.exp(fwd['births_ind'][c])          # born going forward
        elif cur[c] and not prop[c]:
            qr *= math.exp(rev['births_ind'][c])          # would have to be born on the way back
    if qf == 0:
        return None
    if qr == 0:
        return 0.0           # the reverse move is impossible: the move must never be accepted
    lf = (rec['logp'] + rec['beta'] * rec['logl']) - (rec['clogp'] + rec['beta'] * rec['clogl'])
    lr = lf + math.log(comb(N, k)) - math.log(comb(N, k2)) + math.log(qr) - math.log(qf)
    return min(1.0, math.exp(min(lr, 50.0)))


def run(seed, tier, pid='C11'):
    thorough = tier == 'thorough'
    rng = random.Random(seed * 982451653 + 11)
    out = core.Outcome()
    out.rule = ("real transdimensional chains (2-5 components; index proposal with successive jumps on/off and std 0.7-3 so that births and "
                "deaths of multiplicity 1-4 occur; uniform/normal/log-normal births; four in-model families; MH and PT levels with beta < 1), "
                "one step at a time: both composite log-densities and the recorded acceptance ratio against td_logpdf / bd_logpmf1 / the MH "
                "kernel under vm_compute, and directly against min(1, f(x')C(x)qt(x|x') / (f(x)C(x')qt(x'|x))) computed with scipy and exact "
                "binomials. non-trivial = a step that changes the dimension; distinct = (configuration, iteration)")
    terms, metas = [], []
    nrun = 50 if thorough else 12
    for i in range(nrun):
        cfg = C.gen(rng, kind='td', allow_annealer=False)
        cfg['td_n'] = rng.choice([2, 3, 4, 5])
        if i % 3 == 0:
            # births narrower than the prior: components can sit where no birth can put them, so their death is irreversible
            cfg['birth'], cfg['birth_bounds'] = 'uniform', rng.choice([(1., 3.), (0.5, 2.0)])
        cfg['nchains'] = 1
        cfg['blobs'] = cfg['pt'] and i % 2 == 0        # with blobs the exchange sweep has more to carry along
        cfg['k_bounds_frac'] = i % 2 == 1          # index bounds given as (0.5, N - 0.5): documented to mean 0..N
        kstd = rng.choice([0.7, 1.0, 2.0, 3.0])
        N = cfg['td_n']
        with Tap() as tap:
            s = C.build(cfg)
            for ch in s.chains:
                for lv in (ch.chains if cfg['pt'] else [ch]):
                    td = lv.proposal_dist.proposals[0]
                    td.model_proposal._std = numpy.array([kstd])
            s.start_position = C.start_position(cfg)
            try:
                s.run(40 if thorough else 25)
            except Exception as e:      # noqa
                out.corr_failures.append(dict(note='transdimensional run raised %r' % (e,), case=dict(config=cfg, kstd=kstd)))
                continue
        succ = cfg['successive']
        out.count('runs')
        out.count('births_' + cfg['birth'])
        for it, rec in enumerate(tap.ar):
            if len(rec['calls']) != 2:
                continue
            rev, fwd = rec['calls'][0], rec['calls'][1]
            cur, prop = fwd['given_state'], fwd['xi_state']
            k, k2 = sum(cur), sum(prop)
            out.evaluations += 1
            out.count('dk_%+d' % (k2 - k))
            terms.append('K %s (0)%%Z %s %s %s %s %s %s %s %s %s %s %s %s (%s, %s, %s, %s, %s) %s' % (
                core.cbool(succ), core.cZ(N), core.cfloat(kstd), core.cZ(k), core.cZ(k2), bl(cur), bl(prop),
                fl(fwd['births']), fl(fwd['inmodel']), fl(rev['births']), fl(rev['inmodel']),
                core.cfloat(fwd['value']), core.cfloat(rev['value']),
                core.cfloat(rec['logp']), core.cfloat(rec['logl']), core.cfloat(rec['clogp']), core.cfloat(rec['clogl']), core.cfloat(rec['beta']),
                core.cfloat(rec['ar'])))
            metas.append(dict(config=cfg, kstd=kstd, iteration=it, k=k, k2=k2, current=cur, proposed=prop, ar=rec['ar'],
                              fwd=fwd['value'], rev=rev['value']))
            if k2 != k:
                out.nontrivial.add(repr((cfg['seed'], it)))
            want = expected_ar(rec, succ, 0, N, kstd, N)
            if want is not None and abs(want - rec['ar']) > 1e-8 * max(1.0, want) and len(out.violations) < 4:
                out.violations.append(dict(
                    what='transdimensional step %d -> %d active components of %d (beta %.3g): accepted with probability %.10g, reversibility for '
                         'f/C requires %.10g' % (k, k2, N, rec['beta'], rec['ar'], want),
                    replay=dict(config=cfg, kstd=kstd, iteration=it, current=cur, proposed=prop, recorded=rec['ar'], required=want)))
    failing = core.run_coq_cases(pid, HEADER, terms, per_file=300)
    codes = {1: 'forward composite density', 2: 'reverse composite density', 3: 'acceptance ratio'}
    for f in failing[:10]:
        out.corr_failures.append(dict(note='model and implementation disagree on the ' + codes.get(f[1], '?'), case=metas[f[0]]))
    # the index-jump term of the ratio (bd_logpmf1) is the law of the index proposal's jump: its redraw rule, case by case, with
    # draws on and around the edge cells
    def make(r):
        c = C.gen(r, kind='td', allow_annealer=False)
        c['td_n'] = r.choice([2, 3, 4, 5])
        c['k_bounds_frac'] = r.random() < 0.5
        mp = C.td_proposal(c).model_proposal
        mp._std = numpy.array([r.choice([0.7, 1.0, 2.0, 3.0])])
        mp.bit_generator = numpy.random.PCG64(1)
        return mp, 'k', bool(c['successive']), 0, c['td_n']
    jterms, jmetas = dens.index_jump_cases(rng, out, make, 24 if thorough else 6)
    failing = core.run_coq_cases(pid, dens.HEADER, jterms, per_file=300, tag='indexjump')
    for f in failing[:10]:
        out.corr_failures.append(dict(note='the index proposal does not jump by the redraw rule whose law enters the ratio (bd_jump1 / bd_logpmf1)',
                                      case=jmetas[f[0]]))
    out.count('coq_index_jump_cases', len(jterms))
    out.count('coq_cases', len(terms))
    return out


def replay(payload):
    print(payload.get('what'))
    print(payload.get('replay'))
    return 0
