"""C03 - temperature swaps leave the joint tempered distribution invariant."""
import itertools
import math
import random
from decimal import Decimal, getcontext

import numpy

from epsie.chain import ParallelTemperedChain
from epsie import proposals as P

from .. import core
from ..models import GaussModel
from ..trace import GenTap

getcontext().prec = 50
ASSUMPTIONS = [
    "swap_temperatures() is exercised in isolation: the levels' current log-likelihoods are written into their records by the harness "
    "(its only inputs are the levels' current stats, the betas and the uniforms); uniforms are scripted through the generator tap",
    "FloatLib.fexp agrees with numpy.exp to 1e-9 (it does to 2e-16 on the validation grid)",
]
HEADER = ('From Coq Require Import ZArith List PrimFloat.\nFrom Epsie Require Import Base FloatLib Num NumF SweepNum Exec.ExecC03.\n'
          'Import ListNotations.\nOpen Scope float_scope.')


class Rig:
    """A real parallel-tempered chain whose levels' log-likelihoods and the sweep's uniforms are dictated."""

    def __init__(self, betas, blobs=False, seed=1, via=None, built_with=None):
        self.n = len(betas)
        model = GaussModel(['x'], blobs=blobs, log=False)
        self.pt = ParallelTemperedChain(['x'], model, [P.Normal(['x'])], betas=numpy.array(betas if via is None else built_with, dtype=float),
                                        swap_interval=10 ** 6, bit_generator=None, chain_id=0)
        self.pt.start_position = {'x': numpy.arange(self.n, dtype=float) * 0.1}
        self.pt.step()                      # one record per level; no sweep (huge swap interval)
        if via is not None:
            # the ladder reaches the chain another way than through the constructor: loaded from the state of a chain
            # built with this ladder ('state'), or assigned through the public betas setter ('setter')
            if via == 'state':
                other = ParallelTemperedChain(['x'], model, [P.Normal(['x'])], betas=numpy.array(betas, dtype=float),
                                              swap_interval=10 ** 6, bit_generator=None, chain_id=0)
                other.start_position = {'x': numpy.arange(self.n, dtype=float) * 0.1}
                other.step()
                self.pt.set_state(other.state)
                self.pt.step()
            else:
                self.pt.betas = numpy.array(betas, dtype=float)
        self.betas = [float(b) for b in self.pt.betas]

    def sweep(self, logls, us):
        pt = self.pt
        for t, lv in enumerate(pt.chains):
            lv._stats[0] = {'logl': float(logls[t]), 'logp': -1.0 - t}
            lv._positions[0] = {'x': 100.0 + t}          # tag: which state sits where
            if pt.hasblobs:
                for f_ in lv._blobs.data.dtype.names:
                    lv._blobs.data[f_][0] = 200.0 + t      # and which blob
        script = list(us)
        used = [0]

        def scr(owner, name, a, k, real):
            if name == 'uniform' and not a and not k:
                used[0] += 1
                return script.pop(0) if script else 0.5
            return real(*a, **k)
        with GenTap(script=scr):
            pt.swap_temperatures()
        idx = [int(x) for x in pt._temperature_swaps.data['swap_index'][0]]
        ars = [float(x) for x in numpy.atleast_1d(pt._temperature_acceptance.data['acceptance_ratio'][0])]
        tags = [int(round(float(lv._positions.data[0]['x']) - 100.0)) for lv in pt.chains]
        newl = [float(lv._stats.data[0]['logl']) for lv in pt.chains]
        if pt.hasblobs:
            # the blob travels with the state: a level that does not hold the blob of its new occupant is reported as holding another state
            f0 = pt.chains[0]._blobs.data.dtype.names[0]
            btags = [int(round(float(lv._blobs.data[f0][0]) - 200.0)) for lv in pt.chains]
            if btags != tags:
                tags = [('state %d with the blob of state %d' % (a, b)) if a != b else a for a, b in zip(tags, btags)]
        return idx, ars, used[0], tags, newl


def spec_sweep(betas, logls, us):
    """The property statement, executed exactly (50-digit decimals): adjacent exchanges of the occupants,
    hottest pair first, each accepted iff u <= min(1, (L_a/L_b)^(beta_k - beta_j))."""
    n = len(logls)
    c = list(range(n))
    ars = [None] * (n - 1)
    us = list(us)
    used = 0
    for tk in range(n - 1, 0, -1):
        tj = tk - 1
        la, lb = Decimal(logls[c[tj]]), Decimal(logls[c[tk]])
        logar = (Decimal(betas[tk]) - Decimal(betas[tj])) * (la - lb)
        if logar > 0:
            ar, sw = Decimal(1), True
        else:
            ar = logar.exp()
            u = Decimal(us.pop(0)) if us else Decimal('0.5')
            used += 1
            sw = u <= ar
        ars[tj] = ar
        if sw:
            c[tj], c[tk] = c[tk], c[tj]
    return c, ars, used


def all_paths(rig, logls):
    """Drive the real sweep down every decision path: u = 0 forces an exchange, u just below 1 refuses one
    (a pair with logar >= 0 is exchanged whatever u is)."""
    n = rig.n
    seen = {}
    for bits in itertools.product([0.0, 1.0 - 2 ** -53], repeat=n - 1):
        idx, ars, used, tags, newl = rig.sweep(logls, list(bits))
        key = (tuple(idx), tuple(ars))
        if key not in seen:
            seen[key] = (list(bits), idx, ars, used, tags, newl)
    return list(seen.values())


def gen_logls(rng, n):
    kind = rng.choice(['spread', 'ties', 'close', 'mixed', 'extreme'])
    if kind == 'spread':
        return [round(rng.uniform(-30, 5), 3) for _ in range(n)]
    if kind == 'ties':
        v = round(rng.uniform(-5, 0), 2)
        return [v if rng.random() < 0.6 else round(rng.uniform(-5, 0), 2) for _ in range(n)]
    if kind == 'close':
        b = rng.uniform(-3, 0)
        return [b + rng.uniform(-0.05, 0.05) for _ in range(n)]
    if kind == 'extreme':
        return [rng.choice([-1e4, -700.0, -1e-300, 0.0, -3.5, 50.0]) for _ in range(n)]
    return [rng.choice([-0.5, -1.0, -2.0, -10.0, 0.0]) + rng.choice([0, 0, 1e-9]) for _ in range(n)]


def gen_betas(rng, n):
    mid = sorted([round(rng.uniform(0.02, 0.98), 4) for _ in range(n - 2)], reverse=True)
    return [1.0] + mid + [rng.choice([0.0, 0.0, 0.01, 0.3])]


def coq_case(betas, logls, us, idx, ars, used):
    f = core.cfloat
    return '(%s, %s, %s, (%s%%nat, %s, %d%%nat))' % (
        core.clist([f(b) for b in betas]), core.clist([f(x) for x in logls]), core.clist([f(u) for u in us]),
        core.clist([str(i) for i in idx]), core.clist([f(a) for a in ars]), used)


def invariance_check(rng, out, blobs):
    """Exact sweep kernel on a finite configuration space assembled from real swap_temperatures() calls:
    3 levels x 3 states; Pi K = Pi."""
    betas = gen_betas(rng, 3)
    rig = Rig(betas, blobs=blobs)
    ell = [round(rng.uniform(-4, 0), 2), round(rng.uniform(-4, 0), 2), None]
    ell[2] = ell[0] if rng.random() < 0.4 else round(rng.uniform(-4, 0), 2)         # ties allowed
    pr = [rng.uniform(0.2, 1.0) for _ in range(3)]
    configs = list(itertools.product(range(3), repeat=3))
    Pi = {c: math.prod(pr[s] * math.exp(rig.betas[t] * ell[s]) for t, s in enumerate(c)) for c in configs}
    K = {c: {} for c in configs}
    for c in configs:
        logls = [ell[s] for s in c]
        for bits, idx, ars, used, tags, newl in all_paths(rig, logls):
            # probability of this path: product over pairs of ar (exchanged) or 1-ar (not), in sweep order
            prob = 1.0
            sim = list(range(3))
            for tk in (2, 1):
                tj = tk - 1
                exchanged = idx[tk] == tj if tk == 2 else None
            # recompute decisions from idx by simulation
            cur = list(range(3))
            for tk in (2, 1):
                tj = tk - 1
                want_swap = (idx[tk] == cur[tj])
                a = ars[tj]
                prob *= a if want_swap else (1.0 - a)
                if want_swap:
                    cur[tj], cur[tk] = cur[tk], cur[tj]
            c2 = tuple(c[i] for i in idx)
            K[c][c2] = K[c].get(c2, 0.0) + prob
        out.evaluations += 1
    worst = 0.0
    for c in configs:
        rows = sum(K[c].values())
        if abs(rows - 1.0) > 1e-12:
            return 'sweep kernel row of configuration %s sums to %r' % (c, rows), dict(betas=rig.betas, ell=ell)
    for d in configs:
        lhs = sum(Pi[c] * K[c].get(d, 0.0) for c in configs)
        worst = max(worst, abs(lhs - Pi[d]) / Pi[d])
    out.count('invariance_spaces')
    if worst > 1e-10:
        return ('joint tempered target is not invariant under the real sweep kernel (relative defect %.3g)' % worst,
                dict(betas=rig.betas, logl_of_states=ell, prior_of_states=pr))
    return None, None


def run(seed, tier):
    thorough = tier == 'thorough'
    rng = random.Random(seed * 2750159 + 3)
    out = core.Outcome()
    out.rule = ("real swap_temperatures() calls on 3-6-level chains (ladder given to the constructor, loaded through set_state into a chain built with another ladder, or assigned through the betas setter) with dictated log-likelihoods (spread, ties, near-ties, extreme "
                "values, beta=0 hottest or not, blobs on/off) driven down EVERY decision path by scripted uniforms (u=0 / u=1-2^-53), "
                "plus random uniforms; each call is one Coq case for the float instance of the sweep; direct oracle = the property's "
                "adjacent-exchange statement in 50-digit decimals; exact sweep kernel on 3x3 configuration spaces for Pi K = Pi. "
                "the beta every level steps at is compared with the beta its exchanges use (hottest level at 0 included); non-trivial = a path with >=1 accepted and >=1 refused exchange; distinct = distinct (betas, logls, path)")
    nconf = 500 if thorough else 25
    terms, meta = [], []
    for k in range(nconf):
        n = rng.choice([3, 3, 4, 4, 5, 6] if thorough else [3, 3, 4, 5])
        betas = gen_betas(rng, n)
        via = rng.choice([None, None, 'state', 'setter'])
        rig = Rig(betas, blobs=rng.random() < 0.5, via=via, built_with=gen_betas(rng, n))
        out.count('ladder_via_%s' % (via or 'constructor'))
        # the exchange ratio is the ratio of the joint tempered target only if the beta a level steps at is the beta its
        # exchanges are decided with (also for a hottest level at beta = 0)
        # (a ladder re-assigned through the betas setter after construction is outside the property's quantifier - the setter does not
        # reach the levels - and is used here only to see that the sweep reads the current ladder)
        lv = [float(c.beta) for c in rig.pt.chains]
        if via != 'setter' and lv != rig.betas:
            out.violations.append(dict(what='levels step at betas %s while their exchanges are decided with %s (ladder given %s)'
                                            % (lv, rig.betas, 'to the constructor' if via is None else 'through ' + via),
                                       replay=dict(betas=betas, ladder_via=via, level_betas=lv, swap_betas=rig.betas)))
            break
        for _ in range(3 if thorough else 2):
            logls = gen_logls(rng, n)
            paths = all_paths(rig, logls)
            # plus two random-uniform sweeps
            for _ in range(2):
                us = [rng.random() for _ in range(n - 1)]
                idx, ars, used, tags, newl = rig.sweep(logls, us)
                paths.append((us, idx, ars, used, tags, newl))
            for us, idx, ars, used, tags, newl in paths:
                out.evaluations += 1
                out.count('levels_%d' % n)
                nsw = sum(1 for t in range(1, n) if idx[t] == t - 1)
                out.count('exchanges_%d' % nsw)
                if 0 < nsw and any(idx[t] == t for t in range(n)):
                    out.nontrivial.add(repr((betas, logls, idx)))
                terms.append(coq_case(rig.betas, logls, us, idx, ars, used))
                meta.append(dict(betas=rig.betas, logls=logls, uniforms=us, swap_index=idx, ars=ars, used=used, ladder_via=via))
                # ---- the property on the real call
                c, ears, eused = spec_sweep(rig.betas, logls, us)
                bad = None
                if c != idx:
                    bad = 'swap_index %s is not the result %s of adjacent exchanges of the occupants with the stated probabilities' % (idx, c)
                elif eused != used:
                    bad = 'sweep consumed %d uniforms, the statement needs %d' % (used, eused)
                else:
                    for t in range(n - 1):
                        e = float(ears[t])
                        if abs(ars[t] - e) > 1e-12 * max(1.0, abs(e)) and not (ars[t] != ars[t] and ears[t].is_nan()):
                            bad = ('pair (%d,%d) accepted with probability %r, exact min(1,(L_j/L_k)^(beta_k-beta_j)) with the betas of the '
                                   'levels is %r' % (t, t + 1, ars[t], e))
                            break
                if bad is None and (tags != idx or any(abs(newl[t] - logls[idx[t]]) > 0 for t in range(n))):
                    bad = 'states were not moved along swap_index %s: the levels now hold %s' % (idx, tags)
                if bad:
                    out.violations.append(dict(what=bad, replay=meta[-1]))
                if len(out.samples) < 3 and nsw:
                    out.samples.append(meta[-1])
            if len(out.violations) > 5:
                break
        if len(out.violations) > 5:
            break
    for _ in range(40 if thorough else 1):
        what, rep = invariance_check(rng, out, blobs=rng.random() < 0.5)
        if what:
            out.violations.append(dict(what=what, replay=rep))
    failing = core.run_coq_cases('C03', HEADER, terms, per_file=400)
    codes = {1: 'permutation differs', 2: 'acceptance ratios differ', 3: 'uniform consumption differs'}
    for f in failing[:10]:
        out.corr_failures.append(dict(note='float sweep model and swap_temperatures() disagree: ' + codes.get(f[1], '?'), case=meta[f[0]]))
    out.count('coq_cases', len(terms))
    return out


def replay(payload):
    r = payload.get('replay') or {}
    if 'betas' not in r or 'logls' not in r:
        print(r)
        return 0
    rig = Rig(r['betas'])
    idx, ars, used, tags, newl = rig.sweep(r['logls'], r.get('uniforms', []))
    print('implementation: swap_index', idx, 'ars', ars, 'uniforms used', used)
    c, ears, eused = spec_sweep(rig.betas, r['logls'], r.get('uniforms', []))
    print('statement     : swap_index', c, 'ars', [float(a) for a in ears], 'uniforms used', eused)
    f = core.run_coq_cases('C03', HEADER, [coq_case(rig.betas, r['logls'], r.get('uniforms', []), idx, ars, used)], tag='replay')
    print('model agrees with implementation:', not f)
    return 0
