"""C20 - checkpoint files round-trip any state, also when overwriting."""
import io
import pickle
import random

import numpy
import epsie

from .. import core
from ..fakeh5 import FakeFile

ASSUMPTIONS = [
    "FakeFile/FakeDataset (harness/fakeh5.py) behaves like h5py for the seven calls used "
    "(group lookup, `in`, create_dataset(shape,maxshape,dtype), shape, resize, [:] assignment, [()] read); h5py is not installed",
    "pickle.loads(pickle.dumps(x)) == x and pickle.dump to BytesIO writes exactly pickle.dumps(x) (observed through a tap on epsie.pickle)",
]

GROUPS = {0: None, 1: 'grp1', 2: 'grp1/sub', 3: 'other', 4: 'missing'}   # 4 is never created
NAMES = {0: 'sampler_state', 1: 'alt', 2: 'x/y'}


class Raw:
    """A payload that is written to / read from the pickle boundary as raw bytes."""

    def __init__(self, data):
        self.data = bytes(data)

    def __eq__(self, o):
        return isinstance(o, Raw) and o.data == self.data


class PickleTap:
    """Stands in for the `pickle` module inside epsie: records the bytes that
    cross the pickle boundary; Raw payloads cross it unpickled."""

    def __init__(self):
        self.dumped = []
        self.loaded = []
        self.real_pickles = set()

    def dump(self, obj, fp, protocol=None):
        if isinstance(obj, Raw):
            data = obj.data
        else:
            data = pickle.dumps(obj, protocol=protocol)
            self.real_pickles.add(data)
        self.dumped.append(data)
        fp.write(data)

    def load(self, fp):
        data = fp.read()
        self.loaded.append(data)
        # never unpickle bytes that did not come out of pickle.dumps in this process
        if data in self.real_pickles:
            return pickle.loads(data)
        return Raw(data)

    def __getattr__(self, k):
        return getattr(pickle, k)


HEADER = 'From Coq Require Import ZArith.\nFrom Epsie Require Import Base H5 Exec.ExecC20.\nLocal Open Scope Z_scope.'


def classify(e):
    if isinstance(e, KeyError):
        return 1
    if isinstance(e, TypeError) and 'resize' in str(e):
        return 2
    if isinstance(e, (TypeError, ValueError)):
        return 3
    return 9


def run_impl(groups, ops):
    """Execute ops against the real dump_state/load_state with the stand-in.
    ops: ('D', g, n, bytes, protocol-or-None-for-raw) | ('L', g, n).
    Returns list of outcomes ('done',) | ('bytes', b) | ('err', code)."""
    tap = PickleTap()
    old = epsie.pickle
    epsie.pickle = tap
    try:
        fp = FakeFile()
        for g in groups:
            if GROUPS[g] is not None:
                fp.create_group(GROUPS[g])
        outs = []
        for o in ops:
            try:
                if o[0] == 'D':
                    _, g, n, payload, how = o
                    if how == 'raw_direct':
                        epsie.dump_pickle_to_hdf(io.BytesIO(payload), fp, path=GROUPS[g], dsetname=NAMES[n])
                    else:
                        epsie.dump_state(Raw(payload), fp, path=GROUPS[g], dsetname=NAMES[n])
                    outs.append(('done',))
                else:
                    _, g, n = o
                    k = len(tap.loaded)
                    epsie.load_state(fp, path=GROUPS[g], dsetname=NAMES[n])
                    outs.append(('bytes', tap.loaded[k]))
            except Exception as e:   # noqa
                outs.append(('err', classify(e), type(e).__name__))
        return outs
    finally:
        epsie.pickle = old


def gen_payload(rng, kind):
    if kind == 'nul':
        n = rng.choice([0, 1, 2, 3, 5, 8, 13, 21, 34])
        return bytes(rng.choice([0, 0, 0, 1, 255, 32, 128]) for _ in range(n))
    if kind == 'rand':
        n = rng.randrange(0, 48)
        return bytes(rng.randrange(256) for _ in range(n))
    if kind == 'pickle':
        proto = rng.randrange(0, pickle.HIGHEST_PROTOCOL + 1)
        obj = rng.choice([
            {'a': 1, 'b': [0.0, float('nan')]}, [0] * rng.randrange(0, 6), b'\x00' * rng.randrange(1, 9),
            {0: {'iteration': rng.randrange(100), 'current_position': {'x': rng.random()}}}, 0, '', None,
            numpy.zeros(rng.randrange(0, 3)),
        ])
        return pickle.dumps(obj, protocol=proto)
    raise ValueError(kind)


def gen_case(rng, thorough):
    groups = sorted(rng.sample([0, 1, 2, 3], rng.randrange(1, 5)))
    if 0 not in groups and rng.random() < 0.7:
        groups = [0] + groups
    nops = rng.randrange(2, 14 if not thorough else 30)
    ops = []
    live = []
    for _ in range(nops):
        r = rng.random()
        if r < 0.55 or not live:
            if live and rng.random() < 0.6:
                g, n = rng.choice(live)              # overwrite an existing checkpoint
            else:
                g = rng.choice(groups + [4] if rng.random() < 0.08 else groups)
                n = rng.choice([0, 0, 1, 2])
            payload = gen_payload(rng, rng.choice(['nul', 'rand', 'pickle', 'pickle']))
            how = rng.choice(['raw_direct', 'tap'])
            ops.append(('D', g, n, payload, how))
            if g != 4 and (g, n) not in live:
                live.append((g, n))
        else:
            if rng.random() < 0.85:
                g, n = rng.choice(live)
            else:
                g, n = rng.choice([0, 1, 2, 3, 4]), rng.choice([0, 1, 2])
            ops.append(('L', g, n))
    return groups, ops


def direct_oracle(groups, ops, outs):
    """The property itself on the real-code trace: a load returns the latest
    dump to that (path, name); other keys are never disturbed."""
    shadow = {}
    for i, (o, r) in enumerate(zip(ops, outs)):
        if o[0] == 'D':
            _, g, n, payload, _ = o
            if g in groups:
                if r != ('done',):
                    return 'op %d: dump to existing group raised %r' % (i, r)
                shadow[(g, n)] = payload
            elif r[0] != 'err':
                return 'op %d: dump to a missing group did not raise' % i
        else:
            _, g, n = o
            if (g, n) in shadow:
                if r != ('bytes', shadow[(g, n)]):
                    return 'op %d: load(%s,%s) returned %r, latest dump was %r' % (i, g, n, r, shadow[(g, n)])
            elif r[0] != 'err':
                return 'op %d: load of a never-written dataset returned %r' % (i, r)
    return None


def coq_case(groups, ops, outs):
    def b(x):
        return core.clist([str(v) for v in x])
    cops = []
    for o in ops:
        if o[0] == 'D':
            cops.append('Dump %d %d %s' % (o[1], o[2], b(o[3])))
        else:
            cops.append('Load %d %d' % (o[1], o[2]))
    couts = []
    for r in outs:
        if r[0] == 'done':
            couts.append('ODone')
        elif r[0] == 'bytes':
            couts.append('OBytes %s' % b(r[1]))
        else:
            e = {1: 'KeyError', 2: 'ResizeError', 3: 'ShapeError'}.get(r[1])
            if e is None:
                return None
            couts.append('OErr %s' % e)
    return '(%s%%nat, %s, %s)' % (core.clist([str(g) for g in groups]), core.clist(cops), core.clist(couts))


def run(seed, tier):
    rng = random.Random(seed * 7919 + 20)
    thorough = tier == 'thorough'
    ncases = 4000 if thorough else 400
    out = core.Outcome()
    out.rule = ("random sequences of dump_state/dump_pickle_to_hdf/load_state calls on the in-memory h5py stand-in: 1-4 groups "
                "(top level, nested, a never-created one), 3 dataset names, payloads = NUL-heavy strings, random bytes, pickles of "
                "state-like objects at every protocol; non-trivial = the sequence overwrites an existing dataset with a payload of "
                "a different length and later loads it; distinct = distinct (groups, ops) tuples")
    cases, terms = [], []
    corpus = load_corpus()
    for c in corpus:
        cases.append((c['groups'], [tuple(o[:3]) + ((bytes(o[3]), o[4]) if o[0] == 'D' else ()) for o in c['ops']]))
    while len(cases) < ncases + len(corpus):
        cases.append(gen_case(rng, thorough))
    for idx, (groups, ops) in enumerate(cases):
        outs = run_impl(groups, ops)
        out.evaluations += 1
        out.count('ops', len(ops))
        # statistics + non-triviality
        sizes = {}
        nontriv = False
        grew = shrank = False
        for o, r in zip(ops, outs):
            out.count('op_' + o[0])
            out.count('outcome_' + r[0] + (str(r[1]) if r[0] == 'err' else ''))
            if o[0] == 'D' and r[0] == 'done':
                k = (o[1], o[2])
                if k in sizes and sizes[k] != len(o[3]):
                    grew |= len(o[3]) > sizes[k]
                    shrank |= len(o[3]) < sizes[k]
                sizes[k] = len(o[3])
                if b'\x00' in o[3]:
                    out.count('payload_with_NUL')
            if o[0] == 'L' and r[0] == 'bytes' and (grew or shrank):
                nontriv = True
        if grew:
            out.count('cases_with_growing_overwrite')
        if shrank:
            out.count('cases_with_shrinking_overwrite')
        if nontriv:
            out.nontrivial.add(repr((groups, ops)))
        if len(out.samples) < 3 and nontriv:
            out.samples.append(dict(groups=groups, ops=[[o[0], o[1], o[2]] + ([list(o[3]), o[4]] if o[0] == 'D' else []) for o in ops][:6],
                                    outcomes=[list(r[:2]) if r[0] != 'bytes' else ['bytes', list(r[1])] for r in outs][:6]))
        msg = direct_oracle(groups, ops, outs)
        if msg:
            g2, o2 = shrink(groups, ops)
            out.violations.append(dict(what=msg, replay=dict(groups=g2, ops=[[o[0], o[1], o[2]] + ([list(o[3]), o[4]] if o[0] == 'D' else []) for o in o2],
                                                             observed=repr(run_impl(g2, o2)))))
            if len(out.violations) > 3:
                break
        t = coq_case(groups, ops, outs)
        if t is None:
            out.corr_failures.append(dict(note='implementation raised an exception the model does not have', groups=groups,
                                          ops=repr(ops), outcomes=repr(outs)))
        else:
            terms.append((idx, t))
    failing = core.run_coq_cases('C20', HEADER, [t for _, t in terms], per_file=250)
    for f in failing:
        idx = terms[f[0]][0]
        groups, ops = cases[idx]
        out.corr_failures.append(dict(note='model and implementation outcomes differ', groups=groups, ops=repr(ops),
                                      impl=repr(run_impl(groups, ops))))
    # real sampler checkpoints through the same path
    n_s = sampler_checks(rng, out, 12 if thorough else 3)
    out.count('sampler_checkpoint_roundtrips', n_s)
    return out


def sampler_checks(rng, out, n):
    from epsie.samplers import MetropolisHastingsSampler, ParallelTemperedSampler
    from ..models import GaussModel
    from ..compare import struct_diff
    done = 0
    for k in range(n):
        model = GaussModel(['x', 'y'])
        if k % 2 == 0:
            s = MetropolisHastingsSampler(['x', 'y'], model, 2, seed=rng.randrange(10 ** 6))
            s2 = MetropolisHastingsSampler(['x', 'y'], model, 2, seed=1)
            s.start_position = {'x': numpy.array([0.1, 0.2]), 'y': numpy.array([0.3, -0.4])}
        else:
            s = ParallelTemperedSampler(['x', 'y'], model, 2, betas=[1., .5, .1], seed=rng.randrange(10 ** 6))
            s2 = ParallelTemperedSampler(['x', 'y'], model, 2, betas=[1., .5, .1], seed=1)
            s.start_position = {'x': numpy.full((3, 2), .1), 'y': numpy.full((3, 2), -.2)}
        fp = FakeFile()
        fp.create_group('a')
        for j in range(3):
            s.run(rng.choice([1, 2, 7, 30]))          # state size changes between checkpoints
            path = rng.choice([None, 'a'])
            st = s.state
            s.checkpoint(fp, path=path)
            back = epsie.load_state(fp, path=path)
            out.evaluations += 1
            d = struct_diff(st, back)
            if d:
                out.violations.append(dict(what='sampler.checkpoint then load_state returns a different state: ' + d,
                                           replay=dict(kind='sampler', k=k, j=j)))
            s2.set_state_from_checkpoint(fp, path=path)
            d = struct_diff(st, s2.state)
            if d:
                out.violations.append(dict(what='set_state_from_checkpoint does not restore the checkpointed state: ' + d,
                                           replay=dict(kind='sampler', k=k, j=j)))
            done += 1
    return done


def shrink(groups, ops):
    """Greedy op-list shrinking keeping the direct oracle failing."""
    cur = list(ops)
    changed = True
    while changed:
        changed = False
        for i in range(len(cur)):
            cand = cur[:i] + cur[i + 1:]
            if cand and direct_oracle(groups, cand, run_impl(groups, cand)):
                cur = cand
                changed = True
                break
    for i, o in enumerate(cur):
        if o[0] == 'D':
            for new in (b'\x01' * len(o[3]), b'\x01' * min(len(o[3]), 2), b'\x01'):
                cand = cur[:i] + [(o[0], o[1], o[2], new, o[4])] + cur[i + 1:]
                if direct_oracle(groups, cand, run_impl(groups, cand)):
                    cur = cand
                    o = cand[i]
    return groups, cur


def load_corpus():
    import json, os
    d = os.path.join(core.VERIF, 'corpus', 'C20')
    res = []
    if os.path.isdir(d):
        for fn in sorted(os.listdir(d)):
            if fn.endswith('.json'):
                res.append(json.load(open(os.path.join(d, fn))))
    return res


def replay(payload):
    r = payload.get('replay') or payload
    groups = r['groups']
    ops = [tuple(o[:3]) + ((bytes(o[3]), o[4]) if o[0] == 'D' else ()) for o in r['ops']]
    outs = run_impl(groups, ops)
    print('implementation outcomes:', outs)
    print('direct oracle:', direct_oracle(groups, ops, outs))
    t = coq_case(groups, ops, outs)
    failing = core.run_coq_cases('C20', HEADER, [t], tag='replay')
    print('model agrees with implementation:', not failing)
    return 0
