"""C14 - adaptive proposals stay usable: finite scales, no crash, no stall."""
import math
import random
import time

import numpy

from epsie.chain import Chain
from epsie import proposals as P

from .. import core, adapt, adaptm
from ..trace import GenTap

ASSUMPTIONS = [
    "extremal histories (always / never accepted) and random ones are forced through a stub chain for the scale dynamics; the number of "
    "generator draws per jump is counted on real chains with a harness-side generator tap (budget 2e4 draws per step)",
    "float overflow and loop time are runtime behaviour the real-number model cannot exhibit: they are only explored here (partial)",
]
BUDGET = 20000
RUNAWAY = {}
REPRESENTATIVE = ('adaptive_bounded_normal', 'ss_adaptive_bounded_normal', 'ss_adaptive_normal_fullcov', 'at_adaptive_bounded_normal',
                  'at_adaptive_normal_full', 'adaptive_bounded_eigenvector', 'adaptive_isotropic_solid_angle')


MREPRESENTATIVE = ('at_adaptive_normal_full', 'at_cw_normal_full', 'adaptive_bounded_eigenvector', 'ss_adaptive_normal_fullcov_capped')


NARROW = {'a': (0.0, 0.5), 'b': (0.0, 0.3)}


def _ss_narrow(T, k, start):
    # default unit covariance on boundaries narrower than 0.67: the initial width is ABOVE the default cap (1.49 x width)
    from epsie import proposals as P
    return P.SSAdaptiveBoundedNormal(['a', 'b'], NARROW, jump_interval=k, jump_interval_duration=T)


def _veitch_uneven(T, k, start):
    # user-supplied initial widths that are not proportional to the prior widths: one width crosses zero long before the other
    import numpy as _np
    from epsie import proposals as P
    return P.AdaptiveNormal(['a', 'b'], {'a': 8.0, 'b': 1.0}, adaptation_duration=T, start_step=start, jump_interval=k,
                            initial_std=_np.array([0.004, 0.4]))


LOCAL_FAMILIES = {'ss_adaptive_bounded_normal_narrow': ('ss', _ss_narrow), 'adaptive_normal_uneven_initial_std': ('veitch', _veitch_uneven)}


def admissible(kind, s):
    """finite, positive scale parameters"""
    bad = []

    def fin(x):
        return isinstance(x, float) and math.isfinite(x)
    if kind in ('veitch', 'ss'):
        if not all(fin(x) and x > 0 for x in s['std']):
            bad.append('width not finite and positive: %s' % s['std'])
    elif kind == 'ss_cov':
        c = s['cov']
        if not all(fin(x) for x in c) or c[0] <= 0 or c[3] <= 0 or c[0] * c[3] - c[1] * c[2] < -1e-12:
            bad.append('covariance not finite / positive semidefinite: %s' % c)
    elif kind == 'at':
        if not all(fin(x) and x > 0 for x in s['std'] + s['ucov']) or not fin(s['loglam']):
            bad.append('width / second moment / log-scale not finite and positive: std=%s ucov=%s log_lambda=%s' % (s['std'], s['ucov'], s['loglam']))
    elif kind == 'at_full':
        c = s['cov']
        if not all(fin(x) for x in c) or c[0] <= 0 or c[3] <= 0 or c[0] * c[3] - c[1] * c[2] < -1e-9 * abs(c[0] * c[3]):
            bad.append('covariance not finite / positive semidefinite: %s' % c)
    elif kind == 'eig':
        if not all(fin(x) and x >= 0 for x in s['eigvals']) or not fin(s['loglam']):
            bad.append('eigenvalue scale not finite / non-negative: %s' % s['eigvals'])
    elif kind == 'kappa':
        if not (fin(s['kappa']) and s['kappa'] > 0 and fin(s['norm']) and s['norm'] > 0):
            bad.append('concentration / normalisation not finite and positive: kappa=%r norm=%r' % (s['kappa'], s['norm']))
    return bad


def madmissible(kind, s):
    """finite state; covariance / second moment positive semidefinite; componentwise widths positive"""
    def finite(v):
        return bool(numpy.all(numpy.isfinite(numpy.asarray(v, dtype=float))))
    for q in ('mean', 'mu', 'ucov', 'cov', 'loglam', 'std', 'eigvals'):
        if q in s and not finite(s[q]):
            return '%s not finite: %s' % (q, s[q])
    for q in ('ucov', 'cov'):
        if q in s and numpy.asarray(s[q]).ndim == 2:
            m = numpy.asarray(s[q], dtype=float)
            w = numpy.linalg.eigvalsh((m + m.T) / 2)
            if abs(m - m.T).max() > 1e-9 * max(1e-300, abs(m).max()):
                return '%s not symmetric: %s' % (q, s[q])
            if w.min() < -1e-9 * max(abs(w).max(), 1e-300):
                return '%s not positive semidefinite (eigenvalues %s): %s' % (q, list(w), s[q])
    if kind == 'at_cw' and not all(x > 0 for x in s['std'] + s['ucov']):
        return 'width / second moment not positive: std=%s ucov=%s' % (s['std'], s['ucov'])
    if kind == 'eigc' and not all(x >= -1e-12 * max(s['eigvals']) for x in s['eigvals']):
        return 'jump scale (eigenvalue) negative: %s' % (s['eigvals'],)
    return None


class FlatBox:
    """flat likelihood on the proposal's own domain (accepts almost everything), or a sharply peaked one"""

    def __init__(self, params, lo, hi, peaked=False, centre=None):
        self.params, self.peaked, self.centre = params, peaked, centre or {}
        self.lo, self.hi = lo, hi

    def __call__(self, **kw):
        inside = all(self.lo[p] <= kw[p] <= self.hi[p] for p in self.params)       # bounded prior support
        logp = 0.0 if inside else -numpy.inf
        if not self.peaked:
            return 0.0, logp
        return -0.5 * sum(((kw[p] - self.centre.get(p, 0.5)) / 1e-3) ** 2 for p in self.params), logp


def real_chain_run(name, T, beta, peaked, start_where, nsteps, rng):
    """A real chain with the adaptive proposal on a bounded target; returns (problem, stats)."""
    kind, make = adapt.FAMILIES[name]
    prop = make(T, 1, 1)
    params = list(prop.parameters)
    if name.endswith('angular'):
        lo, hi = {p: 0.0 for p in params}, {p: 2 * math.pi for p in params}
    elif 'solid_angle' in name:
        lo, hi = {'a': 0.0, 'b': 0.0}, {'a': 2 * math.pi, 'b': math.pi}
    elif 'discrete' in name:
        lo, hi = {'a': -3, 'b': 0}, {'a': 5, 'b': 20}
    elif name.endswith('_narrow'):
        lo, hi = {p: NARROW[p][0] for p in params}, {p: NARROW[p][1] for p in params}
    else:
        lo, hi = {p: adapt.BND2[p][0] for p in params}, {p: adapt.BND2[p][1] for p in params}
    centre = {p: (lo[p] + hi[p]) / 2 for p in params}
    model = FlatBox(params, lo, hi, peaked=peaked, centre=centre)
    ch = Chain(params, model, [prop], bit_generator=rng.randrange(1, 10 ** 6), beta=beta)
    if start_where == 'centre':
        start = dict(centre)
    else:
        start = {p: (lo[p] if start_where == 'low' else hi[p]) for p in params}
    if 'solid_angle' in name and start_where != 'centre':
        start = {'a': 1.0, 'b': 0.3}
    if 'discrete' in name:
        start = {p: int(round(v)) for p, v in start.items()}
    ch.start_position = start
    worst = 0
    with GenTap() as gt:
        for i in range(nsteps):
            n0 = len(gt.log)

            def guard(owner, mname, a, k, real):
                if len(gt.log) - n0 > BUDGET:
                    raise TimeoutError('more than %d generator draws for one proposal' % BUDGET)
                return real(*a, **k)
            gt.script = guard
            try:
                ch.step()
            except TimeoutError as e:
                return ('stall', 'step %d: %s (scale %s)' % (i + 1, e, adapt.scale_vars(kind, adapt.snapshot(kind, prop)))), worst
            except Exception as e:          # noqa
                return ('raise', 'step %d raised %r' % (i + 1, e)), worst
            worst = max(worst, len(gt.log) - n0)
            del gt.log[:]
            n0 = 0
            bad = admissible(kind, adapt.snapshot(kind, prop))
            if bad:
                return ('inadmissible', 'step %d: %s' % (i + 1, bad[0])), worst
            pos = ch.current_position
            if any(not math.isfinite(float(pos[p])) for p in params):
                return ('nan_position', 'step %d: position %s' % (i + 1, pos)), worst
    return None, worst


def jump_with_budget(prop, start, budget=BUDGET):
    """one prop.jump(start) with at most `budget` generator draws; returns (point or None, draws)"""
    with GenTap() as gt:
        def guard(owner, mname, a, k, real):
            if len(gt.log) > budget:
                raise TimeoutError('more than %d generator draws for one proposal' % budget)
            return real(*a, **k)
        gt.script = guard
        try:
            x = prop.jump(dict(start))
            return x, len(gt.log)
        except TimeoutError:
            return None, len(gt.log)


def degenerate_direction(prop, start):
    """the eigenvector chosen by the stalled jump leaves the domain in both directions from `start`
    (the admissible segment is the single point `start`, widened only by the face tolerance of __contains__)"""
    v = numpy.asarray(prop.eigvects)[:, prop._ind]
    width = min(abs(float(prop.boundaries[p][1]) - float(prop.boundaries[p][0])) for p in prop.parameters)
    for eps in (1e-3 * width, 1e-2 * width):        # beyond the numpy.isclose tolerance that __contains__ grants at the faces
        for sgn in (1.0, -1.0):
            pt = {p: float(start[p]) + sgn * eps * float(v[i]) for i, p in enumerate(prop.parameters)}
            if pt in prop:
                return False
    return True


def rotated_cov(rng, angle=None, s1=None, s2=None):
    th = rng.uniform(0.0, math.pi) if angle is None else angle
    s1 = rng.choice([0.05, 0.3, 1.0, 2.0]) if s1 is None else s1
    s2 = rng.choice([0.05, 0.3, 1.0, 2.0]) if s2 is None else s2
    r = numpy.array([[math.cos(th), -math.sin(th)], [math.sin(th), math.cos(th)]])
    c = r @ numpy.diag([s1, s2]) @ r.T
    return (c + c.T) / 2


def boundary_jumps(out, rng, thorough):
    """(c) bounded eigenvector proposals (fixed and adaptive, rotated covariances) jumping from corners, edges, faces and
    the centre of their box: every jump must finish within the draw budget"""
    lo, hi = {p: adapt.BND2[p][0] for p in 'ab'}, {p: adapt.BND2[p][1] for p in 'ab'}
    mid = {p: (lo[p] + hi[p]) / 2 for p in 'ab'}
    points = [('centre', dict(mid))]
    for ca in ('lo', 'hi'):
        for cb in ('lo', 'hi'):
            points.append(('corner', dict(a=lo['a'] if ca == 'lo' else hi['a'], b=lo['b'] if cb == 'lo' else hi['b'])))
    for p_, q_ in (('a', 'b'), ('b', 'a')):
        for side in (lo, hi):
            pt = dict(mid)
            pt[p_] = side[p_]
            points.append(('edge', pt))
    known_open = any(h['flag'] == 'bounded_eigenvector_corner_stall' for h in out.known_hits)
    for rep in range(12 if thorough else 4):
        cov = rotated_cov(rng)
        for adaptive in (False, True):
            prop = (P.AdaptiveBoundedEigenvector(['a', 'b'], adapt.BND2, adaptation_duration=50, cov0=cov) if adaptive
                    else P.BoundedEigenvector(['a', 'b'], adapt.BND2, cov=cov))
            prop.bit_generator = rng.randrange(1, 10 ** 6)
            for kind, pt in points:
                for _ in range(6 if thorough else 3):
                    x, n = jump_with_budget(prop, pt)
                    out.evaluations += 1
                    out.count('boundary_jump_from_' + kind)
                    if x is not None:
                        continue
                    desc = dict(proposal=type(prop).__name__, cov=[[float(v) for v in r] for r in cov], start=pt, where=kind,
                                eigenvector=[float(v) for v in numpy.asarray(prop.eigvects)[:, prop._ind]])
                    if degenerate_direction(prop, pt):
                        if known_open:
                            out.count('covered_by_known_bounded_eigenvector_corner_stall')
                            break
                        out.violations.append(dict(what='%s: a jump from the %s %s along the eigenvector %s, which leaves the domain in both '
                                                        'directions, did not finish within %d draws' % (desc['proposal'], kind, pt, desc['eigenvector'], BUDGET),
                                                   replay=desc))
                    else:
                        out.violations.append(dict(what='%s: a jump from the %s %s did not finish within %d draws (eigenvector %s, scale %r)'
                                                        % (desc['proposal'], kind, pt, BUDGET, desc['eigenvector'], float(prop.eigvals[prop._ind])),
                                                   replay=desc))
                    break
            if len(out.violations) > 6:
                return


KNOWN = {
    # flag -> (families, failure kinds)
    'at_bounded_runaway': (('at_adaptive_bounded_normal', 'at_adaptive_angular', 'adaptive_bounded_eigenvector'), ('stall',)),
    'solid_angle_kappa_overflow': (('adaptive_isotropic_solid_angle',), ('raise', 'inadmissible')),
    'solid_angle_kappa_underflow': (('adaptive_isotropic_solid_angle',), ('nan_position', 'raise_nan')),
    'bounded_eigenvector_corner_stall': (('bounded_eigenvector', 'adaptive_bounded_eigenvector'), ('stall',)),
    'componentwise_next_to_discrete_nan': (('at_cw_normal_diag', 'at_cw_normal_full'), ('raise',)),
}


def classify(name, fkind, text):
    if name == 'adaptive_isotropic_solid_angle' and fkind in ('raise', 'inadmissible') and ('normalisation' in text or 'norm' in text or 'inf' in text):
        return 'solid_angle_kappa_overflow'
    if name == 'adaptive_isotropic_solid_angle' and (fkind == 'nan_position' or 'NaN' in text or 'nan' in text):
        return 'solid_angle_kappa_underflow'
    if name in RUNAWAY and fkind == 'stall':
        return 'at_bounded_runaway'
    return None


def witnesses(out):
    """The stored witnesses of the open findings, re-run on the real code."""
    rng = random.Random(5)
    # D20: adaptive solid angle, always rejected, duration 5000
    err = [None]

    def on(kind, b, a, info):
        if info['error'] is not None:
            err[0] = 'step %d: %r' % (info['i'] + 1, info['error'])
    adapt.drive('adaptive_isotropic_solid_angle', 5000, 1, 1, adapt.history('never', 600, rng), rng, on)
    out.variant['solid_angle_kappa_overflow'] = err[0] is None
    if err[0]:
        out.known_hits.append(dict(flag='solid_angle_kappa_overflow', what='adaptive solid angle, always rejected: ' + err[0],
                                   witness=dict(proposal='adaptive_isotropic_solid_angle', adaptation_duration=5000, history='never', observed=err[0])))
    # D19: Robbins-Monro scaled proposals with a rejection loop, sustained acceptance (what a flat bounded target or a
    # beta=0 level produces): the scale runs away and one jump needs more than the budget of draws
    confirmed = {}
    for fam, start_pt in (('at_adaptive_bounded_normal', {'a': 1.0, 'b': 0.5}), ('at_adaptive_angular', {'a': 1.0, 'b': 0.5}),
                          ('adaptive_bounded_eigenvector', {'a': 1.0, 'b': 0.5})):
        prop = adapt.drive(fam, 3000, 1, 1, adapt.history('always', 1500, rng), rng, lambda *a: None)
        with GenTap() as gt:
            def guard(owner, mname, a, k, real):
                if len(gt.log) > BUDGET:
                    raise TimeoutError('more than %d generator draws for one proposal' % BUDGET)
                return real(*a, **k)
            gt.script = guard
            try:
                prop.jump(dict(start_pt))
            except TimeoutError as e:
                confirmed[fam] = '%s after 1500 accepted steps (scale variable %s)' % (e, adapt.scale_vars(adapt.FAMILIES[fam][0], adapt.snapshot(adapt.FAMILIES[fam][0], prop)))
    out.variant['at_bounded_runaway'] = not confirmed
    out.notes.append('runaway confirmed for: %s' % sorted(confirmed))
    RUNAWAY.clear()
    RUNAWAY.update(confirmed)
    if confirmed:
        out.known_hits.append(dict(flag='at_bounded_runaway', what='Robbins-Monro scaled bounded/angular proposals under sustained acceptance stall',
                                   witness=dict(history='always x1500, adaptation_duration 3000', observed=confirmed)))
    # D33: a bounded eigenvector jump from a corner along an eigenvector that leaves the box in both directions
    stalls = []
    for cls, kw in ((P.BoundedEigenvector, dict(cov=numpy.array([[1.0, 0.9], [0.9, 1.0]]))),
                    (P.AdaptiveBoundedEigenvector, dict(adaptation_duration=50, cov0=numpy.array([[1.0, 0.9], [0.9, 1.0]])))):
        prop = cls(['a', 'b'], adapt.BND2, **kw)
        prop.bit_generator = 12345
        corner = {'a': adapt.BND2['a'][0], 'b': adapt.BND2['b'][1]}
        for _ in range(12):
            x, n = jump_with_budget(prop, corner)
            if x is None and degenerate_direction(prop, corner):
                stalls.append('%s from %s along %s' % (cls.__name__, corner, [round(float(v), 4) for v in numpy.asarray(prop.eigvects)[:, prop._ind]]))
                break
    out.variant['bounded_eigenvector_corner_stall'] = not stalls
    if stalls:
        out.known_hits.append(dict(flag='bounded_eigenvector_corner_stall',
                                   what='bounded eigenvector jump from a corner along an eigenvector that leaves the box in both directions exceeds the draw budget',
                                   witness=dict(boundaries=adapt.BND2, cov=[[1.0, 0.9], [0.9, 1.0]], observed=stalls)))
    # D34: componentwise Andrieu-Thoms next to a non-successive bounded discrete proposal: the virtual moves leave the discrete
    # parameter where it is, its reported density there is log(0) in both directions, and the step raises 'NaN acceptance!'
    class _M:
        def __call__(self, a, b, k):
            if not (-10 < a < 10 and -10 < b < 10 and 0 <= k <= 5):
                return -numpy.inf, -numpy.inf
            return -0.5 * (a * a + b * b) - 0.1 * (k - 2) ** 2, 0.0
    nan_raise = None
    try:
        ch = Chain(['a', 'b', 'k'], _M(), [P.ATAdaptiveNormal(['a', 'b'], adaptation_duration=50, componentwise=True),
                                           P.BoundedDiscrete(['k'], {'k': (0, 5)}, successive={'k': False})], bit_generator=5)
        ch.start_position = {'a': 0.1, 'b': 0.2, 'k': 2}
        for _ in range(30):
            ch.step()
    except ValueError as e:
        if 'NaN acceptance' in str(e):
            nan_raise = 'step %d raised ValueError(NaN acceptance!)' % (ch.iteration + 1)
        else:
            raise
    out.variant['componentwise_next_to_discrete_nan'] = nan_raise is None
    if nan_raise:
        out.known_hits.append(dict(flag='componentwise_next_to_discrete_nan',
                                   what='componentwise Andrieu-Thoms next to a non-successive bounded discrete proposal: ' + nan_raise,
                                   witness=dict(proposals=['ATAdaptiveNormal(a, b, componentwise=True, adaptation_duration=50)',
                                                           'BoundedDiscrete(k in (0,5), successive=False)'], observed=nan_raise)))
    # kappa underflow: always accepted, long duration -> kappa tiny -> NaN proposals
    prop = adapt.drive('adaptive_isotropic_solid_angle', 20000, 1, 1, adapt.history('always', 2500, rng), rng, lambda *a: None)
    nan = None
    grid = [(0.2, 0.999), (0.3, 0.5), (0.7, 0.1), (0.1, 0.9), (0.5, 0.25), (0.9, 0.75)]
    with GenTap() as gt:
        for q in grid:
            gt.script = lambda owner, mname, a, k, real, q=q: numpy.array(q) if mname in ('random', 'random_sample') else real(*a, **k)
            x = prop.jump({'a': 1.0, 'b': 1.0})
            if any(not math.isfinite(float(v)) for v in x.values()):
                nan = 'kappa=%r: jump returned %s' % (prop.kappa, x)
                break
    out.variant['solid_angle_kappa_underflow'] = nan is None
    if nan:
        out.known_hits.append(dict(flag='solid_angle_kappa_underflow', what='adaptive solid angle, always accepted for 2500 steps: ' + nan,
                                   witness=dict(proposal='adaptive_isotropic_solid_angle', adaptation_duration=20000, history='always', observed=nan)))


def run(seed, tier):
    thorough = tier == 'thorough'
    rng = random.Random(seed * 715225739 + 14)
    out = core.Outcome()
    out.rule = ("(a) all 18 adaptive classes driven through real prop.update() with the extremal histories (always / never accepted) and "
                "alternating / random ones for durations 30, 300, 3000 (30000 thorough): every scale attribute must stay finite and "
                "admissible and no update may raise; every 7th update is also a Coq case; (a') the componentwise / full-covariance "
                "Andrieu-Thoms and eigenvector classes likewise with their matrices checked finite, symmetric and positive semidefinite after "
                "every update and against AdaptM.v; (b) real chains on flat and sharply peaked "
                "bounded targets, betas 0/1e-3/1, start at centre and at the faces, counting generator draws per jump (budget 2e4). "
                "non-trivial = a run of >= 300 adapted steps under an extremal history; distinct = distinct (class, duration, history)")
    witnesses(out)
    terms, meta = [], []
    adapt.FAMILIES.update(LOCAL_FAMILIES)
    names = sorted(adapt.FAMILIES)
    durations = [30, 300, 3000] + ([30000] if thorough else [])
    hists = ['always', 'never', 'alternate', 'random']
    t_start = time.time()
    for name in names:
        kind0 = adapt.FAMILIES[name][0]
        for T in durations:
            for hk in hists:
                if not thorough and T == 3000 and (hk in ('alternate', 'random') or name not in REPRESENTATIVE):
                    continue
                n = min(T + 5, 3200 if not thorough else 30100)
                hist = adapt.history(hk, n, rng)
                decay = rng.choice([None, None, 0.5, 1.0, 2.0]) if kind0 == 'veitch' else None
                desc = dict(proposal=name, adaptation_duration=T, history=hk, steps=n, adaptation_decay=decay)
                fail = [None]
                first_std = [None]

                def on_step(kind, b, a, info):
                    out.evaluations += 1
                    if info['error'] is not None:
                        fail[0] = ('raise', 'update %d raised %r (state before: %s)' % (info['i'] + 1, info['error'], adapt.scale_vars(kind, b)))
                        return
                    bad = admissible(kind, a)
                    if bad and fail[0] is None:
                        fail[0] = ('inadmissible', 'after update %d: %s' % (info['i'] + 1, bad[0]))
                    if kind == 'ss' and a.get('cap') is not None and fail[0] is None:
                        if first_std[0] is None:
                            first_std[0] = max(b['std'])
                        if max(a['std']) > max(a['cap'], first_std[0]) * (1 + 1e-12):
                            fail[0] = ('inadmissible', 'after update %d the width %r exceeds both the cap %r and the width it started with %r'
                                       % (info['i'] + 1, max(a['std']), a['cap'], first_std[0]))
                    if kind == 'ss' and fail[0] is None and (getattr(info['prop'], 'boundaries', None) or 'angular' in name):
                        # the bounded Sivia-Skilling families document a default cap of 1.49 x the largest boundary width: without one
                        # the width grows like the square root of the number of acceptances and the rejection loop with it
                        if first_std[0] is None:
                            first_std[0] = max(b['std'])
                        lim = 1.49 * (max(abs(w) for w in info['prop'].boundaries.values()) if getattr(info['prop'], 'boundaries', None)
                                      else 2 * math.pi)
                        if a.get('cap') is None and max(a['std']) > max(lim, first_std[0]) * (1 + 1e-9):
                            fail[0] = ('inadmissible', 'after update %d the width %r exceeds 1.49 x the largest boundary width (%r) and the '
                                       'width it started with (%r); the proposal holds no cap (max_std is %r)'
                                       % (info['i'] + 1, max(a['std']), lim, first_std[0], getattr(info['prop'], 'max_std', None)))
                    if info['called'] and info['i'] % 7 == 0 and kind in ('veitch', 'ss', 'at', 'eig', 'kappa'):
                        t = adapt.coq_case(kind, b, a, info['accepted'], info['ar'], info['x'])
                        if t:
                            terms.append(t)
                            meta.append(dict(desc, step=info['i']))
                adapt.drive(name, T, 1, 1, hist, rng, on_step, decay=decay)
                out.count('history_' + hk)
                out.count('duration_%d' % T)
                if hk in ('always', 'never') and T >= 300:
                    out.nontrivial.add(repr(desc))
                if fail[0]:
                    flag = classify(name, fail[0][0], fail[0][1])
                    if flag and any(h['flag'] == flag for h in out.known_hits):
                        out.count('covered_by_known_' + flag)
                    else:
                        out.violations.append(dict(what='%s, history %s, duration %d: %s' % (name, hk, T, fail[0][1]), replay=desc))
                if len(out.samples) < 2:
                    out.samples.append(desc)
        if len(out.violations) > 6:
            break
    # (a'') jump intervals > 1 with adaptation resets in mid-history (what reset_after_swap does to a slow proposal): no update may raise
    # and the scales stay admissible
    for name in names:
        kind0 = adapt.FAMILIES[name][0]
        for k in (2, 3):
            for hk in ('always', 'never', 'random'):
                T = rng.choice([12, 30])
                n = (T + 10) * k
                hist = adapt.history(hk, n, rng)
                # (a reset before the proposal's own clock has reached its first step - a swap at iteration 1 - and later ones)
                for reset_at in (k - 1, rng.choice([1, k + 1, 2 * k, 3 * k + 1, n // 2])):
                    desc = dict(proposal=name, adaptation_duration=T, jump_interval=k, history=hk, steps=n, reset_before_step=reset_at)
                    fail = [None]

                    def on_kstep(kind, b, a, info):
                        out.evaluations += 1
                        if fail[0] is not None:
                            return
                        if info['error'] is not None:
                            fail[0] = 'update %d raised %r (jump interval %d, reset before step %d)' % (info['i'] + 1, info['error'], k, reset_at)
                            return
                        bad = admissible(kind, a)
                        if bad:
                            fail[0] = 'after update %d: %s (jump interval %d, reset before step %d)' % (info['i'] + 1, bad[0], k, reset_at)
                    adapt.drive(name, T, k, rng.choice([1, 2]), hist, rng, on_kstep, reset_at=reset_at)
                    out.count('slow_with_reset')
                    if fail[0]:
                        flag = classify(name, 'raise', fail[0])
                        if flag and any(h['flag'] == flag for h in out.known_hits):
                            out.count('covered_by_known_' + flag)
                        else:
                            out.violations.append(dict(what='%s, history %s, duration %d: %s' % (name, hk, T, fail[0]), replay=desc))
        if len(out.violations) > 6:
            break
    # (a') matrix-valued state: positive semidefinite covariance through every update (AdaptM.v)
    mterms, mmeta = [], []
    for name in sorted(adaptm.MFAMILIES):
        for T in durations:
            for hk in hists:
                if not thorough and T == 3000 and (hk in ('alternate', 'random') or name not in MREPRESENTATIVE):
                    continue
                n = min(T + 5, 3200 if not thorough else 30100)
                hist = adapt.history(hk, n, rng)
                desc = dict(proposal=name, adaptation_duration=T, history=hk, steps=n, matrix_variant=True)
                fail = [None]

                def on_mstep(kind, b, a, info):
                    out.evaluations += 1
                    if info['error'] is not None:
                        if fail[0] is None:
                            fail[0] = 'update %d raised %r' % (info['i'] + 1, info['error'])
                        return
                    if fail[0] is None:
                        bad = madmissible(kind, a)
                        if bad:
                            fail[0] = 'after update %d: %s' % (info['i'] + 1, bad)
                    if info['called'] and info['i'] % 7 == 0:
                        mterms.append(adaptm.coq_case(kind, b, a, info['ar'], info['ars'], info['x'], accepted=info['accepted']))
                        mmeta.append(dict(desc, step=info['i']))
                adaptm.drive(name, T, 1, 1, hist, hk, rng, on_mstep)
                out.count('matrix_history_' + hk)
                if hk in ('always', 'never') and T >= 300:
                    out.nontrivial.add(repr(desc))
                if fail[0]:
                    out.violations.append(dict(what='%s, history %s, duration %d: %s' % (name, hk, T, fail[0]), replay=desc))
    # (a''') targets far narrower in one parameter than in the other (widths 1e-6 : 1, as on a bounded domain with a sharply peaked
    # likelihood): the learnt covariance is nearly singular, and still no update may raise and the matrices stay admissible
    for name in sorted(adaptm.MFAMILIES):
        for hk in ('always', 'random'):
            T = 1000
            spread = rng.choice([(1.0, 1e-6), (1.0, 1e-7)]) if hk == 'always' else rng.choice([(1.0, 1e-6), (1e-6, 1.0), (1.0, 1e-7)])
            hist = adapt.history(hk, T + 5, rng)
            desc = dict(proposal=name, adaptation_duration=T, history=hk, steps=T + 5, matrix_variant=True, position_spread=spread)
            fail = [None]

            def on_astep(kind, b, a, info):
                out.evaluations += 1
                if fail[0] is not None:
                    return
                if info['error'] is not None:
                    fail[0] = 'update %d raised %r' % (info['i'] + 1, info['error'])
                    return
                bad = madmissible(kind, a)
                if bad:
                    fail[0] = 'after update %d: %s' % (info['i'] + 1, bad)
            adaptm.drive(name, T, 1, 1, hist, hk, rng, on_astep, spread=spread)
            out.count('matrix_anisotropic')
            if fail[0]:
                out.violations.append(dict(what='%s, history %s, duration %d, positions spread %s: %s' % (name, hk, T, spread, fail[0]), replay=desc))
    failing = core.run_coq_cases('C14', adaptm.HEADER, mterms, eval_fn='mfailing', per_file=600, tag='matrix')
    for f in failing[:10]:
        out.corr_failures.append(dict(note='AdaptM model and real _update disagree', case=mmeta[f[0]]))
    out.count('coq_cases_matrix', len(mterms))
    # (b) real chains: draws per jump
    nreal = 0
    for name in names:
        for peaked in (False, True):
            for beta in ((0.0, 1.0) if not thorough else (0.0, 1e-3, 1.0)):
                for where in (('centre',) if not thorough else ('centre', 'low', 'high')):
                    if (not peaked or beta == 0.0) and name in RUNAWAY:
                        out.count('skipped_covered_by_known_at_bounded_runaway')
                        continue
                    T = rng.choice([30, 300] if not thorough else [30, 300, 3000])
                    steps = min(T + 20, 330 if not thorough else 1200)
                    prob, worst = real_chain_run(name, T, beta, peaked, where, steps, rng)
                    nreal += 1
                    out.evaluations += steps
                    out.count('real_chain_runs')
                    desc = dict(proposal=name, adaptation_duration=T, beta=beta, target='peaked' if peaked else 'flat', start=where, steps=steps,
                                worst_draws_per_jump=worst)
                    if prob:
                        flag = classify(name, prob[0], prob[1])
                        if flag and any(h['flag'] == flag for h in out.known_hits):
                            out.count('covered_by_known_' + flag)
                        else:
                            out.violations.append(dict(what='%s on a %s bounded target (beta=%g, start %s): %s'
                                                       % (name, desc['target'], beta, where, prob[1]), replay=desc))
        if len(out.violations) > 6:
            break
    boundary_jumps(out, rng, thorough)
    failing = core.run_coq_cases('C14', adapt.HEADER, terms, per_file=1500)
    for f in failing[:10]:
        out.corr_failures.append(dict(note='adaptation model and real _update disagree', case=meta[f[0]]))
    out.count('coq_cases', len(terms))
    for k_ in LOCAL_FAMILIES:
        adapt.FAMILIES.pop(k_, None)
    return out


def replay(payload):
    print(payload.get('what'))
    print(payload.get('replay') or payload.get('witness'))
    return 0
