"""C01 - each chain step is an exact Metropolis-Hastings move at its temperature."""
import math
import random
from decimal import Decimal, getcontext

import numpy
from scipy import stats as sstats

from epsie.chain import Chain
from epsie import proposals as P

from .. import core
from ..models import GaussModel
from ..trace import GenTap
from .. import dens

getcontext().prec = 60
ASSUMPTIONS = [
    "the proposal densities entering the Hastings term are taken from the real logpdf() calls made during the step (that they are the "
    "law of the jumps is C02)",
    "FloatLib.fexp agrees with numpy.exp to 1e-9 (2e-16 on the validation grid)",
]
HEADER = ('From Coq Require Import ZArith List PrimFloat.\nFrom Epsie Require Import Base FloatLib Num NumF MH Exec.ExecC01.\n'
          'Import ListNotations.\nOpen Scope float_scope.')
BOX = 10.0


class TableModel:
    """logl/logp dictated by the harness for the next evaluation(s); pure otherwise."""

    def __init__(self, params, blobs=False):
        self.params = params
        self.blobs = blobs
        self.next = None

    def __call__(self, **kw):
        if self.next is not None:
            logl, logp = self.next
        else:
            xs = [float(kw[p]) for p in self.params]
            logl = -0.5 * sum(x * x for x in xs)
            logp = -1.0 if all(-BOX <= x <= BOX for x in xs) else -numpy.inf
        if self.blobs:
            return logl, logp, {'b': float(logl) * 2}
        return logl, logp


def make_chain(kind, rng, beta, blobs):
    """Chains over 1-3 parameters with symmetric / non-symmetric / joint / slow proposals."""
    bnd = lambda ps: {p: (-BOX, BOX) for p in ps}       # noqa
    if kind == 'normal':
        params, props = ['a', 'b'], [P.Normal(['a', 'b'], cov=[1.0, 4.0])]
    elif kind == 'bounded':
        params, props = ['a', 'b'], [P.BoundedNormal(['a', 'b'], bnd(['a', 'b']), cov=[rng.choice([1.0, 30.0]), 9.0])]
    elif kind == 'joint_mixed':
        params = ['a', 'b', 'c']
        props = [P.BoundedNormal(['a'], bnd(['a']), cov=[rng.choice([4.0, 60.0])]), P.Normal(['b']),
                 P.BoundedNormal(['c'], bnd(['c']), cov=[25.0])]
    elif kind == 'joint_slow':
        params = ['a', 'b']
        props = [P.BoundedNormal(['a'], bnd(['a']), cov=[16.0], jump_interval=3, jump_interval_duration=4),
                 P.BoundedNormal(['b'], bnd(['b']), cov=[36.0])]
    elif kind == 'bounded_discrete':
        params = ['a', 'b']
        props = [P.BoundedDiscrete(['a'], {'a': (-4, 5)}, cov=[rng.choice([1.0, 4.0, 9.0])]), P.BoundedNormal(['b'], bnd(['b']), cov=[9.0])]
    elif kind == 'adaptive_bounded':
        params = ['a', 'b']
        props = [P.AdaptiveBoundedNormal(['a', 'b'], bnd(['a', 'b']), adaptation_duration=20)]
    elif kind == 'ss_bounded':
        params = ['a']
        props = [P.SSAdaptiveBoundedNormal(['a'], bnd(['a']), cov=[4.0])]
    elif kind == 'at_bounded':
        params = ['a', 'b']
        props = [P.ATAdaptiveBoundedNormal(['a', 'b'], bnd(['a', 'b']), adaptation_duration=30)]
    elif kind == 'angular':
        params = ['a', 'b']
        props = [P.Angular(['a'], cov=[0.5]), P.BoundedNormal(['b'], bnd(['b']), cov=[4.0])]
    elif kind == 'bounded_eigen':
        params = ['a', 'b']
        props = [P.BoundedEigenvector(['a', 'b'], bnd(['a', 'b']), cov=numpy.array([[2.0, 0.5], [0.5, 1.0]]))]
    else:
        raise ValueError(kind)
    model = TableModel(params, blobs=blobs)
    ch = Chain(params, model, props, bit_generator=rng.randrange(1, 10 ** 6), beta=beta)
    start = {}
    for p in params:
        start[p] = 1 if kind == 'bounded_discrete' and p == 'a' else (1.0 if kind == 'angular' and p == 'a' else round(rng.uniform(-8, 8), 2))
    ch.start_position = start
    return ch, model


KINDS = ['normal', 'bounded', 'joint_mixed', 'joint_slow', 'bounded_discrete', 'adaptive_bounded', 'ss_bounded', 'at_bounded',
         'angular', 'bounded_eigen']


class StepTap:
    """Captures what crosses the kernel boundary during real Chain.step() calls."""

    def __init__(self, ch, gentap):
        self.ch = ch
        self.gentap = gentap
        self.rec = None
        self._orig_ar = Chain._acceptance_ratio
        self._orig_logpdf = None

    def step(self, u_script=None):
        ch = self.ch
        rec = dict(hast=[], kernel=None, raised=None)
        tap = self
        orig_ar = self._orig_ar
        joint = ch.proposal_dist
        orig_logpdf = type(joint).logpdf

        def logpdf(self_, xi, givenx):
            r = orig_logpdf(self_, xi, givenx)
            if self_ is joint:
                rec['hast'].append(float(r))
            return r

        def ar(self_, logp, logl, proposal, current_logp, current_logl, current_pos):
            if rec['kernel'] is None:
                n0 = len(tap.gentap.log)
                rec['kernel'] = dict(logp=float(logp), logl=float(logl), clogp=float(current_logp), clogl=float(current_logl),
                                     beta=float(self_.beta), symmetric=bool(self_.proposal_dist.symmetric))
                if not rec['kernel']['symmetric']:
                    # the two densities the statement needs, queried by the harness itself before the kernel runs
                    rec['kernel']['hq'] = [float(orig_logpdf(joint, current_pos, proposal)), float(orig_logpdf(joint, proposal, current_pos))]
                    ind = independent_logq(joint, current_pos, proposal)
                    if ind is not None:
                        rec['kernel']['hq_independent'] = ind
                rec['hast'] = []
                try:
                    out = orig_ar(self_, logp, logl, proposal, current_logp, current_logl, current_pos)
                except ValueError as e:
                    rec['kernel']['raised'] = str(e)[:40]
                    rec['kernel']['hast'] = list(rec['hast']) if len(rec['hast']) == 2 else list(rec['kernel'].get('hq', [0.0, 0.0]))
                    raise
                rec['kernel']['hast'] = list(rec['hast'])
                if not rec['kernel']['symmetric'] and len(rec['hast']) != 2:
                    rec['kernel']['hastings_not_consulted'] = len(rec['hast'])
                    rec['kernel']['hast'] = list(rec['kernel']['hq'])
                us = [e for e in tap.gentap.log[n0:] if e[1] == 'uniform' and not e[2]]
                rec['kernel']['u'] = float(us[0][4]) if us else None
                rec['kernel']['ret'] = (bool(out[0]), float(out[1]))
                return out
            return orig_ar(self_, logp, logl, proposal, current_logp, current_logl, current_pos)
        self.gentap.script = u_script
        Chain._acceptance_ratio = ar
        type(joint).logpdf = logpdf
        try:
            cur = dict(ch.current_position)
            cs = dict(ch.current_stats)
            cb = ch.current_blob
            try:
                ch.step()
            except ValueError as e:
                rec['raised'] = str(e)[:60]
            rec['before'] = (cur, cs, cb)
            return rec
        finally:
            Chain._acceptance_ratio = orig_ar
            type(joint).logpdf = orig_logpdf
            self.gentap.script = None


def independent_logq(joint, current_pos, proposal):
    """[log q(x|x'), log q(x'|x)] of a joint proposal whose constituents are all of the bounded-normal family, computed with scipy from
    the bounds and the widths the constituents currently jump with - NOT through their logpdf(); None for other mixes"""
    from epsie.proposals.bounded_normal import BoundedNormal
    rev = fwd = 0.0
    for prop in joint.proposals:
        if not isinstance(prop, BoundedNormal) or type(prop).__name__.endswith(('Discrete',)) or 'Discrete' in type(prop).__name__:
            return None
        if not prop._call_jump():
            continue
        for i, p in enumerate(prop.parameters):
            lo, hi = float(prop.boundaries[p][0]), float(prop.boundaries[p][1])
            sd = float(prop._std[i])
            x, x2 = float(current_pos[p]), float(proposal[p])
            fwd += float(sstats.truncnorm.logpdf(x2, (lo - x) / sd, (hi - x) / sd, loc=x, scale=sd))
            rev += float(sstats.truncnorm.logpdf(x, (lo - x2) / sd, (hi - x2) / sd, loc=x2, scale=sd))
    return [rev, fwd]


def exact_ar(k):
    """min(1, p'L'^beta q(x|x') / (p L^beta q(x'|x))) from the log inputs, in 60-digit decimals."""
    D = Decimal
    if any(v != v for v in (k['logp'], k['logl'], k['clogp'], k['clogl'])):
        return None
    try:
        logar = D(k['logp']) + D(k['logl']) * D(k['beta']) - D(k['clogp']) - D(k['clogl']) * D(k['beta'])
        if not k['symmetric']:
            hq = k.get('hq_independent') or k.get('hq', k['hast'])
            logar += D(hq[0]) - D(hq[1])
    except Exception:       # inf - inf and the like
        return None
    if logar.is_nan():
        return None
    if logar > 0:
        return 1.0
    if logar == D('-Infinity'):
        return 0.0
    return float(logar.exp())


def coq_case(k, forced=False):
    f = core.cfloat
    h = 'None' if k['symmetric'] else '(Some (%s, %s))' % (f(k['hast'][0]), f(k['hast'][1]))
    u = k.get('u')
    if 'raised' in k:
        obs = 'ONaN'
    else:
        acc, ar = k['ret']
        obs = '(ODec %s %s %s)' % ('true' if acc else 'false', f(ar), 'true' if u is not None else 'false')
    return '(%s, %s, %s, %s, %s, %s, %s, %s)' % (f(k['logp']), f(k['logl']), f(k['clogp']), f(k['clogl']), f(k['beta']), h,
                                                 f(u if u is not None else 0.5), obs)


def dictated_stats(rng):
    kind = rng.random()
    if kind < 0.55:
        return None                                      # the pure model's own values
    if kind < 0.7:
        return (round(rng.uniform(-50, 5), 3), round(rng.uniform(-5, 0), 3))
    if kind < 0.8:
        return (rng.choice([-1e3, -745.0, 700.0, 0.0, -1e-300]), -1.0)
    if kind < 0.88:
        return (-3.0, -numpy.inf)                        # zero prior probability
    if kind < 0.94:
        return (numpy.nan, -1.0)                         # NaN likelihood -> NaN acceptance
    return ('tie', 'tie')                                # same stats as the current point: logar = 0 exactly (symmetric case)


def lattice_check(rng, out, frac=None):
    """Exact transition matrix of real steps on a finite lattice (bounded discrete proposal, every proposal forced by a
    scripted normal draw, accept probability read from the recorded ratio): pi P = pi for pi = prior x likelihood^beta."""
    lo, hi = 0, rng.choice([3, 4, 5])
    sigma = rng.choice([1.0, 1.5, 2.5])
    beta = rng.choice([1.0, 0.5, 0.0])
    states = list(range(lo, hi + 1))
    logl = {s: round(rng.uniform(-3, 0), 2) for s in states}
    logp = {s: math.log(rng.uniform(0.2, 1.0)) for s in states}

    class M:
        def __call__(self, k):
            return logl[int(k)], logp[int(k)]
    model = M()
    # boundaries may be given as non-integers: "the floor (ceil) of the lower (upper) bound will be used" - the lattice is the same
    frac = (rng.random() < 0.5) if frac is None else frac
    bnds = (lo + 0.5, hi - 0.5) if frac else (lo, hi)
    prop = P.BoundedDiscrete(['k'], {'k': bnds}, cov=[sigma ** 2])
    ch = Chain(['k'], model, [prop], bit_generator=3, beta=beta)
    out.count('lattice_bounds_fractional' if frac else 'lattice_bounds_integer')
    n = len(states)
    Pm = numpy.zeros((n, n))
    # law of the jump: dx = sign(z)ceil|z| of z ~ N(0,sigma), redrawn until lo <= x+dx <= hi (dx != 0 a.s.)
    def cell(dx):
        a, b = (dx - 1, dx) if dx > 0 else (dx, dx + 1)
        return sstats.norm.cdf(b / sigma) - sstats.norm.cdf(a / sigma)
    for x in states:
        masses = {y: cell(y - x) for y in states if y != x}
        tot = sum(masses.values())
        stay = 0.0
        for y, m in masses.items():
            q = m / tot
            ch.start_position = {'k': x}
            ch._iteration, ch._lastclear = 0, 0
            ch._positions.clear(1); ch._stats.clear(1); ch._acceptance.clear(1)
            z = (y - x) - 0.5 if y > x else (y - x) + 0.5        # a draw in the middle of the cell of y

            ndraws = [0]

            def scr(owner, name, a, k, real):
                if name == 'normal':
                    ndraws[0] += 1
                    if ndraws[0] > 1:
                        raise TimeoutError('the scripted draw was refused')
                    return z
                return real(*a, **k)
            try:
                with GenTap(script=scr):
                    ch.step()
            except TimeoutError:
                return ('a bounded discrete proposal with boundaries %s refused the jump %d -> %d, which its documented support '
                        '(floor/ceil of the boundaries) contains' % (bnds, x, y)), dict(lo=lo, hi=hi, boundaries=bnds, sigma=sigma, x=x, y=y)
            except ValueError as e:
                return ('a step from the lattice point %d of a bounded discrete proposal with boundaries %s (documented support: floor/ceil of '
                        'the boundaries) raised %r' % (x, bnds, e)), dict(lo=lo, hi=hi, boundaries=bnds, sigma=sigma, x=x, y=y)
            out.evaluations += 1
            if int(ch.proposed_position['k']) != y:
                return 'scripted draw %r from %d proposed %r, cell of %d expected' % (z, x, ch.proposed_position['k'], y), dict(x=x, y=y)
            a = float(ch.acceptance[-1]['acceptance_ratio'])
            Pm[x - lo, y - lo] = q * a
            stay += q * (1 - a)
        Pm[x - lo, x - lo] = stay
    pi = numpy.array([math.exp(logp[s] + beta * logl[s]) for s in states])
    pi /= pi.sum()
    d = numpy.abs(pi @ Pm - pi).max()
    out.count('lattices')
    if d > 1e-12:
        return ('prior x likelihood^beta is not stationary for the exact kernel of real steps on a %d-state lattice (|pi P - pi| = %.3g)'
                % (n, d)), dict(lo=lo, hi=hi, boundaries=bnds, sigma=sigma, beta=beta, logl=logl, logp=logp)
    return None, None


def pt_levels_check(rng, out, nrun):
    """every level of a real parallel-tempered sampler (fixed and annealed ladders, hottest beta 0 or not) steps with the exact
    Metropolis-Hastings probability at the beta that the sampler REPORTS for that level (symmetric proposals: no Hastings term)"""
    from .. import configs as C
    fams = [f for f in sorted(C.ALL) if f in ('normal', 'adaptive_normal', 'ss_adaptive_normal', 'at_adaptive_normal_diag', 'at_adaptive_normal')]
    for i in range(nrun):
        cfg = C.gen(rng, kind='family', allow_annealer=False)
        annealed = i % 2 == 0
        cfg.update(pt=True, ntemps=rng.choice([3, 4] if annealed else [2, 3, 4]), nchains=rng.choice([1, 2]),
                   family=rng.choice(fams or sorted(C.ALL)), blobs=False)
        low = rng.choice([0.05, 0.3] if annealed else [0.0, 0.05, 0.3])
        cfg['betas'] = [1.0] + sorted([round(rng.uniform(0.35, 0.95), 3) for _ in range(cfg['ntemps'] - 2)], reverse=True) + [low]
        if annealed:
            # with Tmax_prior the annealer puts the hottest level at beta 0 whatever the ladder says
            cfg['annealer'] = dict(tau=rng.choice([20, 50]), nu=rng.choice([1, 2]), tmax=(i % 4 == 0) or rng.random() < 0.5)
        s = C.build(cfg)
        where = {}
        for ci, ch in enumerate(s.chains):
            for t, lv in enumerate(ch.chains):
                where[id(lv)] = (ch, ci, t)
        if not all(lv.proposal_dist.symmetric for ch in s.chains for lv in ch.chains):
            continue
        bad = []
        orig = Chain._acceptance_ratio

        def tap(self_, logp, logl, proposal, current_logp, current_logl, current_pos):
            acc, ar = orig(self_, logp, logl, proposal, current_logp, current_logl, current_pos)
            if id(self_) in where and len(bad) < 2:
                ch, ci, t = where[id(self_)]
                b = float(ch.betas[t])
                with numpy.errstate(all='ignore'):
                    lr = (float(logp) + b * float(logl)) - float(current_logp) - b * float(current_logl)
                want = 1.0 if lr > 0 else math.exp(lr)
                out.evaluations += 1
                if abs(float(ar) - want) > 1e-12 * max(1.0, want):
                    bad.append(dict(chain=ci, level=t, reported_beta=b, level_beta=float(self_.beta), recorded=float(ar), exact=want,
                                    iteration=int(self_.iteration) + 1))
            return acc, ar
        Chain._acceptance_ratio = tap
        try:
            s.start_position = C.start_position(cfg)
            s.run(12)
        finally:
            Chain._acceptance_ratio = orig
        out.count('pt_level_runs')
        out.count('pt_level_annealed' if cfg.get('annealer') else 'pt_level_fixed')
        for b_ in bad[:1]:
            out.violations.append(dict(
                what='level %d of a parallel-tempered chain (sampler reports beta %r for it; the level itself holds %r) stepped with acceptance '
                     'probability %.12g; the exact Metropolis-Hastings value at the reported beta is %.12g (iteration %d)'
                     % (b_['level'], b_['reported_beta'], b_['level_beta'], b_['recorded'], b_['exact'], b_['iteration']),
                replay=dict(config=cfg, **b_)))


def run(seed, tier):
    thorough = tier == 'thorough'
    rng = random.Random(seed * 49979687 + 1)
    out = core.Outcome()
    out.rule = ("real Chain.step() calls on chains of 10 proposal mixes (symmetric, bounded, joint of 2-3 families, slow constituents on "
                "and off their jump iteration, bounded discrete, adaptive ones at states reached by running, angular, bounded eigenvector), "
                "betas in {0, 1e-3, .25, .5, 1}, model outputs partly dictated (ties, extreme values, -inf prior, NaN likelihood), blobs "
                "on/off; every step is captured at the kernel boundary and is one Coq case for the float instance of mh_step; each "
                "decision is also re-driven with uniforms just below/above the recorded ratio. Direct oracle: 60-digit decimal "
                "min(1, p'L'^b q(x|x')/(p L^b q(x'|x))), forced reject, reject keeps position/stats/blob; exact transition matrices on "
                "lattices for pi P = pi; every level of real parallel-tempered samplers (fixed and annealed ladders) against the exact ratio at the beta the "
                "sampler reports for it. non-trivial = non-symmetric case with 0 < ar < 1; distinct = distinct kernel inputs")
    nchains = 800 if thorough else 30
    steps_per = 25 if thorough else 14
    terms, meta = [], []
    for c in range(nchains):
        kind = KINDS[c % len(KINDS)]
        beta = rng.choice([0.0, 1e-3, 0.25, 0.5, 1.0, 1.0])
        blobs = rng.random() < 0.4
        try:
            ch, model = make_chain(kind, rng, beta, blobs)
        except Exception as e:        # noqa
            out.corr_failures.append(dict(note='could not build chain', kind=kind, error=repr(e)))
            continue
        with GenTap() as gt:
            tap = StepTap(ch, gt)
            for s in range(steps_per):
                if s in (4, 9) and kind in ('bounded', 'adaptive_bounded', 'ss_bounded', 'at_bounded') and rng.random() < 0.6:
                    # legal changes of the proposal's internal state in mid-run: a reset of the adaptation, or a new width
                    # through the public setter
                    pr0 = ch.proposal_dist.proposals[0]
                    if hasattr(pr0, '_reset_adaptation') and rng.random() < 0.6:
                        ch.reset_proposals()
                        out.count('midrun_reset')
                    else:
                        pr0.std = [float(v) * rng.choice([0.3, 2.5]) for v in pr0._std]
                        out.count('midrun_std_setter')
                d = dictated_stats(rng)
                if d is not None and d[0] == 'tie':
                    cs = ch.current_stats
                    d = (float(cs['logl']), float(cs['logp']))
                model.next = d
                rec = tap.step()
                model.next = None
                out.evaluations += 1
                out.count('family_' + kind)
                k = rec['kernel']
                cur, cs, cb = rec['before']
                desc = dict(kind=kind, beta=beta, blobs=blobs, step=s, kernel=k, dictated=repr(d))
                if rec['raised'] and (k is None or 'raised' not in k):
                    out.violations.append(dict(what='step raised %r' % rec['raised'], replay=desc))
                    break
                if k is None:
                    # forced reject: the model said logp = -inf
                    out.count('forced_reject')
                    a = ch.acceptance[-1]
                    if bool(a['accepted']) or float(a['acceptance_ratio']) != 0.0:
                        out.violations.append(dict(what='a proposal of zero prior probability was not rejected with ratio 0', replay=desc))
                    acc = False
                elif 'raised' in k:
                    out.count('nan_acceptance_raised')
                    terms.append(coq_case(k))
                    meta.append(desc)
                    break
                else:
                    terms.append(coq_case(k))
                    meta.append(desc)
                    acc, ar = k['ret']
                    out.count('accepted' if acc else 'rejected')
                    out.count('symmetric' if k['symmetric'] else 'hastings')
                    if not k['symmetric'] and 0 < ar < 1:
                        out.nontrivial.add(repr(sorted(k.items(), key=repr)))
                    e = exact_ar(k)
                    if e is not None and abs(ar - e) > 1e-11 * max(e, 1e-300) + 1e-300:
                        out.violations.append(dict(what='recorded acceptance probability %r, exact Metropolis-Hastings ratio %r' % (ar, e),
                                                   replay=desc))
                    if k['u'] is not None and acc != (k['u'] <= ar):
                        out.violations.append(dict(what='decision %r with u=%r and ratio %r' % (acc, k['u'], ar), replay=desc))
                    rec_a = ch.acceptance[-1]
                    if float(rec_a['acceptance_ratio']) != ar or bool(rec_a['accepted']) != acc:
                        out.violations.append(dict(what='recorded acceptance differs from the decision', replay=desc))
                # reject keeps the chain exactly where it was
                if not acc:
                    now = (dict(ch.current_position), dict(ch.current_stats), ch.current_blob)
                    same = all(float(now[0][p]) == float(cur[p]) for p in cur if p != '_state') and \
                        all((float(now[1][q]) == float(cs[q])) or (now[1][q] != now[1][q] and cs[q] != cs[q]) for q in cs) and \
                        (cb is None or all(float(now[2][q]) == float(cb[q]) for q in cb))
                    if not same:
                        out.violations.append(dict(what='a rejected step did not leave position/stats/blob where they were', replay=desc))
                if len(out.samples) < 3 and k is not None and 'ret' in k and not k['symmetric']:
                    out.samples.append(desc)
            if len(out.violations) > 5:
                break
    # threshold cases: same kernel inputs, u just below / above the ratio
    extra = []
    for t, m in list(zip(terms, meta))[:400 if thorough else 120]:
        k = m['kernel']
        if 'ret' in k and k['u'] is not None and 0 < k['ret'][1] < 1:
            ar = k['ret'][1]
            for u, acc in ((ar * (1 - 1e-6), True), (min(ar * (1 + 1e-6), 1 - 2 ** -53), False)):
                if (u <= ar) != acc:
                    continue
                k2 = dict(k, u=u, ret=(acc, ar))
                extra.append((coq_case(k2), dict(m, kernel=k2, derived='threshold')))
    for t, m in extra:
        terms.append(t)
        meta.append(m)
    for i_ in range(60 if thorough else 4):
        what, rep = lattice_check(rng, out, frac=(i_ % 2 == 1))
        if what:
            out.violations.append(dict(what=what, replay=rep))
    pt_levels_check(rng, out, 24 if thorough else 6)
    # the q of the ratio is the law of the jump: a bounded eigenvector jump draws its direction once
    dens.forced_redraw_block(rng, out, 40 if thorough else 8)
    # steps of transdimensional chains (births and deaths of components): the recorded acceptance probability against the exact ratio with
    # independently computed birth, index-jump and in-model densities - C11's oracle, here as part of "every chain step"
    if len(out.violations) < 4:
        from . import c11 as _c11
        td = _c11.run(seed, 'quick', pid='C01td')          # (its own case files: C11 may be running at the same time)
        out.evaluations += td.evaluations
        out.count('transdimensional_steps', td.evaluations)
        for v in td.violations[:2]:
            out.violations.append(dict(what='transdimensional chain: ' + str(v.get('what')), replay=v.get('replay')))
        for cfl in td.corr_failures[:3]:
            out.corr_failures.append(dict(cfl, note='transdimensional chain: ' + str(cfl.get('note'))))
    failing = core.run_coq_cases('C01', HEADER, terms, per_file=500)
    codes = {1: 'acceptance differs', 2: 'ratio differs', 3: 'uniform consumption differs', 4: 'NaN handling differs'}
    for f in failing[:10]:
        out.corr_failures.append(dict(note='float mh_step and Chain.step disagree: ' + codes.get(f[1], '?'), case=meta[f[0]]))
    out.count('coq_cases', len(terms))
    return out


def replay(payload):
    r = payload.get('replay') or {}
    k = r.get('kernel')
    print('case:', r)
    if k and ('ret' in k or 'raised' in k):
        f = core.run_coq_cases('C01', HEADER, [coq_case(k)], tag='replay')
        print('model agrees with the recorded implementation outcome:', not f)
        print('exact ratio:', exact_ar(k))
    return 0
