"""C04 - same seed and inputs give bit-identical results in any process."""
import json
import os
import random
import subprocess
import sys
from concurrent.futures import ThreadPoolExecutor

import numpy

from .. import core, configs as C, wiring as W

ASSUMPTIONS = [
    "bit-reproducibility of PCG64, numpy, scipy, BLAS and CPython themselves across processes is not modelled: it is sampled by "
    "running every configuration in fresh interpreters under different PYTHONHASHSEED values, ambient numpy/random seeds, numbers of "
    "unrelated entropy-seeded objects built first, another sampler built and run first, and with/without a pool",
    "the seed sequence of a generator is read from BitGenerator.seed_seq (entropy, spawn_key)",
]
WORKER = os.path.join(core.VERIF, 'harness', 'c04_worker.py')


def run_job(job, hashseed):
    env = dict(os.environ, PYTHONPATH='/repo:/verif', PYTHONHASHSEED=str(hashseed), PYTHONDONTWRITEBYTECODE='1',
               OMP_NUM_THREADS='1', OPENBLAS_NUM_THREADS='1', MKL_NUM_THREADS='1')
    p = subprocess.run([sys.executable, WORKER, json.dumps(job)], env=env, stdout=subprocess.PIPE, stderr=subprocess.PIPE, text=True,
                       timeout=600)
    if p.returncode != 0:
        return dict(error=p.stderr[-800:])
    return json.loads(p.stdout.strip().splitlines()[-1])


def environments(rng, thorough):
    envs = [dict(hashseed=0, pre=dict()),
            dict(hashseed=1, pre=dict(np_seed=1, py_seed=2, junk=3)),
            dict(hashseed=2, pre=dict(np_seed=99, junk=11, other_sampler=True)),
            dict(hashseed='random', pre=dict(py_seed=5, junk=1, pool='pickle'))]
    if thorough:
        envs += [dict(hashseed=3, pre=dict(pool='mp')), dict(hashseed=12345, pre=dict(np_seed=7, junk=40)),
                 dict(hashseed='random', pre=dict(other_sampler=True, pool='pickle')), dict(hashseed=4, pre=dict(junk=2))]
    return envs


def seed_labels(s):
    out = []
    for ch in s.chains:
        bg = ch.bit_generator
        ss = getattr(bg, 'seed_seq', None) or getattr(bg, '_seed_seq', None)
        ent = ss.entropy if ss is not None else -1
        key = tuple(ss.spawn_key) if ss is not None else ()
        out.append((int(ent) if isinstance(ent, (int, numpy.integer)) else -1, key))
    return out


def run(seed, tier):
    thorough = tier == 'thorough'
    rng = random.Random(seed * 49979687 + 4)
    out = core.Outcome()
    out.rule = ("every sampler kind (28 family variants, joint mixes, transdimensional, the default proposal for all or for the unlisted "
                "parameters; MH and PT, fixed and annealed ladders, 1-3 chains) is rebuilt from scratch and rerun in 4 (thorough: 8) fresh "
                "interpreters that differ in PYTHONHASHSEED (0, 1, 2, random), ambient numpy/random seeds, the number of unrelated "
                "entropy-seeded objects and samplers created first, and the pool; SHA-256 of positions, stats, blobs, acceptance, swap "
                "history, ladders, final state and the proposals' parameter tuples must agree. In process: the generator of every drawing "
                "site and the seed sequence (entropy, spawn key) of every chain against Wiring.v under vm_compute. "
                "non-trivial = configuration whose digest is compared across >= 4 environments; distinct = configuration")
    envs = environments(rng, thorough)
    ncfg = 40 if thorough else 10
    cfgs = []
    for i in range(ncfg):
        kind = ['default', 'partial', 'td', 'joint', 'family'][i % 5]
        cfg = C.gen(rng, kind=kind)
        if kind == 'family' and i % 10 == 4:
            cfg['family'] = 'wide_normal_in_narrow_box'          # rarely taken code paths of the rejection loops
        cfg['nchains'] = rng.choice([1, 2, 3])
        if i % 5 == 1:
            cfg['seed'] = rng.choice([0, 0, 2 ** 64 + 12345])       # legal seeds at the ends of the range (0 is falsy in Python)
        cfgs.append((cfg, rng.choice([[5], [2, 4], [7]])))
    jobs = []
    for ci, (cfg, seg) in enumerate(cfgs):
        for ei, e in enumerate(envs):
            jobs.append((ci, ei, dict(config=cfg, segments=seg, pre=e['pre']), e['hashseed']))
    with ThreadPoolExecutor(max_workers=14) as ex:
        results = list(ex.map(lambda j: run_job(j[2], j[3]), jobs))
    by_cfg = {}
    for (ci, ei, job, hs), r in zip(jobs, results):
        by_cfg.setdefault(ci, []).append((ei, r))
        out.evaluations += 1
    for ci, rs in by_cfg.items():
        cfg, seg = cfgs[ci]
        out.count('kind_' + cfg['kind'])
        errs = [(ei, r['error']) for ei, r in rs if 'error' in r]
        if errs:
            out.corr_failures.append(dict(note='subprocess failed', case=dict(config=cfg, env=envs[errs[0][0]]), error=errs[0][1]))
            continue
        digs = {r['digest'] for _, r in rs}
        if len(digs) > 1:
            ref = rs[0][1]
            other = next((ei, r) for ei, r in rs if r['digest'] != ref['digest'])
            parts = [k for k in ref['parts'] if ref['parts'][k] != other[1]['parts'][k]]
            out.violations.append(dict(what='the same seed, configuration and start gave different %s in two interpreter sessions '
                                            '(environment %s vs %s)' % (parts, envs[rs[0][0]], envs[other[0]]),
                                       replay=dict(config=cfg, segments=seg, env_a=envs[rs[0][0]], env_b=envs[other[0]])))
            if len(out.violations) >= 3:
                break
        else:
            out.nontrivial.add(repr(cfg))
        if len(out.samples) < 2:
            out.samples.append(dict(config=cfg, segments=seg, digest=rs[0][1].get('digest')))
    # ---- in process: wiring of the random streams
    terms, metas, lterms, lmetas, keepalive = [], [], [], [], []
    for cfg, seg in cfgs + [(C.gen(rng), [2]) for _ in range(20 if thorough else 6)]:
        cfg = dict(cfg)
        cfg['nchains'] = max(cfg['nchains'], 2)
        try:
            s = C.build(cfg)
            s.start_position = C.start_position(cfg)
            s.run(2)
        except Exception as e:     # noqa
            out.corr_failures.append(dict(note='real sampler raised %r' % (e,), case=dict(config=cfg)))
            continue
        term, meta, keep = W.coq_case(s)
        keepalive.append((s, keep))
        terms.append(term)
        meta['config'] = cfg
        metas.append(meta)
        n, nl, npr = len(s.chains), cfg['ntemps'], len((s.chains[0].chains[0] if cfg['pt'] else s.chains[0]).proposal_dist.proposals)
        labs = seed_labels(s)
        lterms.append('((%d)%%Z, %d, %d, %d, %s)' % (cfg['seed'], n, nl, npr, core.clist(
            ['((%d)%%Z, %d)' % (e, k[0] if len(k) == 1 else 99999) for e, k in labs])))
        lmetas.append(dict(config=cfg, labels=[(e, list(k)) for e, k in labs]))
        # distinct chains must not share a stream: their generator states differ from the first draw on
        st = [json.dumps(ch.bit_generator.state, sort_keys=True, default=str) for ch in s.chains]
        if len(set(st)) != len(st):
            out.violations.append(dict(what='two chains of one sampler hold generators in the same state', replay=dict(config=cfg)))
        out.evaluations += 1
    failing = core.run_coq_cases('C04', W.HEADER, terms, per_file=200)
    codes = {1: 'the object graph differs from the constructed one', 2: "a drawing site uses a generator that is not its chain's",
             3: 'a mutable object is reachable from two chains'}
    for f in failing[:10]:
        out.corr_failures.append(dict(note='Wiring model and real object graph disagree: ' + codes.get(f[1], '?'), case=metas[f[0]]))
    failing = core.run_coq_cases('C04', W.HEADER + '\nNotation case := lcase.', lterms, eval_fn='failing_labels', per_file=400, tag='labels')
    for f in failing[:10]:
        out.corr_failures.append(dict(note="a chain's generator is not the stream spawned from the sampler's seed with the chain's index",
                                      case=lmetas[f[0]]))
    out.count('coq_cases', len(terms) + len(lterms))
    out.count('environments', len(envs))
    return out


def replay(payload):
    print(payload.get('what'))
    rp = payload.get('replay') or {}
    if 'env_a' in rp:
        a = run_job(dict(config=rp['config'], segments=rp['segments'], pre=rp['env_a']['pre']), rp['env_a']['hashseed'])
        b = run_job(dict(config=rp['config'], segments=rp['segments'], pre=rp['env_b']['pre']), rp['env_b']['hashseed'])
        print(a)
        print(b)
        return 0 if a.get('digest') == b.get('digest') else 1
    print(rp)
    return 0
