"""C16 - a state snapshot is a value: running cannot change it, it couples nothing."""
import pickle
import random

import numpy

from epsie import proposals as P
from epsie.samplers import MetropolisHastingsSampler, ParallelTemperedSampler

from .. import core
from .. import alias as A
from ..adapt import FAMILIES
from ..models import GaussModel

ASSUMPTIONS = [
    "registers of a sampler = the leaves of its state dict (positions, stats, blobs, generator state, clocks, every adaptation buffer); "
    "contents are compared as bit patterns; leaves longer than 6 words are compared through a SHA-256 digest",
    "whether an adaptation buffer was written in place or rebound between two observations is read off the identity of the live "
    "array returned by the proposal's own state getter",
    "the isolated twin used by the direct check loads a pickle copy of the state taken when it was read",
]

# families exercised through real chains only (their _update reads more of the chain than the stub of adapt.py offers)
EXTRA = {
    'at_adaptive_normal_componentwise':
        lambda T, k, start: P.ATAdaptiveNormal(['a', 'b'], adaptation_duration=T, componentwise=True, start_step=start, jump_interval=k),
    'at_adaptive_normal_componentwise_diag':
        lambda T, k, start: P.ATAdaptiveNormal(['a', 'b'], adaptation_duration=T, componentwise=True, diagonal=True, start_step=start,
                                               jump_interval=k),
}


def maker(name):
    return EXTRA[name] if name in EXTRA else FAMILIES[name][1]


DISCRETE = {'adaptive_discrete', 'adaptive_bounded_discrete', 'ss_adaptive_discrete', 'ss_adaptive_bounded_discrete'}
NAMES = sorted(FAMILIES) + sorted(EXTRA)


def short(c):
    return c if len(c) <= 6 else [c[0], A._digest(repr(c).encode())]


def contents(obj):
    return [short(c) for c in A.contents(obj)]


def build(cfg, seed):
    props = [maker(cfg['family'])(cfg['T'], cfg['k'], cfg['start'])]
    model = GaussModel(['a', 'b'], sigma=cfg['sigma'], mu=0.5, lo=-30., hi=30., blobs=cfg['blobs'], log=False)
    if cfg['pt']:
        ann = None
        if cfg.get('annealer'):
            from epsie.chain.ptchain import DynamicalAnnealer
            ann = DynamicalAnnealer(tau=20, nu=2, Tmax_prior=True)
        s = ParallelTemperedSampler(['a', 'b'], model, cfg['nchains'], betas=numpy.array(cfg['betas']),
                                    swap_interval=cfg['si'], proposals=props, adaptive_annealer=ann, seed=seed)
        shape = (len(cfg['betas']), cfg['nchains'])
    else:
        s = MetropolisHastingsSampler(['a', 'b'], model, cfg['nchains'], proposals=props, seed=seed)
        shape = (cfg['nchains'],)
    if cfg['family'] in DISCRETE:
        s.start_position = {'a': numpy.full(shape, 1, dtype=int), 'b': numpy.full(shape, 2, dtype=int)}
    else:
        s.start_position = {'a': numpy.full(shape, 1.0), 'b': numpy.full(shape, 0.5)}
    return s


def live_map(s, pt):
    tree = {}
    for ch in s.chains:
        if pt:
            tree[ch.chain_id] = {tk: {'proposal_dist': lv.proposal_dist.state} for tk, lv in enumerate(ch.chains)}
        else:
            tree[ch.chain_id] = {'proposal_dist': ch.proposal_dist.state}
    return {p: v for p, v in A.flatten(tree) if isinstance(v, numpy.ndarray)}


def gen_cfg(rng, thorough):
    pt = rng.random() < 0.4
    nt = rng.choice([2, 3]) if pt else 1
    return dict(family=rng.choice(NAMES), T=rng.choice([5, 12, 40]), k=rng.choice([1, 1, 2]), start=rng.choice([1, 1, 3]),
                sigma=rng.choice([0.5, 2.0]), blobs=rng.random() < 0.3, pt=pt, nchains=rng.choice([1, 1, 2]) if not pt else 1,
                betas=[1.0, 0.3, 0.05][:nt] if nt == 3 else [1.0, 0.2][:nt], si=rng.choice([1, 2]),
                nsamp=rng.choice([2, 3]), seeds=[rng.randrange(1, 10 ** 6) for _ in range(3)], annealer=(pt and nt == 3 and rng.random() < 0.6))


def gen_actions(rng, nsamp, thorough):
    acts = []
    nstates = 0
    n = rng.randrange(6, 12 if not thorough else 18)
    for _ in range(n):
        r = rng.random()
        if r < 0.45:
            acts.append(('run', rng.randrange(nsamp), rng.choice([1, 1, 2, 3])))
        elif r < 0.65 or nstates == 0:
            acts.append(('get', rng.randrange(nsamp)))
            nstates += 1
        else:
            acts.append(('set', rng.randrange(nsamp), rng.randrange(nstates)))
    acts.append(('run', 0, 2))
    acts.append(('run', nsamp - 1, 1))
    return acts


def run_case(cfg, acts, out, want_term=True):
    """Returns (coq term or None, violation or None)."""
    ns = cfg['nsamp']
    S = [build(cfg, cfg['seeds'][i]) for i in range(ns)]
    T = [build(cfg, cfg['seeds'][i]) for i in range(ns)]          # isolated twins
    for s in S + T:
        s.run(1)                                                   # fixes the layout (proposed_position exists)
    lay = A.layout(S[0].state)
    for s in S[1:]:
        if A.layout(s.state) != lay:
            return None, None
    cur = [contents(s.state) for s in S]
    ids = [[live_map(s, cfg['pt']).get(p) for p in lay] for s in S]
    vals = [list(c) for c in cur]
    states, snaps, frozen, frozen_layout = [], [], [], []
    steps = []
    viol = None
    for ai, act in enumerate(acts):
        ops = []
        if act[0] == 'run':
            _, s, n = act
            S[s].run(n)
            T[s].run(n)
            new = contents(S[s].state)
            nid = [live_map(S[s], cfg['pt']).get(p) for p in lay]
            ops = A.diff_ops(s, cur[s], new, ids[s], nid)
            cur[s], ids[s] = new, nid
            out.count('inplace_writes', sum(1 for o in ops if o[0] == 'inplace'))
            out.count('rebinds', sum(1 for o in ops if o[0] == 'rebind'))
        elif act[0] == 'get':
            s = act[1]
            st = S[s].state
            states.append(st)
            snaps.append(pickle.dumps(st))
            frozen.append(contents(st))
            frozen_layout.append(A.layout(st))
            ops = [('get', s)]
        else:
            _, s, k = act
            S[s].set_state(states[k])
            T[s].set_state(pickle.loads(snaps[k]))
            ops = [('set', s, k)]
            cur[s] = contents(S[s].state)
            ids[s] = [live_map(S[s], cfg['pt']).get(p) for p in lay]
        out.count('action_' + act[0])
        # observation of everything
        obs_s = [contents(s.state) for s in S]
        obs_k = [contents(st) for st in states]
        for k, (now, then) in enumerate(zip(obs_k, frozen)):
            if len(now) != len(then) and viol is None:
                lost = sorted(set(map(repr, frozen_layout[k])) - set(map(repr, A.layout(states[k]))))
                viol = dict(what='state object %d (read earlier) changed shape after action %d %r: entries lost %s'
                            % (k, ai, act, lost[:4]), replay=dict(config=cfg, actions=acts[:ai + 1]))
        if any(len(o) != len(lay) for o in obs_s + obs_k):
            return None, viol
        steps.append((ops, (obs_s, obs_k, [])))
        out.evaluations += 1
        # direct checks of the property on the real objects
        if viol is None:
            for k, (now, then) in enumerate(zip(obs_k, frozen)):
                if now != then:
                    bad = [lay[i] for i in range(len(lay)) if now[i] != then[i]]
                    viol = dict(what='state object %d (read earlier) changed after action %d %r: leaves %s'
                                % (k, ai, act, bad[:4]), replay=dict(config=cfg, actions=acts[:ai + 1]))
                    break
        if viol is None:
            for s in range(ns):
                tw = contents(T[s].state)
                if obs_s[s] != tw:
                    bad = [lay[i] for i in range(len(lay)) if obs_s[s][i] != tw[i]]
                    viol = dict(what='sampler %d differs from an isolated sampler given the same states and runs after action %d %r: leaves %s'
                                % (s, ai, act, bad[:4]), replay=dict(config=cfg, actions=acts[:ai + 1]))
                    break
    term = '(%s, [%s])' % (A.arrss(vals), ';\n  '.join(
        '(%s, (%s, %s, []))' % ('[' + '; '.join(A.coq_op(o) for o in ops) + ']', A.arrss(a), A.arrss(b)) for ops, (a, b, _) in steps))
    return term, viol


def nontrivial(cfg, acts):
    """a state loaded into >=2 samplers (or loaded and its source run on), with runs afterwards"""
    loaded = {}
    ok = False
    for a in acts:
        if a[0] == 'set':
            loaded.setdefault(a[2], set()).add(a[1])
        if a[0] == 'run' and any(len(v) >= 2 and a[1] in v for v in loaded.values()):
            ok = True
    return ok


def canon(x):
    """a state object as a comparable value (arrays by contents, dictionaries by sorted items)"""
    if isinstance(x, dict):
        return tuple(sorted((repr(sorted(k)) if isinstance(k, (set, frozenset)) else repr(k), canon(v)) for k, v in x.items()))
    if isinstance(x, (list, tuple)):
        return tuple(canon(v) for v in x)
    if isinstance(x, numpy.ndarray):
        return ('nd', str(x.dtype), x.shape, x.tobytes())
    if isinstance(x, float) and x != x:
        return 'nan'
    return repr(x) if not isinstance(x, (int, float, str, bool, type(None), bytes)) else x


def first_diff(a, b, path=''):
    if a == b:
        return None
    if isinstance(a, tuple) and isinstance(b, tuple) and len(a) == len(b):
        for i, (x, y) in enumerate(zip(a, b)):
            d = first_diff(x, y, path + '/%s' % (x[0] if isinstance(x, tuple) and len(x) == 2 and isinstance(x[0], str) else i))
            if d:
                return d
    return '%s: now %s, when read %s' % (path, str(a)[:120], str(b)[:120])


def whole_state_cases(rng, out, n):
    """the WHOLE state object of a sampler (positions, statistics, blobs, proposed position, proposals, ladder), transdimensional
    samplers included, read at every kind of moment - right after the start, after a clear, in mid-run -: it must not change while
    the sampler runs on, and loading it afterwards must work and give the sampler it described"""
    import pickle
    from .. import configs as C
    for i in range(n):
        td, moment = [(True, 'after_clear'), (False, 'after_clear'), (True, 'mid_run'), (True, 'after_clear'), (False, 'mid_run'),
                      (True, 'after_first_step'), (True, 'after_clear'), (False, 'after_first_step')][i % 8]
        cfg = C.gen(rng, kind='td' if td else None, allow_annealer=True)
        s = C.build(cfg)
        s.start_position = C.start_position(cfg)
        s.run(rng.choice([3, 6]) if moment != 'after_first_step' else 1)
        if moment == 'after_clear':
            s.clear()
        st = s.state
        ref = canon(pickle.loads(pickle.dumps(st)))
        s.run(rng.choice([4, 9]))
        out.evaluations += 1
        out.count('whole_state_' + moment)
        out.count('whole_state_' + cfg['kind'])
        desc = dict(kind='whole_state', config=cfg, moment=moment)
        if canon(st) != ref:
            a, b = canon(st), ref
            out.violations.append(dict(what='the state read %s changed while the sampler it was read from ran on (%s sampler): %s'
                                            % (moment.replace('_', ' '), cfg['kind'], first_diff(a, b)), replay=desc))
            return
        try:
            s2 = C.build(cfg, seed=cfg['seed'] + 5)
            s2.set_state(st)
        except Exception as e:      # noqa
            out.violations.append(dict(what='the state read %s could not be loaded after the sampler it was read from had run on: %r'
                                            % (moment.replace('_', ' '), e), replay=desc))
            return
        out.nontrivial.add(repr((cfg['kind'], moment, i)))


def run(seed, tier):
    thorough = tier == 'thorough'
    rng = random.Random(seed * 7919 + 16)
    out = core.Outcome()
    out.rule = ("2-3 real samplers (MH or PT, every adaptive family of the 18, blobs on/off, slow parameters) driven by random interleavings of "
                "run(n) / state read / set_state(any earlier state object, no serialisation); after every action the contents of every "
                "sampler, of every state object handed out so far are compared with the copying semantics of Alias.v (exec true true), "
                "and - directly - every state object with its contents when read and every sampler with an isolated twin. "
                "non-trivial = one state object loaded into >=2 samplers one of which then runs")
    terms, metas = [], []
    ncases = 160 if thorough else 36
    fams = list(NAMES)
    rng.shuffle(fams)
    for i in range(ncases):
        cfg = gen_cfg(rng, thorough)
        cfg['family'] = fams[i % len(fams)]
        acts = gen_actions(rng, cfg['nsamp'], thorough)
        try:
            term, viol = run_case(cfg, acts, out)
        except Exception as e:          # noqa
            import traceback
            out.corr_failures.append(dict(note='real sampler raised %r' % (e,), case=dict(config=cfg, actions=acts),
                                          traceback=traceback.format_exc()[-1500:]))
            continue
        out.count('family_' + cfg['family'])
        out.count('pt' if cfg['pt'] else 'mh')
        if viol:
            out.violations.append(viol)
            if len(out.violations) >= 3:
                break
        if term is None:
            out.count('layout_varies_skipped')
            continue
        terms.append(term)
        metas.append(dict(config=cfg, actions=acts))
        if nontrivial(cfg, acts):
            out.nontrivial.add(repr((cfg['family'], cfg['pt'], acts)))
        if len(out.samples) < 2:
            out.samples.append(dict(config=cfg, actions=acts))
    if len(out.violations) < 3:
        whole_state_cases(rng, out, 48 if thorough else 16)
    failing = core.run_coq_cases('C16', A.HEADER, terms, eval_fn='failing16', per_file=4)
    for f in failing[:10]:
        out.corr_failures.append(dict(note='copying semantics (Alias.v) and the real objects disagree at action %d' % (f[1] - 1),
                                      case=metas[f[0]]))
    out.count('coq_cases', len(terms))
    return out


def replay(payload):
    rp = payload.get('replay') or payload
    print(payload.get('what'))
    if isinstance(rp, dict) and 'config' in rp:
        out = core.Outcome()
        _, viol = run_case(rp['config'], [tuple(a) for a in rp['actions']], out)
        print('on the current tree:', viol['what'] if viol else 'no violation')
        return 1 if viol else 0
    return 0
