from .machine_props import run_property, replay as _replay, ASSUMPTIONS


def run(seed, tier):
    return run_property('C18', seed, tier)


def replay(payload):
    return _replay('C18', payload)
