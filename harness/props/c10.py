"""C10 - transdimensional states are well formed, and stay so."""
import copy
import math
import pickle
import random

import numpy

from epsie import proposals as P
from epsie.proposals.base import BaseBirth

from .. import core, machine, configs as C
from ..trace import Interner

ASSUMPTIONS = [
    "the oracle of one jump (new index, chosen components, births, in-model proposals) is captured by wrapping the model proposal's "
    "jump, Generator.choice, the birth distributions' birth property and the in-model proposals' jump on live instances",
    "numpy's choice(indx, size, replace=False) returns distinct elements of indx (premise of the theorem)",
    "values are interned (NaN = -2); comparison of copied values is exact",
]
HEADER = ('From Coq Require Import ZArith List.\nFrom Epsie Require Import Base TD Exec.ExecC10.\nImport ListNotations.\n'
          'Local Open Scope Z_scope.')


def zl(xs):
    return '[' + '; '.join('(%d)' % x for x in xs) + ']'


def zll(xss):
    return '[' + '; '.join(zl(x) for x in xss) + ']'


def bl(xs):
    return '[' + '; '.join('true' if x else 'false' for x in xs) + ']'


class JumpTap:
    """Wraps the constituents of one NestedTransdimensional instance."""

    def __init__(self, td):
        self.td = td
        self.rec = None

    def __enter__(self):
        td, tap = self.td, self
        self.saved = []
        mp = td.model_proposal
        o_mp = mp.jump

        def mp_jump(fromx):
            r = o_mp(fromx)
            tap.rec['newk'] = int(r[td._index])
            return r
        mp.jump = mp_jump
        self.saved.append((mp, 'jump'))
        for ci, prop in enumerate(td.proposals):
            o_j = prop.jump

            def pj(fromx, _o=o_j, _ci=ci, _prop=prop):
                r = _o(fromx)
                tap.rec['jumps'][_ci] = [float(r[p]) for p in _prop.parameters]
                return r
            prop.jump = pj
            self.saved.append((prop, 'jump'))
        # births: a property on the class -> wrap on a per-instance subclass
        for ci, prop in enumerate(td.proposals):
            bd = prop.birth_distribution
            cls = type(bd)
            o_b = cls.birth

            def getter(self_, _o=o_b, _ci=ci, _prop=prop):
                r = _o.fget(self_)
                tap.rec['births'][_ci] = [float(r[p]) for p in _prop.parameters]
                return r
            sub = type(cls.__name__ + 'Tapped', (cls,), {'birth': property(getter)})
            bd.__class__ = sub
            self.saved.append((bd, cls))
        # Generator.choice through the random_generator property of this instance's class
        tcls = type(td)
        o_rg = tcls.random_generator

        class G:
            def __init__(self, g):
                self.g = g

            def __getattr__(self, name):
                return getattr(self.g, name)

            def choice(self, a, size=None, replace=True, **kw):
                r = self.g.choice(a, size=size, replace=replace, **kw)
                tap.rec['mask'] = [int(x) for x in numpy.asarray(r).reshape(-1)]
                tap.rec['choice_from'] = [int(x) for x in numpy.asarray(a).reshape(-1)]
                return r
        sub = type(tcls.__name__ + 'Tapped', (tcls,), {'random_generator': property(lambda s: G(o_rg.fget(s)))})
        td.__class__ = sub
        self.saved.append((td, tcls))
        return self

    def __exit__(self, *a):
        for obj, what in self.saved:
            if isinstance(what, str):
                try:
                    delattr(obj, what)
                except AttributeError:
                    pass
            else:
                obj.__class__ = what

    def jump(self, fromx):
        n = len(self.td.proposals)
        self.rec = dict(newk=None, mask=[], births=[None] * n, jumps=[None] * n)
        out = self.td._jump(fromx)
        return out, self.rec


def wf(pos, act, comps, index, lo, hi):
    """direct statement of the property on a real (position, active set) pair; returns '' or what is wrong"""
    k = pos[index]
    try:
        kf = float(k)
    except Exception:       # noqa
        return 'index %r is not a number' % (k,)
    if kf != int(kf):
        return 'index %r is not an integer' % (k,)
    if int(kf) != sum(1 for a in act if a):
        return 'index %d but %d active components (%s)' % (int(kf), sum(1 for a in act if a), list(map(bool, act)))
    if not (lo <= int(kf) <= hi):
        return 'index %d outside [%d, %d]' % (int(kf), lo, hi)
    for c, (params, on) in enumerate(zip(comps, act)):
        vs = [float(pos[p]) for p in params]
        if on and not all(math.isfinite(v) for v in vs):
            return 'active component %d has a non-finite parameter %s' % (c, vs)
        if not on and not all(v != v for v in vs):
            return 'inactive component %d is not NaN: %s' % (c, vs)
    return ''


def gen_state(rng, n, multi):
    act = [rng.random() < 0.5 for _ in range(n)]
    pos = {}
    comps = []
    for c in range(n):
        params = ['a%d' % (c + 1)]
        comps.append(params)
        for p in params:
            pos[p] = round(rng.uniform(0.2, 3.8), 4) if act[c] else numpy.nan
    pos['k'] = sum(act)
    return pos, act, comps


def jump_cases(rng, out, ncfg, njump):
    terms, metas = [], []
    for _ in range(ncfg):
        cfg = dict(td_n=rng.choice([2, 3, 4, 5]), td_family=rng.choice(['normal', 'adaptive_normal', 'ss_adaptive_normal', 'at_adaptive_normal']),
                   birth=rng.choice(['uniform', 'normal', 'lognormal']), successive=rng.random() < 0.4, T=10,
                   kcov=rng.choice([1.0, 4.0, 9.0]))
        cfg['td_k'] = 1 if _ % 3 else rng.choice([2, 3])         # slow in-model proposals, met at every phase of their clock
        cfg['mixseed'] = _ % 2                                   # every other proposal: births built from one shared dictionary
        td = C.td_proposal(cfg)
        td.model_proposal.cov = numpy.array([cfg['kcov']]) if hasattr(td.model_proposal, 'cov') else None
        try:
            td.model_proposal._std = numpy.array([cfg['kcov'] ** 0.5])
        except Exception:     # noqa
            pass
        td.bit_generator = numpy.random.PCG64(rng.randrange(1, 10 ** 9))
        n = cfg['td_n']
        comps = [list(p.parameters) for p in td.proposals]
        I = Interner()
        with JumpTap(td) as tap:
            for _ in range(njump):
                pos, act, _ = gen_state(rng, n, False)
                if cfg['td_k'] > 1:
                    for pr in td.proposals:
                        pr._nsteps = rng.randrange(0, 3 * cfg['td_k'])
                fromx = dict(pos)
                fromx['_state'] = numpy.array(act)
                try:
                    res, rec = tap.jump(dict(fromx))
                except Exception as e:       # noqa
                    out.corr_failures.append(dict(note='_jump raised %r' % (e,), case=dict(config=cfg, position=repr(pos), active=act)))
                    continue
                out.evaluations += 1
                st = [bool(x) for x in res['_state']]
                dk = int(res['k']) - int(pos['k'])
                out.count('dk_%+d' % dk)
                why = wf(res, st, comps, 'k', 0, n)
                if why:
                    out.violations.append(dict(what='proposed point is not well formed: %s' % why,
                                               replay=dict(config=cfg, position={k: repr(v) for k, v in pos.items()}, active=act,
                                                           oracle={k: repr(v) for k, v in rec.items()},
                                                           proposed={k: repr(v) for k, v in res.items()})))
                    if len(out.violations) > 3:
                        return terms, metas
                births = [[I(v) for v in (b if b is not None else [0.5] * len(comps[c]))] for c, b in enumerate(rec['births'])]
                jumps = [[I(v) for v in (j if j is not None else [0.5] * len(comps[c]))] for c, j in enumerate(rec['jumps'])]
                terms.append('C %s %d %s %d %s %s %s %s %d %s' % (
                    zll([[I(pos[p]) for p in ps] for ps in comps]), int(pos['k']), bl(act),
                    rec['newk'] if rec['newk'] is not None else int(res['k']),
                    '[' + '; '.join('%d%%nat' % m for m in rec['mask']) + ']', zll(births), zll(jumps),
                    zll([[I(res[p]) for p in ps] for ps in comps]), int(res['k']), bl(st)))
                metas.append(dict(config=cfg, position={k: repr(v) for k, v in pos.items()}, active=act,
                                  oracle={k: repr(v) for k, v in rec.items()}))
                if dk != 0:
                    out.nontrivial.add(repr((cfg['td_n'], tuple(act), dk, tuple(rec['mask']))))
                    # premises of the theorem, checked on what numpy returned
                    m = rec['mask']
                    pool = [c for c in range(n) if (not act[c]) == (dk > 0)]
                    if len(set(m)) != len(m) or len(m) != abs(dk) or any(x not in pool for x in m):
                        out.corr_failures.append(dict(note='choice() returned %s for dk=%d from %s: premise of C10_jump_wf not met' % (m, dk, pool),
                                                      case=metas[-1]))
    return terms, metas


def chain_runs(rng, out, nruns, thorough):
    """real MH/PT chains: every level after every iteration, across clear and pickle-resume"""
    for _ in range(nruns):
        cfg = C.gen(rng, kind='td', allow_annealer=False)
        if _ % 2 == 0:
            cfg.update(pt=True, ntemps=3, betas=[1.0, 0.5, 0.1], si=1, blobs=True)
        n = cfg['td_n']
        comps = [['a%d' % i] for i in range(1, n + 1)]
        s = C.build(cfg)
        s.start_position = C.start_position(cfg)
        niter = rng.choice([10, 20] if not thorough else [30, 60])
        events = sorted(rng.sample(range(3, niter), 2))
        how = rng.choice(['fresh', 'fresh_started', 'rewind'])
        what = None
        early = None
        for it in range(1, niter + 1):
            s.run(1)
            if it == 2:
                early = pickle.loads(pickle.dumps(s.state))
            if it == events[0]:
                s.clear()
                if cfg['mixseed'] % 3 == 0:
                    # a restart: new start positions (another pattern of active components) on the cleared sampler
                    s.start_position = C.start_position(cfg, random.Random(cfg['mixseed'] + 77))
                    out.count('restart_after_clear')
            if it == events[1]:
                if how == 'rewind':                      # load an earlier state into the running sampler
                    s.set_state(early)
                else:
                    st = pickle.loads(pickle.dumps(s.state))
                    s2 = C.build(cfg, seed=cfg['seed'] + 1)
                    if how == 'fresh_started':           # 'build, set start, resume if a checkpoint exists'
                        s2.start_position = C.start_position(cfg, random.Random(cfg['mixseed'] + 99))
                    s2.set_state(st)
                    s = s2
                out.count('load_' + how)
            for ci, ch in enumerate(s.chains):
                for li, lv in enumerate(ch.chains if cfg['pt'] else [ch]):
                    out.evaluations += 1
                    pos = lv.current_position
                    act = [bool(x) for x in lv._active_props]
                    why = wf(pos, act, comps, 'k', 0, n)
                    if not why and lv.proposed_position is not None and '_state' in lv.proposed_position:
                        pp = lv.proposed_position
                        why = wf(pp, [bool(x) for x in pp['_state']], comps, 'k', 0, n)
                        why = 'proposed position: ' + why if why else ''
                    if not why:
                        pat = [not all(float(pos[p]) != float(pos[p]) for p in ps) for ps in comps]
                        if pat != act:
                            why = 'internal active set %s differs from the NaN pattern %s' % (act, pat)
                    if why and what is None:
                        what = 'iteration %d, chain %d, level %d: %s' % (it, ci, li, why)
            if what:
                break
        out.count('chain_runs')
        out.count('pt' if cfg['pt'] else 'mh')
        if what:
            out.violations.append(dict(what=what, replay=dict(config=cfg, niter=niter, clear_at=events[0], load_at=events[1], load_how=how)))
            if len(out.violations) > 3:
                return


def run(seed, tier):
    thorough = tier == 'thorough'
    rng = random.Random(seed * 2750159 + 10)
    out = core.Outcome()
    out.rule = ("(a) real NestedTransdimensional._jump on random well-formed states (2-5 components, every active pattern, three birth laws, "
                "four in-model families, index proposal with std 1-3 so that |dk| up to 4 occurs), its oracle captured and replayed by td_jump "
                "under vm_compute; (b) real MH/PT transdimensional samplers: position, active set, proposed position and NaN pattern of "
                "every level after every iteration, across a clear and a state load (pickle resume into a fresh sampler, into a fresh sampler whose start was already set, or rewind of the running sampler to an earlier state). "
                "(c) transdimensional MH/PT samplers under random run/clear/set_state schedules replayed on the Coq chain machine (active set, "
                "NaN pattern at start and on set_state, whole-state exchange in sweeps). non-trivial = a jump that changes the dimension; distinct = (n, active set, dk, chosen components)")
    terms, metas = jump_cases(rng, out, 40 if thorough else 10, 120 if thorough else 40)
    failing = core.run_coq_cases('C10', HEADER, terms, per_file=400)
    for f in failing[:10]:
        out.corr_failures.append(dict(note='td_jump (TD.v) and NestedTransdimensional._jump disagree', case=metas[f[0]]))
    out.count('coq_cases', len(terms))
    if len(out.violations) < 4:
        chain_runs(rng, out, 80 if thorough else 14, thorough)
    # (c) the chain/PT machine on transdimensional samplers: active sets through steps, sweeps, clear, set_state
    mterms, mmeta = [], []
    for _ in range(90 if thorough else 14):
        cfg = machine.Config(rng, thorough=thorough, td=True)
        sched = machine.gen_ops(rng, thorough)
        cb = machine.CaseBuilder(cfg, sched, rng.randrange(10 ** 6))
        try:
            ts = cb.run()
        except Exception as e:      # noqa
            import traceback
            out.corr_failures.append(dict(note='harness/implementation exception while building a machine case',
                                          config=cfg.describe(), schedule=sched, error=traceback.format_exc()[-1200:]))
            continue
        for ev in cb.events:
            if ev['raised']:
                out.corr_failures.append(dict(note='implementation raised during a legal operation', config=cfg.describe(),
                                              schedule=sched, error=ev['raised']))
        out.evaluations += 1
        out.count('machine_cases')
        for t in ts:
            mterms.append(t)
            mmeta.append((cfg, sched))
    failing = core.run_coq_cases('C10', machine.HEADER, mterms, per_file=12, tag='machine')
    for f in failing[:10]:
        cfg, sched = mmeta[f[0]]
        out.corr_failures.append(dict(note='Coq machine and implementation differ after operation %d' % f[1],
                                      config=cfg.describe(), schedule=sched))
    out.count('coq_machine_cases', len(mterms))
    return out


def replay(payload):
    print(payload.get('what'))
    print(payload.get('replay'))
    return 0
