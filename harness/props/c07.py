"""C07 - chains are independent of the pool, of scheduling and of each other."""
import copy
import multiprocessing
import random

import numpy

from .. import core, configs as C, wiring as W, pools
from ..compare import struct_diff

ASSUMPTIONS = [
    "a chain's evolution touches only objects reachable from that chain (premise 'confined' of the theorems): not provable about "
    "Python code, checked behaviourally by the pool and perturbation experiments",
    "operating-system process pools enter only through map semantics (evaluation order, copying/pickling of arguments); real "
    "multiprocessing pools are exercised in the thorough tier",
    "the process-wide numpy RandomState referenced by scipy's frozen distributions is excluded from the sharing scan (never drawn from)",
]


def chain_histories(s, pt):
    out = []
    for ch in s.chains:
        h = dict(positions=ch.positions, stats=ch.stats, acceptance=ch.acceptance)
        if ch.hasblobs:
            h['blobs'] = ch.blobs
        if pt:
            h['swaps'] = ch.temperature_swaps
            h['swap_acceptance'] = ch.temperature_acceptance
            h['betas'] = numpy.array(ch.betas, dtype=float)
        h['state'] = ch.state
        out.append(h)
    return out


def run_with(cfg, pool, segments, start=None):
    s = C.build(cfg, pool=pool)
    s.start_position = start if start is not None else C.start_position(cfg)
    for n in segments:
        s.run(n)
    return s


def pool_case(cfg, segments, out, real_pool=None):
    ref = chain_histories(run_with(cfg, None, segments), cfg['pt'])
    plist = pools.all_pools(cfg['seed'])[1:]
    if real_pool is not None:
        plist = plist + [real_pool]
    for pool in plist:
        name = getattr(pool, 'name', type(pool).__name__)
        try:
            got = chain_histories(run_with(cfg, pool, segments), cfg['pt'])
        except Exception as e:      # noqa
            return dict(what='running through pool %s raised %r' % (name, e), replay=dict(kind='pool', config=cfg, segments=segments, pool=name))
        out.evaluations += 1
        out.count('pool_' + name)
        for ci, (a, b) in enumerate(zip(got, ref)):
            d = struct_diff(a, b)
            if d:
                return dict(what='chain %d run through pool %s differs from the serial run: %s' % (ci, name, d),
                            replay=dict(kind='pool', config=cfg, segments=segments, pool=name))
    return None


def perturb_case(cfg, segments, rng, out):
    base = C.start_position(cfg)
    ref = chain_histories(run_with(cfg, None, segments, start=base), cfg['pt'])
    j = rng.randrange(cfg['nchains'])
    pert = {p: numpy.array(v, copy=True) for p, v in base.items()}
    other = C.start_position(cfg, random.Random(cfg['mixseed'] + 4242))
    for p in pert:
        pert[p][..., j] = other[p][..., j]
    got = chain_histories(run_with(cfg, None, segments, start=pert), cfg['pt'])
    out.evaluations += 1
    changed = bool(struct_diff(got[j], ref[j]))
    out.count('perturbation_changed_target' if changed else 'perturbation_same_target')
    for i in range(cfg['nchains']):
        if i == j:
            continue
        d = struct_diff(got[i], ref[i])
        if d:
            return dict(what='changing the start of chain %d changed chain %d: %s' % (j, i, d),
                        replay=dict(kind='perturb', config=cfg, segments=segments, perturbed=j)), changed
    return None, changed


def shared_state_case(cfg, rng, out):
    """One state object reaches two samplers - a serial one and one whose chains go through a copying pool (the same checkpoint set
    on both; what a warm start from another run does): each must run as if it had been given a private copy, i.e. like a third
    sampler loaded from a pickled copy of the state, and whichever runs first must not change what the other one does."""
    import pickle
    src = run_with(cfg, None, [rng.choice([7, 12])])
    st = src.state
    frozen = pickle.dumps(st)
    ref = C.build(cfg, seed=cfg['seed'] + 3)
    ref.set_state(pickle.loads(frozen))
    ref.run(6)
    want = chain_histories(ref, cfg['pt'])
    a = C.build(cfg, seed=cfg['seed'] + 3)
    b = C.build(cfg, seed=cfg['seed'] + 3, pool=pools.CopyMap())
    a.set_state(st)
    b.set_state(st)
    a.run(6)
    b.run(6)
    out.evaluations += 1
    out.count('shared_state_cases')
    for name, smp in (('the serial sampler', a), ('the sampler run through a copying pool after the serial one had run', b)):
        for ci, (x, y) in enumerate(zip(chain_histories(smp, cfg['pt']), want)):
            d = struct_diff(x, y)
            if d:
                return dict(what='one state object loaded into two samplers: chain %d of %s differs from a sampler loaded from a private '
                                 'copy of that state: %s' % (ci, name, d), replay=dict(kind='shared_state', config=cfg))
    return None


def run(seed, tier):
    thorough = tier == 'thorough'
    rng = random.Random(seed * 32452843 + 7)
    out = core.Outcome()
    out.rule = ("real samplers of every kind (28 family variants, joint mixes, transdimensional; MH and PT with fixed and annealed ladders; "
                "2-4 chains; runs split into 1-3 segments): (a) per-chain histories, ladders and final states under seven map "
                "implementations (serial object, reversed and shuffled evaluation order, deep-copying, pickling one by one and in chunks "
                "of 2 and 3) against the built-in map (thorough: real multiprocessing pools of 2 and 4 workers); (b) the start of one "
                "chain replaced, every other chain compared; (c) the object graph (generator, annealer, proposal copies per chain; the "
                "generator of every drawing site; mutable objects reachable from two chains) against Wiring.construct under vm_compute. "
                "non-trivial = configuration with adaptive state (adaptive proposal or annealer) and >= 2 chains; distinct = configuration")
    terms, metas, keepalive = [], [], []
    ncfg = 120 if thorough else 44
    fams = sorted(C.ALL)
    rng.shuffle(fams)
    real_pools = []
    if thorough:
        real_pools = [multiprocessing.Pool(2), multiprocessing.Pool(4)]
    try:
        for i in range(ncfg):
            if i < len(fams) or (thorough and i % 2 == 0):
                cfg = C.gen(rng, kind='family')              # every proposal family takes its turn
                cfg['family'] = fams[i % len(fams)]
                cfg['T'] = rng.choice([15, 40])              # the second run() call starts inside the adaptation window
            else:
                cfg = C.gen(rng)
            cfg['nchains'] = rng.choice([2, 3]) if not thorough else rng.choice([2, 3, 4])
            if i % 4 == 0 and cfg['pt'] and cfg['ntemps'] >= 3 and not cfg['annealer']:
                cfg['annealer'] = dict(tau=rng.choice([20, 50]), nu=rng.choice([1, 2]), tmax=rng.random() < 0.6)
            segments = rng.choice([[6], [5, 4], [4, 1, 5], [6, 6]])
            out.count('kind_' + cfg['kind'])
            out.count('pt' if cfg['pt'] else 'mh')
            if cfg['annealer']:
                out.count('annealed')
            try:
                v = pool_case(cfg, segments, out, real_pool=(real_pools[i % 2] if real_pools and i % 3 == 0 else None))
                if v is None:
                    v, changed = perturb_case(cfg, segments, rng, out)
                if v is None and i % 2 == 0:
                    v = shared_state_case(cfg, rng, out)
            except Exception as e:      # noqa
                import traceback
                out.corr_failures.append(dict(note='real sampler raised %r' % (e,), case=dict(config=cfg, segments=segments),
                                              traceback=traceback.format_exc()[-1200:]))
                continue
            if v:
                out.violations.append(v)
                if len(out.violations) >= 3:
                    break
            s = run_with(cfg, None, [2])
            term, meta, keep = W.coq_case(s)
            keepalive.append((s, keep))
            terms.append(term)
            meta['config'] = cfg
            metas.append(meta)
            adaptive = cfg['kind'] != 'family' or 'adaptive' in cfg.get('family', '') or cfg['annealer']
            if adaptive:
                out.nontrivial.add(repr(cfg))
            if len(out.samples) < 2:
                out.samples.append(dict(config=cfg, segments=segments))
    finally:
        for p in real_pools:
            p.terminate()
    failing = core.run_coq_cases('C07', W.HEADER, terms, per_file=200)
    codes = {1: 'the object graph differs from the constructed one', 2: 'a drawing site uses a generator that is not its chain\'s',
             3: 'a mutable object is reachable from two chains'}
    for f in failing[:10]:
        out.corr_failures.append(dict(note='Wiring model and real object graph disagree: ' + codes.get(f[1], '?'), case=metas[f[0]]))
    out.count('coq_cases', len(terms))
    return out


def replay(payload):
    print(payload.get('what'))
    rp = payload.get('replay') or {}
    out = core.Outcome()
    if rp.get('kind') == 'pool':
        v = pool_case(rp['config'], rp['segments'], out)
        print('on the current tree:', v['what'] if v else 'no violation')
        return 1 if v else 0
    if rp.get('kind') == 'perturb':
        v, _ = perturb_case(rp['config'], rp['segments'], random.Random(0), out)
        print('on the current tree:', v['what'] if v else 'no violation (perturbed chain chosen at random)')
        return 1 if v else 0
    print(rp)
    return 0
