"""C02 - a proposal's reported density is the law of its jumps; symmetric is symmetric."""
import math
import random

import numpy
from scipy import stats as sstats

from epsie import proposals as P

from .. import core, dens
from ..trace import GenTap

ASSUMPTIONS = [
    "the law of a jump is its push-forward of the generator's draws: numpy Generator.normal/random/uniform deliver i.i.d. draws with their "
    "documented laws (premise); the search for a failing input feeds jump() a deterministic quantile grid instead",
    "FloatLib2 (erf/erfc/normal masses, sin, cos, atan2, acos, python modulo) agrees with numpy/scipy to 1e-9 on the ranges used",
    "solid-angle densities are densities with respect to the solid-angle measure, as the implementation defines them",
    "bounded eigenvector: the two intersections of the jump line with the box come from the real _intersects()",
]
SYMMETRIC_TABLE = {
    'Normal': True, 'AdaptiveNormal': True, 'SSAdaptiveNormal': True, 'ATAdaptiveNormal': True,
    'BoundedNormal': False, 'AdaptiveBoundedNormal': False, 'SSAdaptiveBoundedNormal': False, 'ATAdaptiveBoundedNormal': False,
    'Angular': True, 'AdaptiveAngular': True, 'SSAdaptiveAngular': True, 'ATAdaptiveAngular': True,
    'NormalDiscrete': True, 'AdaptiveNormalDiscrete': True, 'SSAdaptiveNormalDiscrete': True,
    'BoundedDiscrete': False, 'AdaptiveBoundedDiscrete': False, 'SSAdaptiveBoundedDiscrete': False,
    'Eigenvector': True, 'AdaptiveEigenvector': True, 'BoundedEigenvector': False, 'AdaptiveBoundedEigenvector': False,
    'IsotropicSolidAngle': True, 'AdaptiveIsotropicSolidAngle': True,
}


class GridScript:
    """hands out a fixed quantile grid of standard normal draws, one per request, cycling"""

    def __init__(self, n):
        u = (numpy.arange(n) + 0.5) / n
        self.z = sstats.norm.ppf(u)
        self.k = 0
        self.used = 0

    def __call__(self, owner, method, a, k, real):
        if method == 'normal':
            loc = k.get('loc', a[0] if len(a) > 0 else 0.0)
            scale = k.get('scale', a[1] if len(a) > 1 else 1.0)
            z = self.z[self.k % len(self.z)]
            self.k += 1
            return loc + scale * z
        return real(*a, **k)


def discrete_law(prop, param, fromx, ngrid):
    """empirical law of jump() for one parameter when the generator delivers a quantile grid:
    every grid point is used exactly once; rejected ones are skipped by the rejection loop"""
    sc = GridScript(ngrid)
    counts = {}
    n = 0
    with GenTap(script=sc):
        while sc.k < ngrid:
            before = sc.k
            r = prop.jump(dict(fromx))
            if sc.k > ngrid:
                break
            counts[int(r[param])] = counts.get(int(r[param]), 0) + 1
            n += 1
    return {k: v / n for k, v in counts.items()}, n


def discrete_quadrature(rng, out, thorough):
    """reported pmf of the discrete families vs the push-forward of the jump"""
    ngrid = 40000 if thorough else 6000
    cfgs = []
    for succ in (False, True):
        for std in (0.7, 2.0, 4.5):
            cfgs.append(('discrete', succ, std, None, rng.randint(-2, 2)))
            for (lo, hi) in ((0, 3), (-4, 5), (1, 9), (0.5, 7.5)):
                ilo, ihi = int(math.floor(lo)), int(math.ceil(hi))
                for mu in sorted({ilo, ihi, rng.randint(ilo, ihi)}):
                    cfgs.append(('bounded_discrete', succ, std, (lo, hi), mu))
    rng.shuffle(cfgs)
    for fam, succ, std, bnd, mu in cfgs[:(len(cfgs) if thorough else 14)]:
        if fam == 'discrete':
            prop = P.NormalDiscrete(['a'], cov=[std ** 2], successive={'a': succ})
        else:
            prop = P.BoundedDiscrete(['a'], {'a': bnd}, cov=[std ** 2], successive={'a': succ})
        prop.bit_generator = numpy.random.PCG64(1)
        law, n = discrete_law(prop, 'a', {'a': mu}, ngrid)
        out.evaluations += 1
        out.count('quadrature_' + fam)
        worst = None
        for k, pk in sorted(law.items()):
            with numpy.errstate(all='ignore'):
                rep = math.exp(float(prop.logpdf({'a': k}, {'a': mu})))
            err = abs(rep - pk)
            tol = 4.0 / n + 1e-9
            if err > tol and (worst is None or err > worst[0]):
                worst = (err, k, pk, rep)
        # Hastings factor between mu and a neighbour, against the measured laws in both directions
        if worst is None and fam == 'bounded_discrete':
            for k in sorted(law):
                if k == mu or law[k] < 0.02:
                    continue
                back, nb = discrete_law(prop, 'a', {'a': k}, ngrid)
                if back.get(mu, 0) < 0.02:
                    continue
                with numpy.errstate(all='ignore'):
                    rep_ratio = math.exp(float(prop.logpdf({'a': mu}, {'a': k})) - float(prop.logpdf({'a': k}, {'a': mu})))
                law_ratio = back[mu] / law[k]
                if abs(rep_ratio - law_ratio) > 0.02 * law_ratio + 8.0 / min(n, nb):
                    worst = (abs(rep_ratio - law_ratio), k, law_ratio, rep_ratio)
                    what = ('%s(successive=%s, std=%s, bounds=%s): Hastings factor q(%d|%d)/q(%d|%d) from the reported density is %.5f, '
                            'the jumps generate the two moves with ratio %.5f' % (fam, succ, std, bnd, mu, k, k, mu, rep_ratio, law_ratio))
                    out.violations.append(dict(what=what, replay=dict(kind='quadrature', family=fam, successive=succ, std=std, bounds=bnd, fromx=mu, to=k)))
                    worst = 'reported'
                break
        if worst is not None and worst != 'reported':
            err, k, pk, rep = worst
            out.violations.append(dict(what='%s(successive=%s, std=%s, bounds=%s): from %d the jumps reach %d with probability %.5f but the reported '
                                            'density gives %.5f' % (fam, succ, std, bnd, mu, k, pk, rep),
                                       replay=dict(kind='quadrature', family=fam, successive=succ, std=std, bounds=bnd, fromx=mu, to=k)))
        if len(out.violations) >= 4:
            return


def continuous_quadrature(rng, out, thorough):
    """bounded normal and angular: bin masses of the push-forward vs the integral of the reported density"""
    ngrid = 60000 if thorough else 8000
    nb = 24
    cfgs = [('bounded_normal', (-3.0, 5.0), s, m) for s in (0.5, 3.0, 40.0) for m in (-3.0, 0.3, 5.0)]
    cfgs += [('angular', (0.0, 2 * math.pi), s, m) for s in (0.3, 2.0, 20.0) for m in (0.0, 1.0, 6.0)]
    rng.shuffle(cfgs)
    for ci, (fam, (lo, hi), std, mu) in enumerate(cfgs[:(len(cfgs) if thorough else 9)]):
        # the proposal in three kinds of internal state: as constructed; after an assignment through the public std
        # setter; an adaptive variant after adaptation steps and a reset
        trans = [None, 'std-setter', 'adapt-reset'][ci % 3]
        if trans == 'adapt-reset':
            prop = (P.SSAdaptiveBoundedNormal(['a'], {'a': (lo, hi)}, cov=[std ** 2]) if fam == 'bounded_normal'
                    else P.SSAdaptiveAngular(['a'], cov=[std ** 2]))
            from ..adapt import StubChain
            stub = StubChain(['a'])
            for k in range(6):
                stub.set(1.0, True, [mu])
                prop.update(stub)
            prop._reset_adaptation()
            for k in range(3):
                stub.set(0.0, False, [mu])
                prop.update(stub)
        else:
            prop = P.BoundedNormal(['a'], {'a': (lo, hi)}, cov=[std ** 2]) if fam == 'bounded_normal' else P.Angular(['a'], cov=[std ** 2])
            if trans == 'std-setter':
                prop.std = [std * 2.5]
        out.count('quadrature_state_%s' % trans)
        std = float(prop._std[0])
        prop.bit_generator = numpy.random.PCG64(1)
        sc = GridScript(ngrid)
        xs = []
        with GenTap(script=sc):
            while sc.k < ngrid:
                r = prop.jump({'a': mu})
                if sc.k > ngrid:
                    break
                xs.append(float(r['a']))
        xs = numpy.array(xs)
        n = len(xs)
        edges = numpy.linspace(lo, hi, nb + 1)
        emp, _ = numpy.histogram(xs, bins=edges)
        emp = emp / n
        out.evaluations += 1
        out.count('quadrature_' + fam)
        for b in range(nb):
            g = numpy.linspace(edges[b], edges[b + 1], 41)
            with numpy.errstate(all='ignore'):
                dens_ = numpy.array([math.exp(float(prop.logpdf({'a': float(x)}, {'a': mu}))) for x in g])
            rep = float(numpy.sum((dens_[1:] + dens_[:-1]) * numpy.diff(g)) / 2.0)
            if abs(rep - emp[b]) > 6.0 / n + 2e-3 * max(rep, emp[b]) + 1e-6:
                out.violations.append(dict(what='%s(std=%s, state: %s) from %s: the jumps put mass %.5f into [%.3f, %.3f], the reported density integrates '
                                                'to %.5f there' % (fam, std, trans, mu, emp[b], edges[b], edges[b + 1], rep),
                                           replay=dict(kind='quadrature', family=fam, std=std, fromx=mu, state=trans, bin=[float(edges[b]), float(edges[b + 1])])))
                break
        if len(out.violations) >= 4:
            return


def symmetric_flags(out):
    for name, want in SYMMETRIC_TABLE.items():
        cls = getattr(P, name, None)
        if cls is None:
            out.corr_failures.append(dict(note='class %s not found' % name))
            continue
        got = cls.symmetric
        got = got if isinstance(got, bool) else None
        out.evaluations += 1
        if got is not None and got != want:
            if got and not want:
                out.violations.append(dict(what='%s declares itself symmetric but its jumps are generated from a position-dependent truncated law'
                                                % name, replay=dict(kind='symmetric_flag', cls=name)))
            else:
                out.corr_failures.append(dict(note='symmetric flag of %s is %r, family table says %r' % (name, got, want)))


def cache_structure(out):
    """one cdf dictionary per parameter (the shared-dictionary variant is refuted in Coq)"""
    for prop in (P.NormalDiscrete(['a', 'b', 'c'], cov=[1., 4., 9.]),
                 P.BoundedDiscrete(['a', 'b'], {'a': (0, 5), 'b': (-3, 3)}, cov=[1., 4.])):
        out.evaluations += 1
        if len({id(d) for d in prop._cdfcache}) != len(prop.parameters):
            out.corr_failures.append(dict(note='%s: parameters share one cdf dictionary (the model has one per parameter)' % prop.name))


def run(seed, tier):
    thorough = tier == 'thorough'
    rng = random.Random(seed * 86028157 + 2)
    out = core.Outcome()
    out.rule = ("(a) real logpdf() of every proposal and birth family at harness-chosen pairs (1-3 parameters, unequal scales, boundaries, "
                "outside the support), every pair queried several times in varied order and direction, against the float instance of the "
                "single-definition kernels (Dens.v) under vm_compute; real jump() under scripted draws against the model's jump maps (cells, "
                "rejection loops, wrap-around, rotation); (b) search for a failing input: jump() fed a quantile grid - push-forward law vs "
                "reported pmf/density and Hastings factor vs ratio of measured laws; (c) symmetric flags of 24 classes vs the family table. "
                "non-trivial = multi-parameter query with unequal scales; distinct = (family, scales, points)")
    terms, metas = dens.all_cases(rng, out, scale=4 if thorough else 1)
    failing = core.run_coq_cases('C02', dens.HEADER, terms, per_file=250)
    for f in failing[:12]:
        out.corr_failures.append(dict(note='density/jump model (Dens.v) and implementation disagree', case=metas[f[0]]))
    out.count('coq_cases', len(terms))
    if len(out.violations) < 4:
        discrete_quadrature(rng, out, thorough)
    if len(out.violations) < 4:
        continuous_quadrature(rng, out, thorough)
    symmetric_flags(out)
    cache_structure(out)
    out.violations = out.violations[:6]
    return out


def replay(payload):
    print(payload.get('what'))
    print(payload.get('replay'))
    return 0
