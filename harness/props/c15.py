"""C15 - a slow parameter moves only every jump_interval-th step, then every step."""
import copy
import pickle
import random

import numpy

from epsie import proposals as P
from epsie.samplers import MetropolisHastingsSampler, ParallelTemperedSampler

from .. import core
from ..models import GaussModel

ASSUMPTIONS = [
    "whether a constituent jumped on an iteration is observed by wrapping its _jump/_logpdf/_update methods on the live instances",
]
HEADER = 'From Coq Require Import ZArith.\nFrom Epsie Require Import Base Clock Exec.ExecC15.\nLocal Open Scope Z_scope.'

BOX = 20.0


def make_slow(kind, params, k, D, rng):
    """One constituent proposal of family `kind` over `params` with jump interval k and duration D."""
    bnd = {p: (-BOX, BOX) for p in params}
    if kind == 'normal':
        return P.Normal(params, cov=[1.0] * len(params), jump_interval=k, jump_interval_duration=D)
    if kind == 'bounded_normal':
        return P.BoundedNormal(params, bnd, cov=[1.5] * len(params), jump_interval=k, jump_interval_duration=D)
    if kind == 'angular':
        return P.Angular(params, cov=[0.5] * len(params), jump_interval=k, jump_interval_duration=D)
    if kind == 'discrete':
        return P.NormalDiscrete(params, cov=[2.0] * len(params), jump_interval=k, jump_interval_duration=D)
    if kind == 'bounded_discrete':
        return P.BoundedDiscrete(params, {p: (-8, 8) for p in params}, cov=[2.0] * len(params), jump_interval=k, jump_interval_duration=D)
    if kind == 'adaptive_normal':
        return P.AdaptiveNormal(params, {p: 2 * BOX for p in params}, adaptation_duration=D, start_step=rng.choice([1, 1, 2, 3]),
                                jump_interval=k)
    if kind == 'adaptive_bounded_normal':
        return P.AdaptiveBoundedNormal(params, bnd, adaptation_duration=D, start_step=rng.choice([1, 2]), jump_interval=k)
    if kind == 'adaptive_angular':
        return P.AdaptiveAngular(params, adaptation_duration=D, jump_interval=k, start_step=rng.choice([1, 2, 3]))
    if kind == 'adaptive_bounded_discrete':
        return P.AdaptiveBoundedDiscrete(params, {p: (-8, 8) for p in params}, adaptation_duration=D, jump_interval=k,
                                         start_step=rng.choice([1, 2, 3]))
    if kind == 'adaptive_discrete':
        return P.AdaptiveNormalDiscrete(params, {p: 16 for p in params}, adaptation_duration=D, jump_interval=k, start_step=rng.choice([1, 2]))
    if kind == 'ss_adaptive_normal':
        return P.SSAdaptiveNormal(params, jump_interval=k, jump_interval_duration=D)
    if kind == 'at_adaptive_normal':
        return P.ATAdaptiveNormal(params, adaptation_duration=D, start_step=rng.choice([1, 2]), jump_interval=k,
                                  diagonal=rng.random() < 0.5)
    if kind == 'at_adaptive_bounded_normal':
        return P.ATAdaptiveBoundedNormal(params, bnd, adaptation_duration=D, jump_interval=k, start_step=rng.choice([1, 2, 3]))
    if kind == 'eigenvector':
        return P.Eigenvector(params, jump_interval=k, jump_interval_duration=D)
    if kind == 'adaptive_eigenvector':
        return P.AdaptiveEigenvector(params, adaptation_duration=D, jump_interval=k, start_step=rng.choice([1, 2, 4]))
    if kind == 'solid_angle':
        return P.IsotropicSolidAngle(params[0], params[1], jump_interval=k, jump_interval_duration=D)
    raise ValueError(kind)


KINDS_1 = ['normal', 'bounded_normal', 'angular', 'discrete', 'bounded_discrete', 'adaptive_normal', 'adaptive_bounded_normal',
           'adaptive_angular', 'adaptive_bounded_discrete', 'adaptive_discrete', 'ss_adaptive_normal', 'at_adaptive_normal',
           'at_adaptive_bounded_normal']
KINDS_2 = ['eigenvector', 'adaptive_eigenvector', 'normal', 'at_adaptive_normal']
DISCRETE = ('discrete', 'bounded_discrete', 'adaptive_bounded_discrete', 'adaptive_discrete')
ANGULAR = ('angular', 'adaptive_angular')


class Config:
    def __init__(self, rng):
        self.pt = rng.random() < 0.4
        self.ntemps = rng.choice([2, 3]) if self.pt else 1
        self.si = rng.choice([1, 2, 3])
        self.seed = rng.randrange(1, 10 ** 6)
        self.specs = []       # (kind, params, k, D)
        npar = 0
        for _ in range(rng.choice([1, 2, 2, 3])):
            if rng.random() < 0.25:
                kind = rng.choice(KINDS_2)
                n = 2
            else:
                kind = rng.choice(KINDS_1)
                n = 1
            params = ['p%d' % (npar + j) for j in range(n)]
            npar += n
            k = rng.choice([1, 2, 2, 3, 3, 5])
            D = rng.choice([1, 2, 3, 4, 6])
            self.specs.append((kind, params, k, D))
        self.params = ['p%d' % j for j in range(npar)]
        self.rs = rng.randrange(10 ** 6)
        self.reset_after_swap = self.pt and rng.random() < 0.3

    def describe(self):
        return dict(pt=self.pt, ntemps=self.ntemps, swap_interval=self.si, seed=self.seed, reset_after_swap=self.reset_after_swap,
                    proposals=[dict(kind=k, params=p, jump_interval=ki, duration=D) for k, p, ki, D in self.specs])

    def build(self, seed=None):
        rng = random.Random(self.rs)
        props = [make_slow(kind, params, k, D, rng) for kind, params, k, D in self.specs]
        for pr, (_, _, _, D) in zip(props, self.specs):
            pr._verif_D = D            # the duration it was configured with (deep-copied along with the proposal)
        model = GaussModel(self.params, sigma=3.0, lo=-BOX, hi=BOX, log=False)
        seed = self.seed if seed is None else seed
        if self.pt:
            betas = numpy.array(sorted([1.0] + [0.5] * (self.ntemps - 2) + [0.1], reverse=True))[:self.ntemps]
            s = ParallelTemperedSampler(self.params, model, 1, betas=betas, swap_interval=self.si, proposals=props, seed=seed,
                                        reset_after_swap=self.reset_after_swap)
        else:
            s = MetropolisHastingsSampler(self.params, model, 1, proposals=props, seed=seed)
        return s

    def start(self, sampler):
        shape = (self.ntemps, 1) if self.pt else (1,)
        pos = {}
        for kind, params, k, D in self.specs:
            for p in params:
                if kind in DISCRETE:
                    pos[p] = numpy.full(shape, 1)
                elif kind in ANGULAR:
                    pos[p] = numpy.full(shape, 1.0)
                else:
                    pos[p] = numpy.full(shape, 0.25)
        sampler.start_position = pos


class Watch:
    """Wraps _jump/_logpdf/_update of every constituent proposal of every level."""

    def __init__(self, sampler, cfg):
        self.cfg = cfg
        self.events = []      # flat log of (level index, constituent index, what)
        self.levels = []
        for ch in sampler.chains:
            self.levels += (ch.chains if cfg.pt else [ch])
        for li, lv in enumerate(self.levels):
            for ci, prop in enumerate(lv.proposal_dist.proposals):
                for name in ('_jump', '_logpdf', '_update'):
                    self._wrap(prop, name, li, ci)

    def _wrap(self, prop, name, li, ci):
        orig = getattr(prop, name)
        log = self.events

        def w(*a, **k):
            log.append((li, ci, name))
            return orig(*a, **k)
        setattr(prop, name, w)

    def unwrap(self):
        for lv in self.levels:
            for prop in lv.proposal_dist.proposals:
                for name in ('_jump', '_logpdf', '_update'):
                    if name in prop.__dict__:
                        del prop.__dict__[name]


def clock_of(prop):
    k = prop.jump_interval
    D = getattr(prop, '_verif_D', prop.jump_interval_duration)        # as configured, not as the proposal holds it
    s = getattr(prop, 'start_step', None)
    return k, (D if D is not None else 0), s, prop._nsteps


def run_config(cfg, sched, out, terms, meta):
    """Run one configuration along a schedule of ('run', n) / ('clear',) / ('resume',) and check every iteration."""
    sampler = cfg.build()
    cfg.start(sampler)
    watch = Watch(sampler, cfg)
    problems = []
    nontrivial = False
    saved_state = [None]
    for op in sched:
        if op[0] == 'clear':
            sampler.clear()
            continue
        if op[0] == 'save':
            if sampler.chains[0].iteration > 0:
                saved_state[0] = pickle.loads(pickle.dumps(sampler.state))
            continue
        if op[0] == 'rewind':
            # load an earlier state into the sampler that is running (no fresh objects)
            if saved_state[0] is not None:
                sampler.set_state(copy.deepcopy(saved_state[0]))
                out.count('rewinds')
            continue
        if op[0] == 'resume':
            if sampler.chains[0].iteration == 0:
                continue
            watch.unwrap()
            st = pickle.loads(pickle.dumps(sampler.state))
            sampler = cfg.build(seed=cfg.seed + 1)
            sampler.set_state(st)
            watch = Watch(sampler, cfg)
            continue
        for _ in range(op[1]):
            # one iteration at a time so that every iteration is observed
            before = []
            for lv in watch.levels:
                cur = dict(lv.current_position)
                before.append((lv.iteration, cur, [clock_of(p) for p in lv.proposal_dist.proposals]))
            n0 = len(watch.events)
            sampler.run(1)
            ev = watch.events[n0:]
            for li, lv in enumerate(watch.levels):
                it0, cur, clocks = before[li]
                i = it0 + 1                       # chain iteration being made (1-based)
                prop_pos = lv.proposed_position
                for ci, prop in enumerate(lv.proposal_dist.proposals):
                    kind, params, k_cfg, D_cfg = cfg.specs[ci]
                    k, D, s, n = clocks[ci]
                    jumped = (li, ci, '_jump') in ev
                    updated = (li, ci, '_update') in ev
                    dens = (li, ci, '_logpdf') in ev
                    out.evaluations += 1
                    out.count('jump' if jumped else 'copy')
                    out.count('family_' + kind)
                    terms.append('(%d%%nat, %d, %s, %d%%nat, %s)' % (k, D, 'None' if s is None else '(Some %d)' % s, n,
                                                                     'true' if jumped else 'false'))
                    meta.append((cfg, sched, i, li, ci))
                    # ---- the property itself, in terms of the chain iteration
                    if k != k_cfg:
                        problems.append(('proposal configured with jump_interval=%d reports jump_interval=%d' % (k_cfg, k),
                                         dict(constituent=ci, family=kind)))
                    adaptive = s is not None
                    elapsed = ((i - 1) // k_cfg - s + 1) if adaptive else (i - 1) // k_cfg
                    want = k_cfg == 1 or elapsed >= D_cfg or (i - 1) % k_cfg == 0
                    if n != i - 1:
                        problems.append(('proposal clock reads %d at chain iteration %d (it must read iteration-1: the schedule is '
                                         'counted in chain iterations, also across clear and resume)' % (n, i),
                                         dict(constituent=ci, family=kind, iteration=i)))
                    if jumped != want:
                        problems.append(('constituent %d (%s, k=%d, D=%d%s) %s at iteration %d; the schedule says it %s'
                                         % (ci, kind, k_cfg, D_cfg, ', start_step=%s' % s if adaptive else '',
                                            'proposed' if jumped else 'did not propose', i, 'proposes' if want else 'keeps its values'),
                                         dict(constituent=ci, family=kind, iteration=i, level=li)))
                    if not jumped:
                        if k_cfg > 1:
                            nontrivial = True
                        for p in params:
                            a, b = prop_pos[p], cur[p]
                            if not (a == b or (a != a and b != b)):
                                problems.append(('parameter %s changed in the proposed point on an iteration where its proposal does not jump' % p,
                                                 dict(constituent=ci, family=kind, iteration=i, current=float(b), proposed=float(a))))
                        if updated:
                            problems.append(('_update (adaptation) was called on a non-jumping iteration',
                                             dict(constituent=ci, family=kind, iteration=i)))
                        if dens:
                            problems.append(('the proposal contributed a density term on a non-jumping iteration',
                                             dict(constituent=ci, family=kind, iteration=i)))
                    else:
                        if not updated:
                            problems.append(('_update was not called on a jumping iteration', dict(constituent=ci, family=kind, iteration=i)))
    return problems, nontrivial


def gen_schedule(rng, thorough):
    ops = []
    if rng.random() < 0.35:
        # save early, run past the end of the slow phase, rewind the live sampler, run again
        ops += [('run', rng.choice([1, 2, 3])), ('save',), ('run', rng.choice([12, 20, 31])), ('rewind',), ('run', rng.choice([6, 9]))]
    for _ in range(rng.randrange(2, 6)):
        r = rng.random()
        if r < 0.6:
            ops.append(('run', rng.choice([1, 2, 3, 5, 8])))
        elif r < 0.8:
            ops.append(('clear',))
        else:
            ops.append(('resume',))
    ops.append(('run', rng.choice([3, 6, 9])))
    return ops


def td_index_schedule(rng, out, n):
    """the model-hopping (index) proposal of a nested transdimensional proposal is a proposal like any other: configured with jump
    interval k it proposes a new index only on iterations 1, k+1, 2k+1, ... of its chain until its duration has elapsed"""
    from epsie.chain import Chain
    from ..models import TDModel
    for i in range(n):
        nc = rng.choice([2, 3])
        k, D = rng.choice([2, 3, 4]), rng.choice([3, 5])
        comps = ['a%d' % j for j in range(1, nc + 1)]
        tds = [P.Normal([c], cov=[0.5]) for c in comps]
        births = [P.UniformBirth([c], {c: (0., 4.)}) for c in comps]
        mp = P.BoundedDiscrete(['k'], boundaries={'k': (0, nc)}, successive={'k': False}, jump_interval=k, jump_interval_duration=D)
        td = P.NestedTransdimensional(comps + ['k'], mp, tds, births)
        ch = Chain(comps + ['k'], TDModel(nc, sigma=1.0, blobs=False, log=False), [td], bit_generator=numpy.random.PCG64(rng.randrange(1, 10 ** 6)))
        ch.start_position = dict({c: (1.0 + j if j == 0 else numpy.nan) for j, c in enumerate(comps)}, k=1)
        hops = []
        for it in range(1, k * D + 4):
            cur = int(ch.current_position['k'])
            ch.step()
            hops.append(int(ch.proposed_position['k']) != cur)         # without successive jumps an index jump always moves
        out.evaluations += len(hops)
        out.count('td_index_schedules')
        want = [(it - 1) % k == 0 or (it - 1) // k >= D for it in range(1, k * D + 4)]
        if hops != want:
            bad = [it for it in range(1, len(hops) + 1) if hops[it - 1] != want[it - 1]]
            out.violations.append(dict(
                what='the index proposal of a nested transdimensional proposal with jump interval %d (duration %d) proposed a new index on '
                     'iterations %s; it is due on %s' % (k, D, [it for it in range(1, len(hops) + 1) if hops[it - 1]][:12],
                                                        [it for it in range(1, len(want) + 1) if want[it - 1]][:12]),
                replay=dict(kind='td_index', jump_interval=k, duration=D, components=nc, first_deviation=bad[:3])))
            return
        out.nontrivial.add(repr(('td_index', k, D, i)))


def run(seed, tier):
    thorough = tier == 'thorough'
    rng = random.Random(seed * 15485863 + 15)
    out = core.Outcome()
    out.rule = ("real MH/PT chains with 1-3 constituent proposals (16 families incl. every adaptive variant and eigenvector ones) with "
                "jump intervals 1..5 and durations 1..6, run one iteration at a time along random schedules of run/clear/resume(pickle, "
                "fresh sampler); per constituent and iteration: did _jump/_logpdf/_update run, proposed vs current values, clock; each "
                "observation is one Coq case (k, D, start_step, _nsteps, decision). non-trivial = a configuration with k>1 observed "
                "on a non-jumping iteration; distinct = distinct (configuration, schedule)")
    terms, meta = [], []
    ncfg = 400 if thorough else 60
    for _ in range(ncfg):
        cfg = Config(rng)
        sched = gen_schedule(rng, thorough)
        try:
            problems, nontrivial = run_config(cfg, sched, out, terms, meta)
        except Exception:       # noqa
            import traceback
            out.corr_failures.append(dict(note='implementation raised', config=cfg.describe(), schedule=sched,
                                          error=traceback.format_exc()[-1500:]))
            continue
        if nontrivial:
            out.nontrivial.add(repr((cfg.describe(), sched)))
        if len(out.samples) < 3:
            out.samples.append(dict(config=cfg.describe(), schedule=sched))
        seen = set()
        for what, detail in problems:
            key = what.split(' at iteration')[0][:60]
            if key in seen:
                continue
            seen.add(key)
            out.violations.append(dict(what=what, replay=dict(config=cfg.describe(), schedule=sched, detail=detail)))
        if len(out.violations) > 6:
            break
    if len(out.violations) <= 6:
        td_index_schedule(rng, out, 12 if thorough else 4)
    failing = core.run_coq_cases('C15', HEADER, terms, per_file=2000)
    for f in failing[:10]:
        cfg, sched, i, li, ci = meta[f[0]]
        out.corr_failures.append(dict(note='call_jump model and implementation decision differ', case=terms[f[0]],
                                      config=cfg.describe(), schedule=sched, iteration=i, constituent=ci))
    return out


def replay(payload):
    r = payload.get('replay') or {}
    print('configuration:', r.get('config'))
    print('schedule:', r.get('schedule'))
    print('detail:', r.get('detail'))
    return 0
