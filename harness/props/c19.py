"""C19 - resetting adaptation restores the initial adaptive state, every time."""
import copy
import random

import numpy

from epsie import proposals as P
from epsie.samplers import MetropolisHastingsSampler, ParallelTemperedSampler
from epsie.chain import ParallelTemperedChain, Chain
from epsie.proposals.base import BaseAdaptiveSupport

from .. import core, configs as C
from .. import alias as A
from ..adapt import FAMILIES, StubChain, history
from ..models import GaussModel
from .c16 import build, DISCRETE, NAMES, EXTRA, maker

ASSUMPTIONS = [
    "registers of a chain = the attributes named by _initial_proposal_params of its adaptive proposals; contents compared as bit patterns",
    "'a freshly constructed proposal given the same clock' = the same constructor call, then start_step := max(nsteps,1), _nsteps and the "
    "generator state copied over; compared through its state dict, jump() outputs and logpdf() under the same forced acceptance history",
    "decisions of a sweep are decoded from swap_index (pair (t-1,t) exchanged iff swap_index[t] = t-1) and re-validated by the model",
]


def reg_contents(props):
    return [A.encode_leaf(v) for _, _, v in A.live_values(props)]


def init_contents(props):
    return [A.encode_leaf(v) for _, _, v in A.stored_values(props)]


def chain_units(s, pt):
    """the model's samplers: every chain (MH) / every level of every chain (PT)"""
    out = []
    for ch in s.chains:
        out.extend(ch.chains if pt else [ch])
    return out


def unit_props(u):
    return [((0, 0, i), p) for i, p in enumerate(u.proposal_dist.proposals) if getattr(p, '_initial_proposal_params', None) is not None]


def sampler_case(cfg, acts, out):
    """Random interleaving of run(n) and reset(chain) on one real sampler -> (coq term, violation)."""
    s = build(cfg, cfg['seeds'][0])
    units = chain_units(s, cfg['pt'])
    props = [unit_props(u) for u in units]
    built = [copy.deepcopy([v for _, _, v in A.live_values(pr)]) for pr in props]       # the harness's own record of construction
    vals = [reg_contents(pr) for pr in props]
    viol = None
    for ui, pr in enumerate(props):
        if init_contents(pr) != vals[ui]:
            viol = dict(what='the values stored for reset differ from the constructed proposal (unit %d)' % ui,
                        replay=dict(config=cfg, actions=[]))
    cur = [list(v) for v in vals]
    ids = [[v for _, _, v in A.live_values(pr)] for pr in props]
    steps = []
    for ai, act in enumerate(acts):
        ops = []
        if act[0] == 'run':
            s.run(act[1])
            for ui, pr in enumerate(props):
                new = reg_contents(pr)
                nid = [v for _, _, v in A.live_values(pr)]
                o = A.diff_ops(ui, cur[ui], new, [x if isinstance(x, numpy.ndarray) else None for x in ids[ui]],
                               [x if isinstance(x, numpy.ndarray) else None for x in nid])
                ops.extend(o)
                cur[ui], ids[ui] = new, nid
            out.count('inplace_writes', sum(1 for o in ops if o[0] == 'inplace'))
            out.count('rebinds', sum(1 for o in ops if o[0] == 'rebind'))
        else:
            ui = act[1] % len(units)
            nonad = [(p, A.contents(p.state)) for p in units[ui].proposal_dist.proposals
                     if getattr(p, '_initial_proposal_params', None) is None]
            nsteps_before = [p.nsteps for _, p in props[ui]]
            try:
                units[ui].reset_proposals()
            except Exception as e:        # noqa
                if viol is None:
                    viol = dict(what='reset_proposals() raised %r (action %d, proposal steps so far %s)' % (e, ai, nsteps_before),
                                replay=dict(config=cfg, actions=acts[:ai + 1]))
                break
            ops = [('reset', ui)]
            cur[ui] = reg_contents(props[ui])
            ids[ui] = [v for _, _, v in A.live_values(props[ui])]
            # direct checks
            if viol is None:
                now = [A.encode_leaf(v) for _, _, v in A.live_values(props[ui])]
                want = [A.encode_leaf(v) for v in built[ui]]
                if now != want:
                    names = [a for (_, a, _), x, y in zip(A.live_values(props[ui]), now, want) if x != y]
                    viol = dict(what='after reset #%d of unit %d (action %d) the attributes %s are not the constructed values'
                                % (sum(1 for a in acts[:ai + 1] if a[0] == 'reset' and a[1] % len(units) == ui), ui, ai, names),
                                replay=dict(config=cfg, actions=acts[:ai + 1]))
                for (_, p), n0 in zip(props[ui], nsteps_before):
                    if p.start_step != max(n0, 1) and viol is None:
                        viol = dict(what='after reset the window starts at %r, not at the current step %d' % (p.start_step, max(n0, 1)),
                                    replay=dict(config=cfg, actions=acts[:ai + 1]))
                for p, before in nonad:
                    if A.contents(p.state) != before and viol is None:
                        viol = dict(what='reset changed a proposal without adaptation (%s)' % p.name,
                                    replay=dict(config=cfg, actions=acts[:ai + 1]))
        out.count('action_' + act[0])
        out.evaluations += 1
        steps.append((ops, ([reg_contents(pr) for pr in props], [], [init_contents(pr) for pr in props])))
    term = A.coq_case(vals, steps)
    return term, viol


def gen_cfg(rng):
    pt = rng.random() < 0.4
    nt = rng.choice([2, 3]) if pt else 1
    return dict(family=rng.choice(NAMES), T=rng.choice([5, 12, 40]), k=rng.choice([1, 1, 2]), start=rng.choice([1, 1, 3]),
                sigma=rng.choice([0.5, 2.0]), blobs=False, pt=pt, nchains=rng.choice([1, 2]) if not pt else 1,
                betas=[1.0, 0.3, 0.05][:nt] if nt == 3 else [1.0, 0.2][:nt], si=rng.choice([1, 2]), nsamp=1,
                seeds=[rng.randrange(1, 10 ** 6)])


def gen_actions(rng, thorough):
    acts = []
    if rng.random() < 0.25:
        acts.append(('reset', rng.randrange(6)))           # before any step
    for _ in range(rng.randrange(5, 10 if not thorough else 16)):
        if rng.random() < 0.55:
            acts.append(('run', rng.choice([1, 2, 3, 5])))
        else:
            acts.append(('reset', rng.randrange(6)))
            if rng.random() < 0.2:
                acts.append(('reset', acts[-1][1]))        # twice in a row
    acts.append(('run', 2))
    acts.append(('reset', 0))
    return acts


# ---------------------------------------------------------------------------------------------
# proposal level: after a reset the proposal behaves like a freshly built one given the same clock
def fresh_like(name, T, k, p):
    kind, make = FAMILIES[name]
    f = make(T, k, 1)
    f.start_step = max(p.nsteps, 1)
    f._nsteps = p._nsteps
    f.random_state = copy.deepcopy(p.random_state)
    return f


def proposal_case(name, T, k, start, nsteps, resets, rng, out):
    kind, make = FAMILIES[name]
    p = make(T, k, start)
    stub = StubChain(list(p.parameters))
    twin = None
    pos = [1, 2] if name in DISCRETE else [0.3, 0.4]
    hist = history(rng.choice(['always', 'never', 'alternate', 'random', 'high', 'low']), nsteps, rng)
    nres = 0
    for i, (ar, acc) in enumerate(hist):
        if i in resets:
            try:
                p._reset_adaptation()
            except Exception as e:       # noqa
                return dict(what='%s: _reset_adaptation() raised %r at proposal step %d' % (name, e, p._nsteps),
                            replay=dict(family=name, T=T, k=k, start=start, resets=sorted(resets), step=i))
            nres += 1
            twin = fresh_like(name, T, k, p)
            out.count('resets')
            # right after the reset, before any further update: the reported density is that of a freshly built proposal
            # (the eigenvector families define theirs only for the most recent jump)
            if 'eigenvector' not in name:
                fromx = dict(zip(p.parameters, pos))
                try:
                    keep = copy.deepcopy(twin.random_state)
                    xi = twin.jump(dict(fromx))
                    twin.random_state = keep
                    la, lb = float(p.logpdf(dict(xi), dict(fromx))), float(twin.logpdf(dict(xi), dict(fromx)))
                except Exception:      # noqa
                    la = lb = 0.0
                if A.encode_leaf(la) != A.encode_leaf(lb):
                    return dict(what='%s, reset #%d: right after the reset logpdf() reports %r where a freshly built proposal reports %r'
                                     % (name, nres, la, lb),
                                replay=dict(family=name, T=T, k=k, start=start, resets=sorted(resets), step=i, xi=xi, fromx=fromx))
        if acc and name not in DISCRETE:
            pos = [pos[0] + rng.uniform(-0.5, 0.5), min(0.99, max(0.01, pos[1] + rng.uniform(-0.1, 0.1)))]
        for q in ([p] if twin is None else [p, twin]):
            stub.iteration = i
            stub.set(ar, acc, pos)
            q.update(stub)
        out.evaluations += 1
        if twin is not None:
            # 'ind' (eigenvector families) is the direction drawn by the most recent jump: transient, rewritten by every jump
            sa, sb = dict(p.state), dict(twin.state)
            sa.pop('ind', None), sb.pop('ind', None)
            a, b = A.contents(sa), A.contents(sb)
            what = None
            if a != b:
                lay = A.layout(sa)
                what = 'state differs from a fresh proposal given the same clock: %s' % [lay[j] for j in range(len(lay)) if a[j] != b[j]][:4]
            else:
                fromx = dict(zip(p.parameters, pos))
                try:
                    ja, jb = p.jump(dict(fromx)), twin.jump(dict(fromx))
                    if A.contents(ja) != A.contents(jb):
                        what = 'jump() differs from a fresh proposal given the same clock and generator state'
                    elif not p.symmetric:
                        la, lb = p.logpdf(ja, fromx), twin.logpdf(jb, fromx)
                        if A.encode_leaf(float(la)) != A.encode_leaf(float(lb)):
                            what = 'logpdf() differs from a fresh proposal given the same clock'
                except Exception as e:       # noqa
                    what = None     # unusable proposals are C14's subject
            if what:
                return dict(what='%s, reset #%d, %d steps after it: %s' % (name, nres, i - max(r for r in resets if r <= i), what),
                            replay=dict(family=name, T=T, k=k, start=start, resets=sorted(resets), step=i))
    return None


# ---------------------------------------------------------------------------------------------
# parallel tempering with reset_after_swap
class ResetTap:
    def __enter__(self):
        tap = self
        self.log = []           # (id(proposal))
        self.o = BaseAdaptiveSupport._reset_adaptation

        def reset(self_):
            tap.log.append(id(self_))
            return tap.o(self_)
        BaseAdaptiveSupport._reset_adaptation = reset
        self.o_sw = ParallelTemperedChain.swap_temperatures
        self.sweeps = []

        def sw(self_):
            n0 = len(tap.log)
            r = tap.o_sw(self_)
            ii = self_.iteration - self_.lastclear - 1
            row = ii // self_.swap_interval
            idx = [int(x) for x in numpy.array(self_._temperature_swaps.data['swap_index'][row]).reshape(-1)]
            owners = {}
            for tk, c in enumerate(self_.chains):
                for p in c.proposal_dist.proposals:
                    owners[id(p)] = tk
            levels = sorted({owners[i] for i in tap.log[n0:] if i in owners})
            tap.sweeps.append(dict(idx=idx, reset=levels, pt=id(self_), iteration=self_.iteration))
            return r
        ParallelTemperedChain.swap_temperatures = sw
        return self

    def __exit__(self, *a):
        BaseAdaptiveSupport._reset_adaptation = self.o
        ParallelTemperedChain.swap_temperatures = self.o_sw


def pt_reset_runs(rng, out, n, thorough):
    terms, metas = [], []
    for _ in range(n):
        nt = rng.choice([2, 3, 4, 5])
        fam = rng.choice(NAMES)
        cfg = dict(family=fam, T=rng.choice([6, 20]), k=1, start=1, ntemps=nt, si=rng.choice([1, 1, 2]), seed=rng.randrange(1, 10 ** 6),
                   niter=rng.choice([8, 16] if not thorough else [16, 40]), sigma=rng.choice([1.0, 3.0]))
        make = maker(fam)
        model = GaussModel(['a', 'b'], sigma=cfg['sigma'], mu=0.5, lo=-30., hi=30., log=False)
        betas = numpy.geomspace(1.0, 0.05, nt)
        try:
            s = ParallelTemperedSampler(['a', 'b'], model, 1, betas=betas, swap_interval=cfg['si'], proposals=[make(cfg['T'], 1, 1)],
                                        reset_after_swap=True, seed=cfg['seed'])
            shape = (nt, 1)
            if fam in DISCRETE:
                s.start_position = {'a': numpy.full(shape, 1, dtype=int), 'b': numpy.full(shape, 2, dtype=int)}
            else:
                s.start_position = {'a': numpy.full(shape, 1.0), 'b': numpy.full(shape, 0.5)}
            with ResetTap() as tap:
                s.run(cfg['niter'])
        except Exception as e:        # noqa
            out.violations.append(dict(what='a parallel tempered sampler created with reset_after_swap=True does not run: %r' % (e,),
                                       replay=dict(kind='pt_reset', config=cfg)))
            return terms, metas
        out.count('pt_reset_runs')
        for sw in tap.sweeps:
            idx = sw['idx']
            ds = [idx[tk] == tk - 1 for tk in range(nt - 1, 0, -1)]
            terms.append('(%d, %s, %s, %s)' % (nt, core.clist([core.cbool(d) for d in ds]),
                                               core.clist([str(i) for i in idx]), core.clist([str(i) for i in sw['reset']])))
            metas.append(dict(config=cfg, sweep=sw))
            out.evaluations += 1
            want = [t for t in range(nt) if idx[t] != t]
            if sw['reset'] != want and len(out.violations) < 4:
                out.violations.append(dict(what='sweep at iteration %d exchanged the states of levels %s but reset levels %s'
                                           % (sw['iteration'], want, sw['reset']), replay=dict(kind='pt_reset', config=cfg, sweep=sw)))
            if any(ds):
                out.nontrivial.add(repr(('pt', fam, cfg['seed'], sw['iteration'])))
            out.count('sweeps_with_exchange' if any(ds) else 'sweeps_without_exchange')
    return terms, metas


ADAPTED_ATTRS = ('_std', '_cov', '_log_lambda', '_mean', '_unit_cov', 'n_accepted', '_mu', '_kappa', '_log_kappa')


def constructed(p):
    import copy
    return {a: copy.deepcopy(getattr(p, a)) for a in ADAPTED_ATTRS if getattr(p, a, None) is not None}


def differs_from_constructed(p, c0):
    bad = [a for a, v in c0.items() if not numpy.array_equal(numpy.asarray(getattr(p, a), dtype=float), numpy.asarray(v, dtype=float))]
    if p.start_step != max(p.nsteps, 1):
        bad.append('start_step=%r at proposal step %r' % (p.start_step, p.nsteps))
    return bad


def nested_and_mixed_cases(rng, out, n):
    """the chain's adaptive proposals need not be the top-level entries of its proposal list: they may be the in-model proposals of a
    nested transdimensional proposal, and they may be listed after proposals without adaptation"""
    from epsie.chain import Chain
    from ..models import GaussModel
    for i in range(n):
        if i % 2 == 0:
            cfg = C.gen(rng, kind='td', allow_annealer=False)
            cfg['td_family'] = rng.choice(['adaptive_normal', 'ss_adaptive_normal', 'at_adaptive_normal'])
            cfg.update(pt=False, ntemps=1, nchains=1, blobs=False, T=40)
            s = C.build(cfg)
            s.start_position = C.start_position(cfg)
            ch = s.chains[0]
            inner = list(ch.proposal_dist.proposals[0].proposals)
            desc = dict(kind='nested', config=cfg)
        else:
            order = rng.choice(['plain_first', 'adaptive_first'])
            fam = rng.choice(['adaptive', 'ss', 'at'])
            ad = {'adaptive': lambda: P.AdaptiveNormal(['b'], {'b': 8.}, adaptation_duration=40),
                  'ss': lambda: P.SSAdaptiveNormal(['b']), 'at': lambda: P.ATAdaptiveNormal(['b'], adaptation_duration=40)}[fam]()
            plain = P.Normal(['a'], cov=[0.5])
            props = [plain, ad] if order == 'plain_first' else [ad, plain]
            ch = Chain(['a', 'b'], GaussModel(['a', 'b'], sigma=1.0, mu=0.5, lo=-30., hi=30., blobs=False, log=False), props,
                       bit_generator=numpy.random.PCG64(rng.randrange(1, 10 ** 6)))
            ch.start_position = {'a': 0.3, 'b': -0.2}
            inner = [q for q in ch.proposal_dist.proposals if hasattr(q, '_reset_adaptation')]
            desc = dict(kind='mixed', order=order, family=fam)
        c0 = [constructed(q) for q in inner]
        nres = rng.choice([1, 2, 3])
        for r in range(nres):
            for _ in range(rng.choice([8, 15, 25])):
                ch.step()
            changed = any(differs_from_constructed(q, c) for q, c in zip(inner, c0))
            ch.reset_proposals()
            out.evaluations += 1
            out.count('nested_or_mixed_resets')
            if changed:
                out.nontrivial.add(repr((desc['kind'], i, r)))
            for j, (q, c) in enumerate(zip(inner, c0)):
                bad = differs_from_constructed(q, c)
                if bad:
                    out.violations.append(dict(
                        what='reset #%d of a chain whose adaptive proposal %s (%s): after chain.reset_proposals() it differs from what was '
                             'constructed in %s' % (r + 1, q.name, 'is in-model proposal %d of a nested transdimensional proposal' % j
                                                    if desc['kind'] == 'nested' else 'is listed %s a proposal without adaptation'
                                                    % ('after' if desc.get('order') == 'plain_first' else 'before'), bad[:4]),
                        replay=dict(desc, reset=r + 1, proposal=q.name)))
                    return


def run(seed, tier):
    thorough = tier == 'thorough'
    rng = random.Random(seed * 104729 + 19)
    out = core.Outcome()
    out.rule = ("(a) real MH/PT samplers of all 18 adaptive families: random interleavings of run(n) and chain.reset_proposals() (also before "
                "the first step and twice in a row); live adaptive attributes and the stored initial values after every action against the "
                "copying semantics of Alias.v (exec true true), and directly against the harness's own record of the constructed values; "
                "(b) proposal level: after each of 1-4 resets the proposal is compared, step by step under the same forced acceptance "
                "history, with a freshly built proposal given the same clock (state, jump, logpdf); (c) PT samplers with "
                "reset_after_swap=True: the levels reset in every sweep vs the exchanged levels (Coq: sweep_idx/reset_levels). "
                "non-trivial = a second or later reset after adaptation steps / a sweep with an exchange")
    terms, metas = [], []
    fams = list(NAMES)
    rng.shuffle(fams)
    for i in range(120 if thorough else 36):
        cfg = gen_cfg(rng)
        cfg['family'] = fams[i % len(fams)]
        acts = gen_actions(rng, thorough)
        try:
            term, viol = sampler_case(cfg, acts, out)
        except Exception as e:     # noqa
            import traceback
            out.corr_failures.append(dict(note='real sampler raised %r' % (e,), case=dict(config=cfg, actions=acts),
                                          traceback=traceback.format_exc()[-1500:]))
            continue
        out.count('family_' + cfg['family'])
        if viol:
            viol['replay']['kind'] = 'sampler'
            out.violations.append(viol)
        terms.append(term)
        metas.append(dict(config=cfg, actions=acts))
        nres = {}
        ran = False
        for a in acts:
            if a[0] == 'run':
                ran = True
            elif ran:
                nres[a[1]] = nres.get(a[1], 0) + 1
        if any(v >= 2 for v in nres.values()):
            out.nontrivial.add(repr((cfg['family'], cfg['pt'], acts)))
        if len(out.samples) < 2:
            out.samples.append(dict(config=cfg, actions=acts))
        if len(out.violations) >= 4:
            break
    if len(out.violations) < 4:
        pfams = [f for f in fams if f not in EXTRA]
        for i in range(len(pfams) * (6 if thorough else 2)):
            name = pfams[i % len(pfams)]
            T, k, start = rng.choice([6, 15, 50]), rng.choice([1, 1, 2, 3]), rng.choice([1, 1, 4])
            nsteps = rng.choice([20, 40] if not thorough else [40, 120])
            resets = set(rng.sample(range(0, nsteps - 3), rng.choice([1, 2, 3, 4])))
            if rng.random() < 0.3:
                resets.add(0)
            v = proposal_case(name, T, k, start, nsteps, resets, rng, out)
            out.count('proposal_cases')
            if v:
                v['replay']['kind'] = 'proposal'
                out.violations.append(v)
                if len(out.violations) >= 4:
                    break
    if len(out.violations) < 4:
        nested_and_mixed_cases(rng, out, 24 if thorough else 8)
    failing = core.run_coq_cases('C19', A.HEADER, terms, eval_fn='failing', per_file=6)
    for f in failing[:10]:
        out.corr_failures.append(dict(note='copying semantics (Alias.v) and the real objects disagree at action %d' % (f[1] - 1),
                                      case=metas[f[0]]))
    out.count('coq_cases', len(terms))
    if len(out.violations) < 4:
        rterms, rmetas = pt_reset_runs(rng, out, 40 if thorough else 12, thorough)
        if rterms:
            failing = core.run_coq_cases('C19', A.HEADER.replace('Definition', 'Definition') + '\nNotation case := rcase.', rterms,
                                         eval_fn='failing_reset', per_file=400, tag='reset')
            for f in failing[:10]:
                out.corr_failures.append(dict(note='sweep_idx/reset_levels and the real sweep disagree', case=rmetas[f[0]]))
            out.count('coq_reset_cases', len(rterms))
    return out


def replay(payload):
    print(payload.get('what'))
    rp = payload.get('replay') or {}
    out = core.Outcome()
    if rp.get('kind') == 'sampler':
        _, viol = sampler_case(rp['config'], [tuple(a) for a in rp['actions']], out)
        print('on the current tree:', viol['what'] if viol else 'no violation')
        return 1 if viol else 0
    print(rp)
    return 0
