"""Matrix-valued and componentwise adaptation: full-covariance and componentwise Andrieu-Thoms and
the covariance / mean recursion of the adaptive eigenvector proposals, driven through real
prop.update(chain) calls and emitted as Coq cases for coq/theories/AdaptM.v (Exec/ExecC13M.v).

The componentwise variants read more from their chain than the others: the model (one virtual move
per parameter), the current statistics, the proposed position and _acceptance_ratio.  The stub
provides these; the acceptance ratio of each virtual move is scripted by the harness (it is the
oracle input `ars` of the model) and a scripted subset of virtual moves is sent out of the prior
(logp = -inf), which the implementation must treat as ratio 0."""
import math
import pickle

import numpy

from epsie import proposals as P

from . import core, adapt
from .adapt import fl, Z, BND2

HEADER = ('From Coq Require Import ZArith List PrimFloat.\nFrom Epsie Require Import Base FloatLib Num NumF Adapt AdaptM '
          'Exec.ExecC13 Exec.ExecC13M.\nImport ListNotations.\nOpen Scope float_scope.\nNotation case := mcase.')


def mat(rows):
    return core.clist([fl(r) for r in rows])


class CwStub(adapt.StubChain):
    """StubChain plus what _componentwise_scaling reads."""
    _hasblobs = False

    def __init__(self, params, rng):
        super().__init__(params)
        self.rng = rng
        self.current_stats = dict(logl=-1.0, logp=0.0)
        self.script = []              # per virtual move: (out_of_prior, ar)
        self.used = []
        self.calls = []

    def prepare(self, pos, proposed, hist_kind):
        self.proposed_position = dict(zip(self.params, proposed))
        self.script = []
        for _ in self.params:
            out = self.rng.random() < 0.15
            if hist_kind == 'always':
                ar = 1.0
            elif hist_kind == 'never':
                ar = 0.0
            elif hist_kind == 'high':
                ar = self.rng.uniform(0.5, 1.0)
            elif hist_kind == 'low':
                ar = self.rng.uniform(0.0, 0.4)
            else:
                ar = self.rng.random()
            self.script.append((out and hist_kind not in ('always',), ar))
        self.used = []
        self.calls = []
        self._i = 0

    def model(self, **kw):
        self.calls.append(dict(kw))
        out, _ = self.script[len(self.calls) - 1]
        if self._hasblobs:
            return (-2.0, -numpy.inf if out else 0.0, dict(b=1))
        return (-2.0, -numpy.inf if out else 0.0)

    def _acceptance_ratio(self, logp, logl, proposal, current_logp, current_logl, current_pos):
        i = len(self.calls) - 1
        ar = self.script[i][1]
        return (ar >= 0.5), ar

    def effective_ars(self):
        return [0.0 if out else ar for out, ar in self.script]


class CwStubBlobs(CwStub):
    _hasblobs = True


MFAMILIES = {}


def mfamily(name, kind):
    def deco(f):
        MFAMILIES[name] = (kind, f)
        return f
    return deco


@mfamily('at_adaptive_normal_full', 'at_full')
def _(T, k, start):
    return P.ATAdaptiveNormal(['a', 'b'], adaptation_duration=T, diagonal=False, start_step=start, jump_interval=k)


@mfamily('at_adaptive_normal_full3', 'at_full')
def _(T, k, start):
    return P.ATAdaptiveNormal(['a', 'b', 'c'], adaptation_duration=T, diagonal=False, start_step=start, jump_interval=k)


@mfamily('at_cw_normal_diag', 'at_cw')
def _(T, k, start):
    return P.ATAdaptiveNormal(['a', 'b'], adaptation_duration=T, diagonal=True, componentwise=True, start_step=start, jump_interval=k)


@mfamily('at_cw_normal_full', 'at_cwf')
def _(T, k, start):
    return P.ATAdaptiveNormal(['a', 'b', 'c'], adaptation_duration=T, diagonal=False, componentwise=True, start_step=start,
                              jump_interval=k)


@mfamily('at_cw_bounded_normal', 'at_cw')
def _(T, k, start):
    return P.ATAdaptiveBoundedNormal(['a', 'b'], BND2, adaptation_duration=T, componentwise=True, start_step=start, jump_interval=k)


@mfamily('at_cw_angular', 'at_cw')
def _(T, k, start):
    return P.ATAdaptiveAngular(['a', 'b'], adaptation_duration=T, componentwise=True, start_step=start, jump_interval=k)


@mfamily('ss_adaptive_normal_fullcov', 'ssc')
def _(T, k, start):
    return P.SSAdaptiveNormal(['a', 'b'], cov=numpy.array([[1.0, 0.3], [0.3, 0.5]]), jump_interval=k, jump_interval_duration=T)


@mfamily('ss_adaptive_normal_fullcov_capped', 'ssc')
def _(T, k, start):
    prop = P.SSAdaptiveNormal(['a', 'b'], cov=numpy.array([[1.0, -0.2], [-0.2, 0.5]]), jump_interval=k, jump_interval_duration=T)
    prop.max_std = 1.3             # the documented cap (set by the bounded / angular variants; any user may set it)
    return prop


@mfamily('adaptive_eigenvector', 'eigc')
def _(T, k, start):
    return P.AdaptiveEigenvector(['a', 'b'], adaptation_duration=T, start_step=start, jump_interval=k)


@mfamily('adaptive_eigenvector3', 'eigc')
def _(T, k, start):
    return P.AdaptiveEigenvector(['a', 'b', 'c'], adaptation_duration=T, start_step=start, jump_interval=k)


@mfamily('adaptive_bounded_eigenvector', 'eigc')
def _(T, k, start):
    return P.AdaptiveBoundedEigenvector(['a', 'b'], BND2, adaptation_duration=T, start_step=start, jump_interval=k)


def rows(m):
    return [[float(x) for x in r] for r in numpy.asarray(m)]


def snapshot(kind, prop):
    if kind == 'ssc':
        cap = float(prop.max_std)
        return dict(nsteps=int(prop.nsteps), start=int(prop.start_step), target=float(prop.target_rate), cov=rows(prop._cov),
                    nacc=int(prop.n_accepted), cap=None if math.isinf(cap) else cap)
    s = dict(nsteps=int(prop.nsteps), start=int(prop.start_step), T=int(prop.adaptation_duration), target=float(prop.target_rate),
             decayc=float(prop._decay_const))
    if kind == 'at_full':
        s.update(mean=[float(x) for x in prop._mean], ucov=rows(prop._unit_cov), loglam=float(prop._log_lambda), cov=rows(prop._cov))
    elif kind == 'at_cw':
        s.update(mean=[float(x) for x in prop._mean], ucov=[float(x) for x in prop._unit_cov],
                 loglam=[float(x) for x in prop._log_lambda], std=[float(x) for x in prop._std])
    elif kind == 'at_cwf':
        s.update(mean=[float(x) for x in prop._mean], ucov=rows(prop._unit_cov), loglam=[float(x) for x in prop._log_lambda],
                 cov=rows(prop._cov))
    elif kind == 'eigc':
        s.update(loglam=float(prop._log_lambda), cov=rows(prop._cov), mu=[float(x) for x in prop._mu],
                 eigvals=[float(x) for x in prop.eigvals])
    return s


def coq_case(kind, b, a, ar, ars, x, accepted=None):
    if kind == 'ssc':
        cap = 'None' if b['cap'] is None else '(Some %s)' % core.cfloat(b['cap'])
        return 'CSSC %s %s %s %s %s %s %s %s %s' % (mat(b['cov']), Z(b['nacc']), core.cfloat(b['target']), Z(b['start']), cap, Z(b['nsteps']),
                                                   'true' if accepted else 'false', mat(a['cov']), Z(a['nacc']))
    head = '%s %s %s %s %s' % (Z(b['T']), core.cfloat(b['target']), Z(b['start']), core.cfloat(b['decayc']), Z(b['nsteps']))
    if kind == 'at_full':
        return 'CATF %s %s %s %s %s %s %s %s %s %s %s' % (
            fl(b['mean']), mat(b['ucov']), core.cfloat(b['loglam']), mat(b['cov']), head, core.cfloat(ar), fl(x),
            fl(a['mean']), mat(a['ucov']), core.cfloat(a['loglam']), mat(a['cov']))
    if kind == 'at_cw':
        return 'CATC %s %s %s %s %s %s %s %s %s %s %s' % (
            fl(b['mean']), fl(b['ucov']), fl(b['loglam']), fl(b['std']), head, fl(ars), fl(x),
            fl(a['mean']), fl(a['ucov']), fl(a['loglam']), fl(a['std']))
    if kind == 'at_cwf':
        return 'CATCF %s %s %s %s %s %s %s %s %s %s %s' % (
            fl(b['mean']), mat(b['ucov']), fl(b['loglam']), mat(b['cov']), head, fl(ars), fl(x),
            fl(a['mean']), mat(a['ucov']), fl(a['loglam']), mat(a['cov']))
    if kind == 'eigc':
        return 'CEigC %s %s %s %s %s %s %s %s %s %s %s %s %s' % (
            core.cfloat(b['loglam']), Z(b['T']), core.cfloat(b['target']), Z(b['start']), core.cfloat(b['decayc']),
            mat(b['cov']), fl(b['mu']), Z(b['nsteps']), core.cfloat(ar), fl(x), core.cfloat(a['loglam']), mat(a['cov']), fl(a['mu']))
    return None


def min_eig(m):
    return float(numpy.linalg.eigvalsh(numpy.asarray(m, dtype=float)).min())


def drive(name, T, k, start, hist, hist_kind, rng, on_step, reset_at=None, roundtrip_at=None, blobs=False, spread=(1.0, 1.0)):
    """Feed the real proposal the history; on_step(kind, before, after, info)."""
    kind, make = MFAMILIES[name]
    prop = make(T, k, start)
    nd = len(prop.parameters)
    stub = (CwStubBlobs if blobs else CwStub)(list(prop.parameters), rng)
    pos = [0.3, 0.4, -0.2][:nd]
    prev = None
    for i, (ar, accepted) in enumerate(hist):
        fresh_before = prev is None
        if reset_at is not None and i == reset_at:
            prop._reset_adaptation()
            fresh_before = True
        if roundtrip_at is not None and i == roundtrip_at:
            fresh = make(T, k, start)
            fresh.set_state(pickle.loads(pickle.dumps(prop.state)))
            prop = fresh
            fresh_before = True
        proposed = [pos[0] + spread[0] * rng.uniform(-0.5, 0.5), min(0.99, max(0.01, pos[1] + spread[1] * rng.uniform(-0.1, 0.1)))]
        if nd == 3:
            proposed.append(pos[2] + rng.gauss(0, 2.0))
        if accepted:
            pos = proposed
        stub.set(ar, accepted, pos)
        stub.prepare(pos, proposed, hist_kind)
        before = snapshot(kind, prop) if fresh_before else prev
        called = prop._call_jump()
        try:
            prop.update(stub)
            err = None
        except Exception as e:          # noqa
            err = e
        after = snapshot(kind, prop) if err is None else None
        prev = after
        on_step(kind, before, after, dict(i=i, ar=ar, accepted=accepted, x=list(pos), called=called, error=err, prop=prop,
                                          ars=stub.effective_ars(), script=list(stub.script), virtual=list(stub.calls),
                                          proposed=list(proposed)))
        if err is not None:
            break
    return prop
