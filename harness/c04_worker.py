"""Run one sampler configuration in THIS interpreter and print a digest of everything it produced.
Invoked by harness/props/c04.py in fresh subprocesses under different environments."""
import hashlib
import json
import os
import pickle
import random
import sys
import warnings

warnings.filterwarnings('ignore')


def digest_update(h, obj):
    import numpy
    if isinstance(obj, dict):
        def kr(k):      # the repr of a set depends on the process's hash seed: canonicalise
            return repr(sorted(map(repr, k))) if isinstance(k, (set, frozenset)) else repr(k)
        for k in sorted(obj, key=kr):
            h.update(kr(k).encode())
            digest_update(h, obj[k])
    elif isinstance(obj, (list, tuple)):
        h.update(b'[%d' % len(obj))
        for x in obj:
            digest_update(h, x)
    elif isinstance(obj, numpy.ndarray):
        a = numpy.ascontiguousarray(obj)
        h.update(str(a.dtype).encode() + str(a.shape).encode())
        if a.dtype.names:
            for f in a.dtype.names:
                digest_update(h, a[f])
        elif a.dtype == object:
            for x in a.ravel():
                digest_update(h, x)
        else:
            h.update(a.tobytes())
    elif isinstance(obj, (frozenset, set)):
        h.update(repr(sorted(map(repr, obj))).encode())
    elif isinstance(obj, float):
        import struct
        h.update(struct.pack('<d', obj))
    else:
        h.update(repr(obj).encode())


def main():
    job = json.loads(sys.argv[1])
    cfg, pre = job['config'], job['pre']
    import numpy
    # --- the environment: ambient global RNG states, unrelated objects built before
    if pre.get('np_seed') is not None:
        numpy.random.seed(pre['np_seed'])
    if pre.get('py_seed') is not None:
        random.seed(pre['py_seed'])
    sys.path.insert(0, '/verif')
    from harness import configs as C, pools
    from epsie import proposals as P
    junk = []
    for k in range(pre.get('junk', 0)):
        junk.append(P.Normal(['x%d' % k]))                      # entropy-seeded generators created first
        junk.append(P.UniformBirth(['y'], {'y': (0., 1.)}))
        numpy.random.uniform()
        junk.append(object())
    if pre.get('other_sampler'):
        o = C.build(dict(cfg, seed=cfg['seed'] + 1))
        o.start_position = C.start_position(cfg)
        o.run(2)
        junk.append(o)
    pool = None
    if pre.get('pool') == 'pickle':
        pool = pools.PickleMap()
    elif pre.get('pool') == 'mp':
        import multiprocessing
        pool = multiprocessing.Pool(2)
    s = C.build(cfg, pool=pool)
    s.start_position = C.start_position(cfg)
    for n in job['segments']:
        s.run(n)
    h = hashlib.sha256()
    parts = {}
    for name in ('positions', 'stats', 'acceptance', 'blobs'):
        parts[name] = getattr(s, name)
    if cfg['pt']:
        parts['swaps'] = [ch.temperature_swaps for ch in s.chains]
        parts['swap_acc'] = [ch.temperature_acceptance for ch in s.chains]
        parts['betas'] = [numpy.array(ch.betas, dtype=float) for ch in s.chains]
    parts['state'] = s.state
    parts['proposal_params'] = [[tuple(p.parameters) for p in (ch.chains[0] if cfg['pt'] else ch).proposal_dist.proposals] for ch in s.chains]
    per = {}
    for k, v in parts.items():
        hk = hashlib.sha256()
        digest_update(hk, v)
        per[k] = hk.hexdigest()[:16]
    digest_update(h, per)
    print(json.dumps(dict(digest=h.hexdigest(), parts=per)))
    if pool is not None and hasattr(pool, 'terminate'):
        pool.terminate()


if __name__ == '__main__':
    main()
