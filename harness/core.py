"""Common machinery of the checks: Coq build, proof-obligation audit, running
generated case files under vm_compute, evidence files, decision procedure."""
import fcntl
import hashlib
import json
import os
import re
import subprocess
import sys
import time

VERIF = os.path.dirname(os.path.dirname(os.path.abspath(__file__)))
COQ = os.path.join(VERIF, 'coq')
BUILD = os.path.join(VERIF, 'build')
THEORIES = os.path.join(COQ, 'theories')

# axioms the standard library itself declares and that this development may rely on
ALLOWED_AXIOMS = {
    'ClassicalDedekindReals.sig_forall_dec',
    'ClassicalDedekindReals.sig_not_dec',
    'Classical_Prop.classic',
    'FunctionalExtensionality.functional_extensionality_dep',
}
FORBIDDEN = re.compile(
    r'\b(Admitted|admit|Axiom|Axioms|Parameter|Parameters|Conjecture|Conjectures|Hypothesis|Hypotheses|Variable|Variables'
    r'|Unset\s+Guard|bypass_check|type-in-type|impredicative-set|Admit\s+Obligations)\b')

TRUSTED_BASE = [
    "Coq 8.16.1 kernel (coqc); vm_compute (bytecode VM, incl. its binary64 primitives) for the correspondence "
    "and for refutation witnesses; no native_compute, no extraction, no -type-in-type, no guard/positivity/universe switches",
    "standard-library axioms only, exactly as Print Assumptions reports them under each theorem "
    "(allowed: ClassicalDedekindReals.sig_forall_dec, ClassicalDedekindReals.sig_not_dec, Classical_Prop.classic, "
    "FunctionalExtensionality.functional_extensionality_dep - all via Reals/Coquelicot); none declared by this development",
    "the hand-written Gallina model of the anchored code; it is tied to /repo only by the correspondence run "
    "(model evaluated by vm_compute vs. the real implementation on the same inputs) whose coverage is in this file",
    "the Python correspondence harness: scripted generator, probe model, in-memory h5py stand-in, comparison tolerances "
    "(exact for integers/booleans/indices/copied values, 1e-9 relative for computed floats)",
    "floats modelled as real numbers in the theorems (rounding, overflow, u<=ar at 2^-53 not covered)",
    "where Props/<id>_src.v exists: the fail-closed Python-ast translators tools/py2coq.py / tools/py2coq_num.py / tools/py2coq_h5.py / tools/py2coq_state.py / tools/py2coq_jump.py, which regenerate "
    "coq/theories/Gen/*.v from /repo's working tree on every run (Python's // and % rendered as Z.div / Z.modulo, chained comparisons as "
    "conjunctions, decimal literals as exact rationals over the reals, self.<attr> reads as parameters, a property whose getter is `return self._x` as the attribute _x); what they cannot render is omitted, "
    "so that its theorem fails",
]


def sh(cmd, timeout=600, cwd=None, env=None):
    p = subprocess.run(cmd, shell=isinstance(cmd, str), cwd=cwd, env=env, timeout=timeout,
                       stdout=subprocess.PIPE, stderr=subprocess.STDOUT, text=True)
    return p.returncode, p.stdout


class Lock:
    def __init__(self, name):
        os.makedirs(BUILD, exist_ok=True)
        self.path = os.path.join(BUILD, name)

    def __enter__(self):
        self.f = open(self.path, 'w')
        fcntl.flock(self.f, fcntl.LOCK_EX)
        return self

    def __exit__(self, *a):
        fcntl.flock(self.f, fcntl.LOCK_UN)
        self.f.close()


# files of the development whose failure concerns only some properties (everything else concerns all of them)
SRC_SCOPE = {'theories/Gen/Src': ['C02', 'C06', 'C08', 'C09', 'C13', 'C15', 'C19'], 'theories/SrcTie_clock': ['C02', 'C06', 'C15', 'C19'], 'theories/SrcTie_anneal': ['C06'], 'theories/SrcTie_density': ['C02'], 'theories/SrcTie_window': ['C13'],
             'theories/SrcTie_pt': ['C09'], 'theories/SrcTie_chain': ['C08'], 'theories/Gen/SrcNum': ['C01', 'C03'], 'theories/SrcTie_mh': ['C01'],
             'theories/SrcTie_swap': ['C03'], 'theories/SrcSupport': ['C01', 'C03', 'C20'], 'theories/Gen/SrcAdapt': ['C13', 'C14'], 'theories/SrcTie_ss': ['C13', 'C14'],
             'theories/SrcTie_adapt': ['C13'], 'theories/Gen/SrcLadder': ['C17'], 'theories/SrcTie_ladder': ['C17'], 'theories/Gen/SrcCalls': ['C18'], 'theories/Gen/SrcRng': ['C04'], 'theories/Gen/SrcH5': ['C20'], 'theories/SrcTie_h5': ['C20'],
             'theories/Gen/SrcState': ['C05', 'C07', 'C16', 'C19'], 'theories/SrcTie_state': ['C05'], 'theories/SrcTie_reset': ['C19'],
             'theories/Gen/SrcJump': ['C02', 'C11', 'C12'], 'theories/SrcTie_jump': ['C02', 'C11', 'C12']}


def translate_sources():
    """Regenerate coq/theories/Gen/Src.v from /repo's current sources (tools/py2coq.py, fail-closed)."""
    rc, out = sh('%s %s %s' % (sys.executable, os.path.join(VERIF, 'tools', 'py2coq.py'), os.path.join(THEORIES, 'Gen', 'Src.v') + ' ' + os.path.join(THEORIES, 'Gen', 'SrcCalls.v') + ' ' + os.path.join(THEORIES, 'Gen', 'SrcRng.v')), timeout=120)
    rc2, out2 = sh('%s %s %s' % (sys.executable, os.path.join(VERIF, 'tools', 'py2coq_num.py'), os.path.join(THEORIES, 'Gen', 'SrcNum.v') + ' ' + os.path.join(THEORIES, 'Gen', 'SrcAdapt.v') + ' ' + os.path.join(THEORIES, 'Gen', 'SrcLadder.v')), timeout=120)
    rc3, out3 = sh('%s %s %s' % (sys.executable, os.path.join(VERIF, 'tools', 'py2coq_h5.py'), os.path.join(THEORIES, 'Gen', 'SrcH5.v')), timeout=120)
    rc4, out4 = sh('%s %s %s' % (sys.executable, os.path.join(VERIF, 'tools', 'py2coq_state.py'), os.path.join(THEORIES, 'Gen', 'SrcState.v')), timeout=120)
    rc5, out5 = sh('%s %s %s' % (sys.executable, os.path.join(VERIF, 'tools', 'py2coq_jump.py'), os.path.join(THEORIES, 'Gen', 'SrcJump.v')), timeout=120)
    return '\n'.join(x.strip() for x in (out, out2, out3, out4, out5) if x.strip())


def ensure_build():
    """Source translation, then a full .vo build of the Coq development (no-op when up to date).
    Returns (ok, log, failed) with failed = the targets make could not build. A broken proof file does not stop other files (-k)."""
    with Lock('make.lock'):
        tlog = translate_sources()
        if not os.path.exists(os.path.join(COQ, 'Makefile')):
            sh('coq_makefile -f _CoqProject -o Makefile', cwd=COQ)
        rc, out = sh('timeout 3000 make -k -j16 2>&1 | tail -200', cwd=COQ, timeout=3100)
        ok = 'Error' not in out and 'rror:' not in out and '***' not in out
        failed = sorted(set(re.findall(r'\*\*\* \[[^\]]*?(theories/[\w/]+)\.vo\]', out)))
        if tlog:
            out = tlog + '\n' + out
        return ok, out, failed


def source_tie(pid):
    """which generated definitions this property's source-tie theorems are about (sha-256 of the generated files, untranslated targets)"""
    if not os.path.exists(os.path.join(THEORIES, 'Props', pid + '_src.v')):
        return None
    src = open(os.path.join(THEORIES, 'Props', pid + '_src.v')).read()
    out = dict(statements='coq/theories/Props/%s_src.v' % pid, generated={})
    for fn in sorted(os.listdir(os.path.join(THEORIES, 'Gen'))):
        if not fn.endswith('.v'):
            continue
        text = open(os.path.join(THEORIES, 'Gen', fn)).read()
        if ('Gen.' + fn[:-2]) not in src:
            continue
        out['generated'][fn] = dict(sha256=hashlib.sha256(text.encode()).hexdigest(),
                                    definitions=[d for d in re.findall(r'^Definition (\w+)', text, flags=re.M) if d in src],
                                    not_translated=re.findall(r'^\(\* (\w+): NOT TRANSLATED', text, flags=re.M))
    return out


def build_concerns(pid, failed):
    """does a failed build concern property pid?  Props/Cxx*.v only concern Cxx, the source-tie files the properties they serve."""
    if not failed:
        return True            # errors that could not be attributed to a file: concern everything
    for f in failed:
        m = re.match(r'theories/Props/(C\d\d)', f)
        if m:
            if m.group(1) == pid:
                return True
        elif f in SRC_SCOPE:
            if pid in SRC_SCOPE[f]:
                return True
        else:
            return True
    return False


def theorems_in(path):
    src = open(path).read()
    # strip comments (non-nested is enough for our files; nested handled by loop)
    prev = None
    while prev != src:
        prev = src
        src = re.sub(r'\(\*[^*(]*(?:\*(?!\))[^*(]*|\((?!\*)[^*(]*)*\*\)', '', src)
    return re.findall(r'^\s*(?:Theorem|Lemma)\s+(\w+)', src, flags=re.M), src


def audit_file(fname):
    """coqc on Props/<fname>.v with fresh Print Assumptions output: (names, detail, problems, rc, cmd)"""
    pfile = os.path.join(THEORIES, 'Props', fname + '.v')
    problems, detail = [], {}
    names, _ = theorems_in(pfile)
    outdir = os.path.join(BUILD, 'props')
    os.makedirs(outdir, exist_ok=True)
    cmd = 'timeout 600 coqc -q -Q theories Epsie -w -notation-overridden theories/Props/%s.v -o %s/%s.vo' % (fname, outdir, fname)
    rc, out = sh(cmd, cwd=COQ, timeout=700)
    if rc != 0:
        problems.append('coqc failed on Props/%s.v: %s' % (fname, out.strip()[-600:]))
        for nm in names:
            detail[nm] = 'unchecked'
    else:
        # split Print Assumptions blocks, in order of the Print Assumptions commands
        blocks = re.split(r'(?=Closed under the global context|Axioms:)', out)
        blocks = [b for b in blocks if b.startswith('Closed') or b.startswith('Axioms:')]
        printed = re.findall(r'Print Assumptions (\w+)\.', open(pfile).read())
        for nm in names:
            if nm not in printed:
                detail[nm] = 'no Print Assumptions'
                problems.append('theorem %s lacks Print Assumptions' % nm)
        for nm, b in zip(printed, blocks):
            if b.startswith('Closed'):
                detail[nm] = 'closed'
            else:
                axs = [a for a in re.findall(r'^([A-Za-z_][\w.]*)\s*:', b, flags=re.M) if a != 'Axioms']
                bad = [a for a in axs if a not in ALLOWED_AXIOMS]
                detail[nm] = 'axioms: ' + ', '.join(axs)
                if bad:
                    problems.append('theorem %s depends on non-allowed axioms %s' % (nm, bad))
        if len(blocks) != len(printed):
            problems.append('Print Assumptions output count mismatch (%d vs %d)' % (len(blocks), len(printed)))
    return names, detail, problems, rc, cmd


def prop_files(pid):
    """Props/<pid>.v and, where the property has one, the source-tie statements Props/<pid>_src.v"""
    out = [pid] if os.path.exists(os.path.join(THEORIES, 'Props', pid + '.v')) else []
    if os.path.exists(os.path.join(THEORIES, 'Props', pid + '_src.v')):
        out.append(pid + '_src')
    return out


def audit_proofs(pid):
    """Re-check Props/<pid>.v (and Props/<pid>_src.v) with coqc (fresh Print Assumptions output) and
    audit the sources. Returns dict(obligations, discharged, detail, problems)."""
    problems, detail, names, rcs, cmds = [], {}, [], [], []
    for fname in prop_files(pid):
        n_, d_, p_, rc_, cmd_ = audit_file(fname)
        names += n_
        detail.update(d_)
        problems += p_
        rcs.append(rc_)
        cmds.append(cmd_)
    if not names:
        problems.append('no theorem file for %s' % pid)
        return dict(obligations=0, discharged=0, detail={}, problems=problems, checker_cmd='')
    rc = max(rcs)
    cmd = ' && '.join(cmds)
    # source audit over all theories
    for root, _, files in os.walk(THEORIES):
        for fn in files:
            if not fn.endswith('.v'):
                continue
            _, src = theorems_in(os.path.join(root, fn))
            secnames = set(re.findall(r'^\s*Section\s+(\w+)', src, flags=re.M))
            for m in FORBIDDEN.finditer(src):
                word = m.group(1)
                if word in ('Variable', 'Variables', 'Hypothesis', 'Hypotheses'):
                    before = src[:m.start()]
                    opens = len(re.findall(r'^\s*Section\s+\w+', before, flags=re.M))
                    closes = len([1 for e in re.findall(r'^\s*End\s+(\w+)', before, flags=re.M) if e in secnames])
                    if opens - closes > 0:
                        continue   # inside a Section: becomes a universally quantified premise
                problems.append('forbidden token %r in %s' % (word, os.path.relpath(os.path.join(root, fn), VERIF)))
    ok_names = [n for n in names if detail.get(n, '').startswith(('closed', 'axioms'))]
    if any(('forbidden' in p_ or 'mismatch' in p_) for p_ in problems):
        discharged = 0           # (theorems of a file that failed to compile are 'unchecked' and not counted below)
    else:
        discharged = len([n for n in ok_names if not any(('theorem %s ' % n) in p_ for p_ in problems)])
    return dict(obligations=len(names), discharged=discharged, detail=detail, problems=problems, checker_cmd=cmd)



COQCHK_ALLOWED_PREFIXES = ('Coq.', 'Flocq.', 'Coquelicot.', 'mathcomp.', 'Interval.')


def coqchk(pid):
    """Independent re-check of Props/<pid>.vo and everything it depends on (coqchk -o); returns
    dict(ok, axioms, problems, cmd, wall_s).  Serialised: coqchk needs up to ~4 GB."""
    cmd = 'timeout 2400 coqchk -silent -o -Q theories Epsie %s' % ' '.join('Epsie.Props.' + f for f in prop_files(pid))
    t0 = time.time()
    with Lock('coqchk.lock'):
        rc, out = sh(cmd, cwd=COQ, timeout=2500)
    res = dict(cmd='cd /verif/coq && ' + cmd, wall_s=round(time.time() - t0, 1), axioms=[], problems=[])
    if rc != 0:
        res['problems'].append('coqchk failed: ' + out.strip()[-500:])
    m = re.search(r'\* Axioms:(.*?)\n\s*\n\* Constants/Inductives relying on type-in-type:(.*?)\n\s*\n\* Constants/Inductives relying on unsafe '
                  r'\(co\)fixpoints:(.*?)\n\s*\n\* Inductives whose positivity is assumed:(.*?)\n', out + '\n\n', flags=re.S)
    if not m:
        res['problems'].append('cannot parse coqchk output: ' + out.strip()[-300:])
    else:
        axs = [a.strip() for a in m.group(1).strip().splitlines() if a.strip() and a.strip() != '<none>']
        res['axioms'] = axs
        for a in axs:
            if a.startswith('Epsie.') or not a.startswith(COQCHK_ALLOWED_PREFIXES):
                res['problems'].append('axiom outside the installed libraries: ' + a)
        for name, g in (('type-in-type', m.group(2)), ('unsafe fixpoints', m.group(3)), ('assumed positivity', m.group(4))):
            if g.strip() != '<none>':
                res['problems'].append('%s: %s' % (name, g.strip()[:200]))
    res['ok'] = not res['problems']
    return res

# ---------------------------------------------------------------------------
# Coq literals
def cfloat(x):
    x = float(x)
    if x != x:
        return 'nan'
    if x == float('inf'):
        return 'infinity'
    if x == float('-inf'):
        return 'neg_infinity'
    h = x.hex()
    if h.startswith('-'):
        return '(-%s)' % h[1:]
    return '(%s)' % h


def cZ(n):
    n = int(n)
    return '(%d)%%Z' % n


def cnat(n):
    n = int(n)
    assert 0 <= n < 5000, n
    return '%d' % n


def cbool(b):
    return 'true' if b else 'false'


def clist(items):
    return '[' + '; '.join(items) + ']'


def copt(x, f):
    return 'None' if x is None else '(Some %s)' % f(x)


def run_coq_cases(pid, header, case_terms, eval_fn='failing', per_file=300, tag='cases', timeout=900):
    """Write the cases into shards `build/cases/<pid>_<tag>_<k>.v`, evaluate
    `eval_fn cases` by vm_compute in each, return the list of failing global
    indices (or raise RuntimeError when coqc itself fails)."""
    d = os.path.join(BUILD, 'cases')
    os.makedirs(d, exist_ok=True)
    for fn in os.listdir(d):
        if fn.startswith('%s_%s_' % (pid, tag)):
            os.unlink(os.path.join(d, fn))
    shards = [case_terms[i:i + per_file] for i in range(0, len(case_terms), per_file)]
    files = []
    for k, sh_cases in enumerate(shards):
        fn = os.path.join(d, '%s_%s_%d.v' % (pid, tag, k))
        with open(fn, 'w') as f:
            f.write(header + '\n')
            f.write('Definition cases : list case := [\n' + ';\n'.join(sh_cases) + '\n].\n')
            f.write('Eval vm_compute in (%s cases).\n' % eval_fn)
        files.append(fn)
    if not files:
        return []
    listing = '\n'.join(files)
    cmd = ("xargs -P 16 -I{} sh -c 'ulimit -s unlimited 2>/dev/null; timeout %d coqc -q -noglob -Q %s Epsie -w none {} > {}.out 2>&1; echo $? > {}.rc'"
           % (timeout, THEORIES))
    subprocess.run(cmd, shell=True, input=listing, text=True, timeout=timeout + 60)
    failing = []
    for k, fn in enumerate(files):
        rc = open(fn + '.rc').read().strip()
        out = open(fn + '.out').read()
        if rc != '0':
            raise RuntimeError('coqc failed on %s: %s' % (fn, out[-800:]))
        flat = ' '.join(out.split())
        m = re.search(r'=\s*\[(.*?)\]\s*:\s*list', flat)
        if not m:
            raise RuntimeError('cannot parse coqc output of %s: %s' % (fn, flat[-400:]))
        body = m.group(1).strip()
        if body:
            for tok in body.split(';'):
                tok = tok.strip()
                nums = re.findall(r'-?\d+', tok)
                failing.append((k * per_file + int(nums[0]),) + tuple(int(x) for x in nums[1:]))
    return failing


# ---------------------------------------------------------------------------
class Outcome:
    """What a property module reports back to the decision procedure."""

    def __init__(self):
        self.evaluations = 0
        self.nontrivial = set()        # hashable descriptors of distinct non-trivial cases
        self.rule = ''
        self.samples = []
        self.distribution = {}
        self.corr_failures = []        # list of dict(case=..., note=...)
        self.violations = []           # list of dict(what=..., replay=...)  (direct oracle, real code)
        self.known_hits = []           # list of dict(flag=..., what=..., witness=...)
        self.variant = {}              # flag -> bool identified
        self.notes = []
        self.exhaustive = False

    def count(self, key, n=1):
        self.distribution[key] = self.distribution.get(key, 0) + n


def load_known():
    p = os.path.join(VERIF, 'known_findings.json')
    if not os.path.exists(p):
        return []
    return json.load(open(p))


def write_replay(pid, payload):
    os.makedirs(os.path.join(VERIF, 'replay'), exist_ok=True)
    blob = json.dumps(payload, sort_keys=True, default=repr)
    h = hashlib.sha256(blob.encode()).hexdigest()[:12]
    path = os.path.join(VERIF, 'replay', '%s-%s.json' % (pid, h))
    with open(path, 'w') as f:
        json.dump(payload, f, indent=1, sort_keys=True, default=repr)
    return path


def finish(pid, tier, seed, t0, audit, out, assumptions=None, chk=None):
    """Decision procedure (DESIGN 2.5) + evidence file. Returns exit code."""
    known = [k for k in load_known() if k.get('property') == pid]
    open_flags = {k['flag']: k for k in known if k.get('status') == 'open'}
    lines = []
    nviol = 0
    # known findings: identified on the real code by their stored witness
    for hit in out.known_hits:
        k = open_flags.get(hit['flag'])
        if k is not None:
            lines.append('KNOWN-FINDING: property=%s %s' % (pid, k['what']))
        else:
            path = write_replay(pid, dict(property=pid, kind='defect-witness', flag=hit['flag'],
                                          what=hit.get('what'), witness=hit.get('witness')))
            lines.append('VIOLATION property=%s replay=%s' % (pid, path))
            nviol += 1
    for v in out.violations:
        path = write_replay(pid, dict(property=pid, kind='failing-input', what=v.get('what'), replay=v.get('replay')))
        lines.append('VIOLATION property=%s replay=%s' % (pid, path))
        nviol += 1
    if chk is not None and not chk.get('ok'):
        audit['problems'].extend('coqchk: ' + p_ for p_ in chk['problems'])
    proof_broken = audit['discharged'] != audit['obligations'] or audit['obligations'] == 0 or audit['problems']
    if nviol == 0 and (proof_broken or out.corr_failures):
        payload = dict(property=pid, kind='no-failing-input-found')
        if proof_broken:
            payload['proof_obligations'] = dict(problems=audit['problems'], detail=audit['detail'])
        if out.corr_failures:
            payload['correspondence_failures'] = out.corr_failures[:5]
            payload['n_correspondence_failures'] = len(out.corr_failures)
        path = write_replay(pid, payload)
        lines.append('VIOLATION property=%s replay=%s no-failing-input-found' % (pid, path))
        nviol += 1
    ev = dict(
        property_id=pid, tier=tier, seed=seed, level='proof',
        coverage=dict(
            obligations=audit['obligations'], discharged=audit['discharged'],
            checker_cmd='cd /verif/coq && ' + audit['checker_cmd'] + '  (after `make` of the whole development; '
                        'correspondence: coqc on generated build/cases/%s_*.v, Eval vm_compute)' % pid,
            trusted_base=TRUSTED_BASE + (assumptions or []),
            theorems=audit['detail'],
            evaluations=out.evaluations,
            distinct_nontrivial=len(out.nontrivial),
            rule=out.rule,
            samples=out.samples[:6],
            input_distribution=out.distribution,
            variant_member=out.variant,
            correspondence_failures=len(out.corr_failures),
            exhaustive=bool(out.exhaustive),
            notes=out.notes,
            coqchk=chk,
            source_tie=source_tie(pid),
        ),
        assumptions=assumptions or [],
        wall_s=round(time.time() - t0, 2),
        violations=nviol,
    )
    os.makedirs(os.path.join(VERIF, 'evidence'), exist_ok=True)
    with open(os.path.join(VERIF, 'evidence', pid + '.json'), 'w') as f:
        json.dump(ev, f, indent=1, default=repr)
    for l in lines:
        print(l)
    print('%s tier=%s seed=%d obligations=%d discharged=%d cases=%d nontrivial=%d corr_failures=%d violations=%d wall=%.1fs'
          % (pid, tier, seed, audit['obligations'], audit['discharged'], out.evaluations, len(out.nontrivial),
             len(out.corr_failures), nviol, time.time() - t0))
    return 1 if nviol else 0


def eval_coq(header, body, expr, name='dbg', timeout=300):
    """Evaluate one expression with vm_compute; returns Coq's printed value (whitespace-normalised)."""
    d = os.path.join(BUILD, 'cases')
    os.makedirs(d, exist_ok=True)
    fn = os.path.join(d, name + '.v')
    with open(fn, 'w') as f:
        f.write(header + '\n' + body + '\nEval vm_compute in (%s).\n' % expr)
    rc, out = sh('timeout %d coqc -q -noglob -Q %s Epsie -w none %s' % (timeout, THEORIES, fn), timeout=timeout + 30)
    if rc != 0:
        raise RuntimeError(out[-1500:])
    flat = ' '.join(out.split())
    m = re.search(r'=\s*(.*)\s*:\s*[^:]*$', flat)
    return m.group(1).strip() if m else flat


def parse_nested_ints(s):
    """'[[1; 2]; [3]]' -> [[1, 2], [3]]"""
    s = s.replace('%Z', '').replace('%nat', '').replace(';', ',')
    s = re.sub(r'\(\s*(-?\d+)\s*\)', r'\1', s)
    import ast
    return ast.literal_eval(s)
