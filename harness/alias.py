"""Shared by C16 and C19: real samplers/chains seen as the worlds of coq/theories/Alias.v.

A *register* is a leaf of an object tree (a state dict, or the adaptive attributes named by
``_initial_proposal_params``); its *contents* are encoded as a list of integers (bit patterns
of doubles, integers as they are, digests for strings), so that comparison is exact."""
import hashlib
import struct

import numpy

from . import core


def _digest(b):
    return int.from_bytes(hashlib.sha256(b).digest()[:8], 'big')


def encode_leaf(x):
    """Python/numpy leaf -> list of ints (first int = type tag)."""
    if x is None:
        return [0]
    if isinstance(x, (bool, numpy.bool_)):
        return [1, int(x)]
    if isinstance(x, (int, numpy.integer)):
        return [2, int(x)]
    if isinstance(x, (float, numpy.floating)):
        return [3, struct.unpack('<q', struct.pack('<d', float(x)))[0]]
    if isinstance(x, (str, bytes)):
        b = x.encode() if isinstance(x, str) else x
        return [4, _digest(b)]
    if isinstance(x, numpy.ndarray):
        a = numpy.ascontiguousarray(x)
        head = [5, a.ndim] + [int(s) for s in a.shape]
        if a.dtype == numpy.float64:
            return head + [int(v) for v in a.reshape(-1).view(numpy.int64)]
        if a.dtype.kind in 'iub':
            return head + [int(v) for v in a.reshape(-1)]
        return head + [_digest(a.tobytes()), _digest(str(a.dtype).encode())]
    if isinstance(x, (frozenset, set)):
        return [6, _digest(repr(sorted(map(repr, x))).encode())]
    return [7, _digest(repr(x).encode())]


def flatten(obj, path=()):
    """-> list of (path, leaf) in a canonical order."""
    if isinstance(obj, dict):
        out = []
        for k in sorted(obj, key=repr):
            out.extend(flatten(obj[k], path + (repr(k),)))
        return out
    if isinstance(obj, (list, tuple)):
        out = []
        for i, v in enumerate(obj):
            out.extend(flatten(v, path + (i,)))
        return out
    return [(path, obj)]


def contents(obj):
    return [encode_leaf(v) for _, v in flatten(obj)]


def layout(obj):
    return [p for p, _ in flatten(obj)]


def zl(ints):
    return '[' + '; '.join('(%d)%%Z' % i for i in ints) + ']'


def arrs(cs):
    return '[' + '; '.join(zl(c) for c in cs) + ']'


def arrss(css):
    return '[' + '; '.join(arrs(cs) for cs in css) + ']'


def coq_op(op):
    k = op[0]
    if k == 'inplace':
        return 'InPlace %d %d %s' % (op[1], op[2], zl(op[3]))
    if k == 'rebind':
        return 'Rebind %d %d %s' % (op[1], op[2], zl(op[3]))
    if k == 'get':
        return 'GetState %d' % op[1]
    if k == 'set':
        return 'SetState %d %d' % (op[1], op[2])
    if k == 'reset':
        return 'Reset %d' % op[1]
    raise ValueError(op)


def coq_case(vals, steps):
    """vals: per sampler list of contents; steps: list of (ops, (samplers, states, inits))"""
    body = []
    for ops, (a, b, c) in steps:
        body.append('(%s, (%s, %s, %s))' % ('[' + '; '.join(coq_op(o) for o in ops) + ']', arrss(a), arrss(b), arrss(c)))
    return '(%s, [%s])' % (arrss(vals), ';\n  '.join(body))


HEADER = ('From Coq Require Import ZArith List.\nFrom Epsie Require Import Base Alias Exec.ExecAlias.\n'
          'Import ListNotations.')


def diff_ops(s, old_contents, new_contents, old_ids, new_ids):
    """The model operations describing how sampler s's registers changed between two
    observations: a register whose live object is the same object is an in-place write,
    otherwise the attribute was rebound."""
    ops = []
    for f, (o, n) in enumerate(zip(old_contents, new_contents)):
        same_obj = old_ids is not None and old_ids[f] is not None and old_ids[f] is new_ids[f]
        if o != n:
            ops.append(('inplace' if same_obj else 'rebind', s, f, n))
        elif not same_obj and old_ids is not None and isinstance(new_ids[f], numpy.ndarray):
            ops.append(('rebind', s, f, n))
    return ops


# ---------------------------------------------------------------------------------------------
# adaptive attributes of a chain / sampler (the C19 registers)
def adaptive_props(sampler):
    """[(label, proposal)] for every proposal with stored initial values, over all chains and levels."""
    out = []
    for ci, ch in enumerate(sampler.chains):
        levels = getattr(ch, 'chains', None) or [ch]
        for li, lv in enumerate(levels):
            for pi, p in enumerate(lv.proposal_dist.proposals):
                if getattr(p, '_initial_proposal_params', None) is not None:
                    out.append(((ci, li, pi), p))
    return out


def live_values(props):
    """[(label, attr, live object)] in canonical order."""
    out = []
    for lab, p in props:
        for attr in sorted(p._initial_proposal_params):
            out.append((lab, attr, getattr(p, attr)))
    return out


def stored_values(props):
    out = []
    for lab, p in props:
        for attr in sorted(p._initial_proposal_params):
            out.append((lab, attr, p._initial_proposal_params[attr]))
    return out
