"""Driving the adaptation (_update) of real adaptive proposals with forced acceptance
histories through a stub chain, snapshotting the adaptation state around every call and
emitting Coq cases for coq/theories/Adapt.v.  Shared by C13 and C14."""
import math
import random

import numpy

from epsie import proposals as P

from . import core

HEADER = ('From Coq Require Import ZArith List PrimFloat.\nFrom Epsie Require Import Base FloatLib Num NumF Adapt Exec.ExecC13.\n'
          'Import ListNotations.\nOpen Scope float_scope.')

ACC_DTYPE = numpy.dtype([('acceptance_ratio', float), ('accepted', bool)])


class StubChain:
    """What the (non-componentwise, non-transdimensional) _update methods read from their chain."""

    def __init__(self, params):
        self.params = params
        self.acceptance = numpy.zeros(1, dtype=ACC_DTYPE)
        self.current_position = {p: 0.0 for p in params}
        self.proposed_position = dict(self.current_position)
        self.iteration = 0

    def set(self, ar, accepted, pos):
        self.acceptance[0] = (ar, accepted)
        self.current_position = dict(zip(self.params, pos))
        self.iteration += 1


def fl(xs):
    return core.clist([core.cfloat(x) for x in xs])


def Z(n):
    return '(%d)%%Z' % int(n)


FAMILIES = {}


def family(name, kind):
    def deco(f):
        FAMILIES[name] = (kind, f)
        return f
    return deco


BND2 = {'a': (-3.0, 5.0), 'b': (0.0, 1.0)}


@family('adaptive_normal', 'veitch')
def _(T, k, start):
    return P.AdaptiveNormal(['a', 'b'], {'a': 8.0, 'b': 1.0}, adaptation_duration=T, start_step=start, jump_interval=k)


@family('adaptive_bounded_normal', 'veitch')
def _(T, k, start):
    return P.AdaptiveBoundedNormal(['a', 'b'], BND2, adaptation_duration=T, start_step=start, jump_interval=k)


@family('adaptive_angular', 'veitch')
def _(T, k, start):
    return P.AdaptiveAngular(['a', 'b'], adaptation_duration=T, start_step=start, jump_interval=k)


@family('adaptive_discrete', 'veitch')
def _(T, k, start):
    return P.AdaptiveNormalDiscrete(['a', 'b'], {'a': 8, 'b': 20}, adaptation_duration=T, start_step=start, jump_interval=k)


@family('adaptive_bounded_discrete', 'veitch')
def _(T, k, start):
    return P.AdaptiveBoundedDiscrete(['a', 'b'], {'a': (-3, 5), 'b': (0, 20)}, adaptation_duration=T, start_step=start, jump_interval=k)


@family('ss_adaptive_normal', 'ss')
def _(T, k, start):
    return P.SSAdaptiveNormal(['a', 'b'], cov=[1.0, 0.25], jump_interval=k, jump_interval_duration=T)


@family('ss_adaptive_normal_fullcov', 'ss_cov')
def _(T, k, start):
    return P.SSAdaptiveNormal(['a', 'b'], cov=numpy.array([[1.0, 0.3], [0.3, 0.5]]), jump_interval=k, jump_interval_duration=T)


@family('ss_adaptive_bounded_normal', 'ss')
def _(T, k, start):
    return P.SSAdaptiveBoundedNormal(['a', 'b'], BND2, cov=[1.0, 0.04], jump_interval=k, jump_interval_duration=T)


@family('ss_adaptive_angular', 'ss')
def _(T, k, start):
    return P.SSAdaptiveAngular(['a', 'b'], cov=[0.5, 0.1], jump_interval=k, jump_interval_duration=T)


@family('ss_adaptive_discrete', 'ss')
def _(T, k, start):
    return P.SSAdaptiveNormalDiscrete(['a', 'b'], cov=[4.0, 1.0], jump_interval=k, jump_interval_duration=T)


@family('ss_adaptive_bounded_discrete', 'ss')
def _(T, k, start):
    return P.SSAdaptiveBoundedDiscrete(['a', 'b'], {'a': (-3, 5), 'b': (0, 20)}, cov=[4.0, 1.0], jump_interval=k, jump_interval_duration=T)


@family('at_adaptive_normal_diag', 'at')
def _(T, k, start):
    return P.ATAdaptiveNormal(['a', 'b'], adaptation_duration=T, diagonal=True, start_step=start, jump_interval=k)


@family('at_adaptive_normal_full', 'at_full')
def _(T, k, start):
    return P.ATAdaptiveNormal(['a', 'b'], adaptation_duration=T, diagonal=False, start_step=start, jump_interval=k)


@family('at_adaptive_bounded_normal', 'at')
def _(T, k, start):
    return P.ATAdaptiveBoundedNormal(['a', 'b'], BND2, adaptation_duration=T, start_step=start, jump_interval=k)


@family('at_adaptive_angular', 'at')
def _(T, k, start):
    return P.ATAdaptiveAngular(['a', 'b'], adaptation_duration=T, start_step=start, jump_interval=k)


@family('adaptive_eigenvector', 'eig')
def _(T, k, start):
    return P.AdaptiveEigenvector(['a', 'b'], adaptation_duration=T, start_step=start, jump_interval=k)


@family('adaptive_bounded_eigenvector', 'eig')
def _(T, k, start):
    return P.AdaptiveBoundedEigenvector(['a', 'b'], BND2, adaptation_duration=T, start_step=start, jump_interval=k)


@family('adaptive_isotropic_solid_angle', 'kappa')
def _(T, k, start):
    return P.AdaptiveIsotropicSolidAngle('a', 'b', adaptation_duration=T, start_step=start, jump_interval=k)


def snapshot(kind, prop):
    """The adaptation state as plain floats."""
    s = dict(nsteps=int(prop.nsteps), start=int(prop.start_step))
    if kind == 'veitch':
        s.update(std=[float(x) for x in prop._std], deltas=[float(x) for x in prop.deltas], T=int(prop.adaptation_duration),
                 decay=float(prop.adaptation_decay), target=float(prop.target_rate))
    elif kind == 'ss':
        cap = float(prop.max_std)
        s.update(std=[float(x) for x in prop._std], nacc=int(prop.n_accepted), target=float(prop.target_rate),
                 cap=None if math.isinf(cap) else cap)
    elif kind == 'ss_cov':
        s.update(cov=[float(x) for x in numpy.asarray(prop._cov).ravel()], nacc=int(prop.n_accepted), target=float(prop.target_rate))
    elif kind == 'at':
        s.update(mean=[float(x) for x in prop._mean], ucov=[float(x) for x in prop._unit_cov], loglam=float(prop._log_lambda),
                 std=[float(x) for x in prop._std], T=int(prop.adaptation_duration), target=float(prop.target_rate),
                 decayc=float(prop._decay_const))
    elif kind == 'at_full':
        s.update(mean=[float(x) for x in prop._mean], ucov=[float(x) for x in numpy.asarray(prop._unit_cov).ravel()],
                 loglam=float(prop._log_lambda), cov=[float(x) for x in numpy.asarray(prop._cov).ravel()],
                 T=int(prop.adaptation_duration), target=float(prop.target_rate))
    elif kind == 'eig':
        s.update(loglam=float(prop._log_lambda), eigvals=[float(x) for x in prop.eigvals],
                 cov=[float(x) for x in numpy.asarray(prop._cov).ravel()], T=int(prop.adaptation_duration),
                 target=float(prop.target_rate), decayc=float(prop._decay_const))
    elif kind == 'kappa':
        s.update(logk=float(prop._log_kappa), kappa=float(prop.kappa), norm=float(prop.norm), T=int(prop.adaptation_duration),
                 target=float(prop.target_rate), decayc=float(prop._decay_const))
    return s


def scale_vars(kind, s):
    """The documented scale variable(s) of a snapshot, as a list that grows when the proposal widens."""
    if kind in ('veitch', 'ss'):
        return s['std']
    if kind == 'ss_cov':
        return s['cov'][::3]
    if kind in ('at', 'at_full', 'eig'):
        return [s['loglam']]
    if kind == 'kappa':
        return [-s['logk']]
    raise ValueError(kind)


def coq_case(kind, b, a, accepted, ar, x):
    if kind == 'veitch':
        return 'CVeitch %s %s %s %s %s %s %s %s %s' % (fl(b['std']), fl(b['deltas']), Z(b['T']), core.cfloat(b['decay']),
                                                      core.cfloat(b['target']), Z(b['start']), Z(b['nsteps']),
                                                      'true' if accepted else 'false', fl(a['std']))
    if kind == 'ss':
        cap = 'None' if b['cap'] is None else '(Some %s)' % core.cfloat(b['cap'])
        return 'CSS %s %s %s %s %s %s %s %s %s' % (fl(b['std']), Z(b['nacc']), core.cfloat(b['target']), Z(b['start']), cap,
                                                  Z(b['nsteps']), 'true' if accepted else 'false', fl(a['std']), Z(a['nacc']))
    if kind == 'at':
        return 'CAT %s %s %s %s %s %s %s %s %s %s %s %s %s %s %s' % (
            fl(b['mean']), fl(b['ucov']), core.cfloat(b['loglam']), fl(b['std']), Z(b['T']), core.cfloat(b['target']), Z(b['start']),
            core.cfloat(b['decayc']), Z(b['nsteps']), core.cfloat(ar), fl(x), fl(a['mean']), fl(a['ucov']), core.cfloat(a['loglam']),
            fl(a['std']))
    if kind == 'eig':
        return 'CEig %s %s %s %s %s %s %s %s' % (core.cfloat(b['loglam']), Z(b['T']), core.cfloat(b['target']), Z(b['start']),
                                                core.cfloat(b['decayc']), Z(b['nsteps']), core.cfloat(ar), core.cfloat(a['loglam']))
    if kind == 'kappa':
        return 'CKappa %s %s %s %s %s %s %s %s %s' % (core.cfloat(b['logk']), Z(b['T']), core.cfloat(b['target']), Z(b['start']),
                                                     core.cfloat(b['decayc']), Z(b['nsteps']), core.cfloat(ar), core.cfloat(a['logk']),
                                                     core.cfloat(a['kappa']))
    return None


def history(kind_h, n, rng):
    """(ar, accepted) sequence."""
    out = []
    for i in range(n):
        if kind_h == 'always':
            out.append((1.0, True))
        elif kind_h == 'never':
            out.append((0.0, False))
        elif kind_h == 'alternate':
            out.append((1.0, True) if i % 2 == 0 else (1e-3, False))
        elif kind_h == 'high':
            ar = rng.uniform(0.5, 1.0)
            out.append((ar, rng.random() < ar))
        elif kind_h == 'low':
            ar = rng.uniform(0.0, 0.2)
            out.append((ar, rng.random() < ar))
        else:
            ar = rng.random()
            out.append((ar, rng.random() < ar))
    return out


def drive(name, T, k, start, hist, rng, on_step, reset_at=None, decay=None, roundtrip_at=None):
    """Build the real proposal, feed it the history through prop.update(stub); call on_step(kind, before, after, info)."""
    kind, make = FAMILIES[name]
    prop = make(T, k, start)
    if decay is not None and kind == 'veitch':
        prop.adaptation_decay = decay            # the documented optional `adaptation_decay` argument
    stub = StubChain(list(prop.parameters))
    pos = [0.3, 0.4]
    prev = None
    for i, (ar, accepted) in enumerate(hist):
        if reset_at is not None and i == reset_at:
            try:
                prop._reset_adaptation()         # Chain.reset_proposals(): the window restarts at the current step
            except Exception as e:          # noqa
                on_step(kind, prev, None, dict(i=i, ar=ar, accepted=accepted, x=list(pos), called=False, prop=prop,
                                               error=RuntimeError('the adaptation reset before this update raised %r' % (e,))))
                break
        if roundtrip_at is not None and i == roundtrip_at:
            # checkpoint / resume: the state goes through pickle into a freshly constructed proposal
            import pickle
            fresh = make(T, k, start)
            if decay is not None and kind == 'veitch':
                fresh.adaptation_decay = decay
            fresh.set_state(pickle.loads(pickle.dumps(prop.state)))
            prop = fresh
            prev = None
        if accepted:
            pos = [pos[0] + rng.uniform(-0.5, 0.5), min(0.99, max(0.01, pos[1] + rng.uniform(-0.1, 0.1)))]
        stub.set(ar, accepted, pos)
        before = snapshot(kind, prop) if (prev is None or (reset_at is not None and i == reset_at) or (roundtrip_at is not None and i == roundtrip_at)) else prev
        called = prop._call_jump()
        try:
            prop.update(stub)
            err = None
        except Exception as e:          # noqa
            err = e
        after = snapshot(kind, prop) if err is None else None
        prev = after
        on_step(kind, before, after, dict(i=i, ar=ar, accepted=accepted, x=list(pos), called=called, error=err, prop=prop))
        if err is not None:
            break
    return prop
