"""Pool objects with the semantics of the built-in map (results in input order) but different
evaluation orders and copying behaviour, used by C07 and C04."""
import copy
import pickle
import random


class _Base:
    name = 'base'

    def map(self, func, iterable):
        raise NotImplementedError


class SerialMap(_Base):
    name = 'serial'

    def map(self, func, iterable):
        return [func(a) for a in iterable]


class ReversedMap(_Base):
    name = 'reversed'

    def map(self, func, iterable):
        args = list(iterable)
        out = [None] * len(args)
        for i in reversed(range(len(args))):
            out[i] = func(args[i])
        return out


class ShuffledMap(_Base):
    name = 'shuffled'

    def __init__(self, seed=0):
        self.rng = random.Random(seed)

    def map(self, func, iterable):
        args = list(iterable)
        order = list(range(len(args)))
        self.rng.shuffle(order)
        out = [None] * len(args)
        for i in order:
            out[i] = func(args[i])
        return out


class CopyMap(_Base):
    """deep-copies every argument before evaluating (what a process pool does to the chains)"""
    name = 'deepcopy'

    def map(self, func, iterable):
        return [func(copy.deepcopy(a)) for a in iterable]


class PickleMap(_Base):
    """arguments and results cross a pickle boundary, one at a time (process pool, chunksize 1)"""
    name = 'pickle'

    def map(self, func, iterable):
        return [pickle.loads(pickle.dumps(func(pickle.loads(pickle.dumps(a))))) for a in iterable]


class ChunkPickleMap(_Base):
    """arguments are pickled in chunks: objects shared by the chains of one chunk stay shared in the worker"""
    name = 'chunk-pickle'

    def __init__(self, chunksize=2):
        self.chunksize = chunksize

    def map(self, func, iterable):
        args = list(iterable)
        out = []
        for k in range(0, len(args), self.chunksize):
            chunk = pickle.loads(pickle.dumps(args[k:k + self.chunksize]))
            out.extend(pickle.loads(pickle.dumps([func(a) for a in chunk])))
        return out


def all_pools(seed=0):
    return [None, SerialMap(), ReversedMap(), ShuffledMap(seed), CopyMap(), PickleMap(), ChunkPickleMap(2), ChunkPickleMap(3)]
