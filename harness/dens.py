"""Real logpdf()/jump() calls of every proposal and birth family, turned into cases for
coq/theories/Exec/ExecC02.v (shared by C02 and C12).  Draws are scripted through GenTap:
the generator hands out prepared standard-normal quantiles / uniforms, so that jump() is a
deterministic map of its draws."""
import math
import random

import numpy

from epsie import proposals as P

from . import core
from .trace import GenTap

HEADER = ('From Coq Require Import ZArith List PrimFloat.\nFrom Epsie Require Import Base FloatLib FloatLib2 Num NumF Dens Exec.ExecC02.\n'
          'Import ListNotations.\nOpen Scope float_scope.')


def fl(xs):
    return core.clist([core.cfloat(x) for x in xs])


def zl(xs):
    return core.clist(['(%d)%%Z' % int(x) for x in xs])


def bl(xs):
    return core.clist([core.cbool(x) for x in xs])


def pair(p):
    return '(%s, %s)' % (core.cfloat(p[0]), core.cfloat(p[1]))


class Script:
    """scripted generator: normal() draws come from a list of standard quantiles, random()/uniform() from a list of uniforms"""

    def __init__(self, zs=(), us=()):
        self.zs = list(zs)
        self.us = list(us)
        self.zi = 0
        self.ui = 0
        self.normals = []        # values handed out by normal()
        self.nnormal = 0

    def _z(self):
        z = self.zs[self.zi]     # IndexError when the script is exhausted
        self.zi += 1
        return z

    def _u(self):
        u = self.us[self.ui]
        self.ui += 1
        return u

    def __call__(self, owner, method, a, k, real):
        if method == 'normal':
            loc = k.get('loc', a[0] if len(a) > 0 else 0.0)
            scale = k.get('scale', a[1] if len(a) > 1 else 1.0)
            if isinstance(loc, (int, float)) and isinstance(scale, (int, float)):
                v = float(loc + scale * self._z())
                self.normals.append(v)
                self.nnormal += 1
                return v
            loc_a, scale_a = numpy.asarray(loc, dtype=float), numpy.asarray(scale, dtype=float)
            shape = numpy.broadcast(loc_a, scale_a).shape
            if shape == ():
                v = float(loc_a + scale_a * self._z())
                self.normals.append(v)
                self.nnormal += 1
                return v
            out = numpy.empty(shape)
            lb, sb = numpy.broadcast_to(loc_a, shape), numpy.broadcast_to(scale_a, shape)
            for i in range(shape[0]):
                out[i] = lb[i] + sb[i] * self._z()
                self.normals.append(float(out[i]))
            return out
        if method in ('random', 'random_sample'):
            size = k.get('size', a[0] if a else None)
            if size is None:
                return self._u()
            return numpy.array([self._u() for _ in range(int(size))])
        if method == 'uniform':
            lo = k.get('low', a[0] if len(a) > 0 else 0.0)
            hi = k.get('high', a[1] if len(a) > 1 else 1.0)
            return lo + (hi - lo) * self._u()
        return real(*a, **k)


def zq(rng, n, extreme=False):
    """standard normal quantiles: mostly typical, some extreme, some exactly on cell edges"""
    out = []
    for _ in range(n):
        r = rng.random()
        if extreme and r < 0.15:
            out.append(rng.choice([-8.0, 8.0, -5.5, 6.5, 1e-300, -1e-300, 1e-12, -1e-12, 0.0, -0.0]))
        elif r < 0.3:
            out.append(rng.choice([-2.0, -1.0, -0.5, 0.5, 1.0, 1.5, 2.0, 2.5, -2.5, 3.0]))
        else:
            out.append(rng.gauss(0, 1.3))
    return out



def perturb_state(prop, rng, out, lo_hi=None):
    """move a (possibly adaptive) proposal into 'any internal state': adaptation steps driven through a stub chain,
    a reset, and/or an assignment through the public std setter"""
    from .adapt import StubChain
    what = []
    if hasattr(prop, '_reset_adaptation') and rng.random() < 0.8:
        stub = StubChain(list(prop.parameters))
        pos = [0.3 + 0.1 * i for i in range(len(prop.parameters))]
        if lo_hi is not None:
            pos = [0.5 * (lo_hi[p][0] + lo_hi[p][1]) for p in prop.parameters]
        for i in range(rng.choice([1, 3, 8])):
            acc = rng.random() < 0.5
            stub.set(1.0 if acc else 0.1, acc, pos)
            try:
                prop.update(stub)
            except Exception:      # noqa
                break
        what.append('adapted')
        if rng.random() < 0.4:
            prop._reset_adaptation()
            what.append('reset')
    if rng.random() < 0.3:
        try:
            prop.std = [float(s) * rng.choice([0.5, 2.0, 3.0]) for s in prop._std]
            what.append('std-setter')
        except Exception:      # noqa
            pass
    for w in what:
        out.count('state_' + w)
    return what

# ---------------------------------------------------------------------------------------------
def discrete_cases(rng, out, n, bounded, extreme=False):
    terms, metas = [], []
    for _ in range(n):
        npar = rng.choice([1, 2, 3])
        params = ['a', 'b', 'c'][:npar]
        covs = [rng.choice([0.25, 1.0, 2.25, 9.0, 30.25]) for _ in params]
        succ = {p: rng.random() < 0.5 for p in params}
        if rng.random() < 0.5:
            # the dictionary handed to the constructor need not list the parameters in the proposal's order
            keys = list(params)
            rng.shuffle(keys)
            succ_arg = {p: succ[p] for p in keys}
        else:
            succ_arg = succ
        if bounded:
            bnd = {p: (rng.choice([-4, 0, 1]), rng.choice([3, 5, 9])) for p in params}
            bnd = {p: (min(v), max(v) if max(v) > min(v) else min(v) + 2) for p, v in bnd.items()}
            given_bnd = dict(bnd)
            if rng.random() < 0.35:
                # non-integer boundaries are allowed: the proposal widens them to the enclosing integers
                given_bnd = {p: (v[0] + rng.choice([0.0, 0.5, 0.2]), v[1] - rng.choice([0.0, 0.5, 0.7])) for p, v in bnd.items()}
            cls = rng.choice(['BoundedDiscrete', 'BoundedDiscrete', 'AdaptiveBoundedDiscrete', 'SSAdaptiveBoundedDiscrete'])
            if cls == 'BoundedDiscrete':
                prop = P.BoundedDiscrete(params, given_bnd, cov=covs, successive=succ_arg)
            elif cls == 'AdaptiveBoundedDiscrete':
                prop = P.AdaptiveBoundedDiscrete(params, given_bnd, adaptation_duration=20, successive=succ_arg)
            else:
                prop = P.SSAdaptiveBoundedDiscrete(params, given_bnd, cov=covs, successive=succ_arg)
        else:
            cls = rng.choice(['NormalDiscrete', 'NormalDiscrete', 'AdaptiveNormalDiscrete', 'SSAdaptiveNormalDiscrete'])
            if cls == 'NormalDiscrete':
                prop = P.NormalDiscrete(params, cov=covs, successive=succ_arg)
            elif cls == 'AdaptiveNormalDiscrete':
                prop = P.AdaptiveNormalDiscrete(params, {p: 8 for p in params}, adaptation_duration=20, successive=succ_arg)
            else:
                prop = P.SSAdaptiveNormalDiscrete(params, cov=covs, successive=succ_arg)
            bnd = None
        if bounded:
            # the integer bounds the proposal works with (floor / ceil of what it was given)
            bnd = {p: (int(math.floor(given_bnd[p][0])), int(math.ceil(given_bnd[p][1]))) for p in params}
            held = {p: (int(prop.boundaries[p][0]), int(prop.boundaries[p][1])) for p in params}
            if held != bnd:
                out.corr_failures.append(dict(note='BoundedDiscrete holds boundaries %s for given %s' % (held, given_bnd)))
            if given_bnd != bnd:
                out.count('non_integer_bounds')
        perturb_state(prop, rng, out, bnd)
        covs = [float(s) ** 2 for s in prop._std]
        stds = [float(s) for s in prop._std]
        prop.bit_generator = numpy.random.PCG64(1)
        def reach(i, p):
            # largest displacement whose cell starts within 4.5 standard deviations (rounding: cell (d-1/2, d+1/2); floor/ceil: (d-1, d])
            return int(4.5 * stds[i] + 0.5) if succ[p] else int(4.5 * stds[i] + 1)
        # ---- logpdf at several pairs, queried in different orders, repeatedly
        pairs = []
        for _ in range(rng.choice([2, 3, 4])):
            if bounded:
                g = {p: rng.randint(*bnd[p]) for p in params}
                # keep the move within ~4.5 standard deviations: further out the implementation's own cdf differences
                # (1 - 1e-14 minus 1 - 4e-14) lose all relative accuracy, which is a floating-point matter, not the property
                x = {p: max(bnd[p][0], min(bnd[p][1], g[p] + max(-reach(i, p), min(reach(i, p), rng.randint(-9, 9)))))
                     for i, p in enumerate(params)}
            else:
                g = {p: rng.randint(-3, 3) for p in params}
                x = {p: g[p] + max(-reach(i, p), min(reach(i, p), rng.randint(-6, 6))) for i, p in enumerate(params)}
            pairs.append((x, g))
        order = [rng.randrange(len(pairs)) for _ in range(len(pairs) * 3)]
        seen = {}
        for qi in order:
            x, g = pairs[qi]
            rev = rng.random() < 0.4
            xi, gi = (g, x) if rev else (x, g)
            try:
                val = float(prop.logpdf(dict(xi), dict(gi)))
            except Exception as e:      # noqa
                out.corr_failures.append(dict(note='logpdf raised %r' % (e,), case=dict(family=prop.name, xi=xi, given=gi, stds=stds)))
                continue
            out.evaluations += 1
            key = (qi, rev)
            if key in seen and not (seen[key] == val or (seen[key] != seen[key] and val != val)):
                out.violations.append(dict(what='%s: the same density query answered %r and later %r (depends on earlier queries)'
                                                % (prop.name, seen[key], val),
                                           replay=dict(family=prop.name, params=params, cov=covs, successive=succ, bounds=bnd,
                                                       xi=xi, given=gi)))
            seen.setdefault(key, val)
            succs = [succ[p] for p in params]
            if bounded:
                terms.append('CBD %s %s %s %s %s %s %s' % (bl(succs), zl([bnd[p][0] for p in params]), zl([bnd[p][1] for p in params]),
                                                         fl(stds), zl([gi[p] for p in params]), zl([xi[p] for p in params]), core.cfloat(val)))
            else:
                terms.append('CND %s %s %s %s' % (bl(succs), fl(stds), zl([xi[p] - gi[p] for p in params]), core.cfloat(val)))
            metas.append(dict(family=prop.name, kind='logpdf', params=params, cov=covs, successive=succ, bounds=bnd, xi=xi, given=gi, value=val))
            if npar > 1 and len(set(covs)) > 1:
                out.nontrivial.add(repr((prop.name, tuple(covs), tuple(sorted(xi.items())), tuple(sorted(gi.items())))))
        # ---- jumps under scripted draws
        for _ in range(6):
            fromx = {p: (rng.randint(*bnd[p]) if bounded else rng.randint(-5, 5)) for p in params}
            sc = Script(zs=zq(rng, 400, extreme))
            with GenTap(script=sc):
                try:
                    res = prop.jump(dict(fromx))
                except IndexError:
                    out.count('script_exhausted')       # thousands of rejected draws: how long a loop may take is C14's subject
                    continue
                except Exception as e:      # noqa
                    out.corr_failures.append(dict(note='jump raised %r' % (e,), case=dict(family=prop.name, fromx=fromx)))
                    continue
            out.evaluations += 1
            # the draws were consumed parameter by parameter
            k = 0
            try:
                _replay_ok = True
                _k = 0
                for p in params:
                    while True:
                        v = sc.normals[_k]
                        _k += 1
                        d = int(round(v, 0)) if succ[p] else int(numpy.sign(v) * numpy.ceil(abs(v)))
                        if (not bounded or bnd[p][0] <= fromx[p] + d <= bnd[p][1]) and (succ[p] or d != 0):
                            break
                if _k != len(sc.normals):
                    _replay_ok = False
            except IndexError:
                _replay_ok = False
            if not _replay_ok:
                out.corr_failures.append(dict(note='the draws consumed by jump() do not follow the rounding / redraw rule of the parameters',
                                              case=dict(family=prop.name, params=params, successive=succ, bounds=bnd, fromx=fromx,
                                                        draws=sc.normals[:12], result={q: int(res[q]) for q in params})))
                continue
            for i, p in enumerate(params):
                if bounded:
                    # find how many draws this parameter consumed by replaying the acceptance rule on the recorded values
                    used = []
                    while True:
                        v = sc.normals[k]
                        used.append(v)
                        k += 1
                        d = int(round(v, 0)) if succ[p] else int(numpy.sign(v) * numpy.ceil(abs(v)))
                        if bnd[p][0] <= fromx[p] + d <= bnd[p][1] and (succ[p] or d != 0):
                            break
                    terms.append('CBDJ %s %s %s %s %s %s %d%%nat' % (core.cbool(succ[p]), core.cZ(bnd[p][0]), core.cZ(bnd[p][1]), core.cZ(fromx[p]),
                                                                    fl(used), core.cZ(res[p]), len(used)))
                    metas.append(dict(family=prop.name, kind='jump', param=p, fromx=fromx[p], draws=used, result=int(res[p])))
                else:
                    used = []
                    while True:
                        v = sc.normals[k]
                        used.append(v)
                        k += 1
                        d = int(round(v, 0)) if succ[p] else int(numpy.sign(v) * numpy.ceil(abs(v)))
                        if succ[p] or d != 0:
                            break
                    terms.append('CNDJ %s %s %s %s %d%%nat' % (core.cbool(succ[p]), core.cZ(fromx[p]), fl(used), core.cZ(res[p]), len(used)))
                    metas.append(dict(family=prop.name, kind='jump', param=p, fromx=fromx[p], draws=used, result=int(res[p])))
            out.count('discrete_jumps')
        out.count(prop.name)
    return terms, metas


def index_jump_cases(rng, out, make, n):
    """jumps of a one-parameter BoundedDiscrete index proposal (make(rng) -> proposal, parameter, successive, lo, hi) under scripted
    draws that land on, just inside and just outside the edge cells: CBDJ cases for the model's redraw rule, whose law is bd_logpmf1"""
    terms, metas = [], []
    for _ in range(n):
        prop, p, succ, lo, hi = make(rng)
        std = float(prop._std[0])
        for k in sorted(set([lo, hi, rng.randint(lo, hi), rng.randint(lo, hi)])):
            edge = [(hi - k) + 0.3, (lo - k) - 0.3, (hi - k) + 0.7, (lo - k) - 0.7, (hi - k) - 0.2, (lo - k) + 0.2, 0.2, -0.3]
            rng.shuffle(edge)
            deltas = edge[:rng.choice([2, 3, 4])] + [rng.gauss(0, std) for _ in range(40)]
            sc = Script(zs=[d / std for d in deltas])
            with GenTap(script=sc):
                try:
                    res = prop.jump({p: k})
                except IndexError:
                    out.count('script_exhausted')
                    continue
                except Exception as e:      # noqa
                    out.corr_failures.append(dict(note='index jump raised %r' % (e,), case=dict(family=prop.name, fromx=k, std=std)))
                    continue
            out.evaluations += 1
            used = list(sc.normals)
            out.count('index_jumps')
            if len(used) <= 200:
                terms.append('CBDJ %s %s %s %s %s %s %d%%nat' % (core.cbool(succ), core.cZ(lo), core.cZ(hi), core.cZ(k), fl(used),
                                                                core.cZ(int(res[p])), len(used)))
                metas.append(dict(family=prop.name, kind='jump', param=p, successive=succ, bounds=(lo, hi), std=std, fromx=k, draws=used,
                                  result=int(res[p])))
    return terms, metas


def bounded_normal_cases(rng, out, n, extreme=False):
    terms, metas = [], []
    for _ in range(n):
        npar = rng.choice([1, 2, 3])
        params = ['a', 'b', 'c'][:npar]
        bnd = {p: rng.choice([(-3.0, 5.0), (0.0, 1.0), (-1e-3, 2e-3), (10.0, 1000.0)]) for p in params}
        covs = [rng.choice([0.01, 1.0, 25.0, 1e4]) * (bnd[p][1] - bnd[p][0]) ** 2 * rng.choice([1e-4, 0.04, 1.0]) for p in params]
        cls = rng.choice(['BoundedNormal', 'AdaptiveBoundedNormal', 'SSAdaptiveBoundedNormal', 'ATAdaptiveBoundedNormal'])
        if cls == 'BoundedNormal':
            prop = P.BoundedNormal(params, bnd, cov=covs)
        elif cls == 'AdaptiveBoundedNormal':
            prop = P.AdaptiveBoundedNormal(params, bnd, adaptation_duration=20)
        elif cls == 'SSAdaptiveBoundedNormal':
            prop = P.SSAdaptiveBoundedNormal(params, bnd, cov=covs)
        else:
            prop = P.ATAdaptiveBoundedNormal(params, bnd, adaptation_duration=20)
        perturb_state(prop, rng, out, bnd)
        stds = [float(s) for s in prop._std]
        prop.bit_generator = numpy.random.PCG64(1)

        def pt(p):
            lo, hi = bnd[p]
            r = rng.random()
            return lo if r < 0.1 else hi if r < 0.2 else lo + (hi - lo) * rng.random()
        for _ in range(5):
            g = {p: pt(p) for p in params}
            x = {p: pt(p) for p in params}
            if rng.random() < 0.1:
                x[params[0]] = bnd[params[0]][1] + 0.5 * (bnd[params[0]][1] - bnd[params[0]][0])      # outside: density 0
            val = float(prop.logpdf(dict(x), dict(g)))
            out.evaluations += 1
            terms.append('CBN %s %s %s %s %s %s' % (fl([bnd[p][0] for p in params]), fl([bnd[p][1] for p in params]), fl(stds),
                                                   fl([g[p] for p in params]), fl([x[p] for p in params]), core.cfloat(val)))
            metas.append(dict(family=prop.name, kind='logpdf', bounds=bnd, stds=stds, xi=x, given=g, value=val))
            if npar > 1:
                out.nontrivial.add(repr(('bn', tuple(stds), tuple(sorted(x.items())))))
        for _ in range(5):
            fromx = {p: pt(p) for p in params}
            sc = Script(zs=zq(rng, 3000, extreme))
            with GenTap(script=sc):
                try:
                    res = prop.jump(dict(fromx))
                except IndexError:
                    out.count('script_exhausted')       # thousands of rejected draws: how long a loop may take is C14's subject
                    continue
                except Exception as e:      # noqa
                    out.corr_failures.append(dict(note='jump raised %r' % (e,), case=dict(family=prop.name, fromx=fromx, stds=stds)))
                    continue
            out.evaluations += 1
            k = 0
            for p in params:
                used = []
                while True:
                    v = sc.normals[k]
                    used.append(v)
                    k += 1
                    if bnd[p][0] <= v <= bnd[p][1]:
                        break
                if len(used) <= 200:
                    terms.append('CBNJ %s %s %s %s %d%%nat' % (core.cfloat(bnd[p][0]), core.cfloat(bnd[p][1]), fl(used), core.cfloat(res[p]), len(used)))
                    metas.append(dict(family=prop.name, kind='jump', param=p, bounds=bnd[p], fromx=fromx[p], ndraws=len(used), result=float(res[p])))
        out.count(prop.name)
    return terms, metas


def interval_cases(rng, out, n):
    """slow proposals (jump_interval > 1) in every phase of their clock: on and off their jump iteration before the
    interval's duration has elapsed, and after it.  Whatever the clock says, jump and logpdf must agree: when jump moves
    the point, logpdf is the density of that move (CBN against the model); when jump returns the point, logpdf is 0."""
    terms, metas = [], []
    for _ in range(n):
        npar = rng.choice([1, 2])
        params = ['a', 'b'][:npar]
        bnd = {p: rng.choice([(-3.0, 5.0), (0.0, 1.0)]) for p in params}
        covs = [rng.choice([0.04, 1.0]) * (bnd[p][1] - bnd[p][0]) ** 2 for p in params]
        k = rng.choice([2, 3, 5])
        dur = rng.choice([3, 6, 40])
        cls = rng.choice(['BoundedNormal', 'SSAdaptiveBoundedNormal', 'AdaptiveBoundedNormal'])
        kw = dict(jump_interval=k, jump_interval_duration=dur)
        if cls == 'BoundedNormal':
            prop = P.BoundedNormal(params, bnd, cov=covs, **kw)
        elif cls == 'SSAdaptiveBoundedNormal':
            prop = P.SSAdaptiveBoundedNormal(params, bnd, cov=covs, **kw)
        else:
            dur = rng.choice([3, 6])     # the adaptive family takes the interval's duration from its adaptation duration
            prop = P.AdaptiveBoundedNormal(params, bnd, adaptation_duration=dur, jump_interval=k)
        prop.bit_generator = numpy.random.PCG64(rng.randrange(1, 10 ** 6))
        stds = [float(s) for s in prop._std]
        for clock in sorted(rng.sample(range(0, 8 * k + 2), 6)):
            prop._nsteps = clock
            fromx = {p: bnd[p][0] + (bnd[p][1] - bnd[p][0]) * rng.choice([0.02, 0.5, 0.97, rng.random()]) for p in params}
            res = prop.jump(dict(fromx))
            moved = any(float(res[p]) != float(fromx[p]) for p in params)
            fwd = float(prop.logpdf(dict(res), dict(fromx)))
            rev = float(prop.logpdf(dict(fromx), dict(res)))
            out.evaluations += 1
            out.count('interval_moved' if moved else 'interval_copied')
            meta = dict(family=prop.name, kind='logpdf', jump_interval=k, jump_interval_duration=dur, clock=clock, bounds=bnd,
                        stds=stds, given=fromx, xi={p: float(res[p]) for p in params})
            if not moved:
                if fwd != 0.0 or rev != 0.0:
                    out.violations.append(dict(what='a slow proposal copied the point on iteration %d (interval %d, duration %r) but reports '
                                                    'log densities %r / %r for that move' % (clock, k, dur, fwd, rev), replay=meta))
                continue
            # directly: the Hastings factor from the reported densities against the truncated normals the move was drawn from
            from scipy import stats as _st

            def tn(x, mu):
                return sum(_st.norm.logpdf(x[p], mu[p], sd) - math.log(_st.norm.cdf((bnd[p][1] - mu[p]) / sd) - _st.norm.cdf((bnd[p][0] - mu[p]) / sd))
                           for p, sd in zip(params, stds))
            want = tn(fromx, res) - tn(res, fromx)
            if abs((rev - fwd) - want) > 1e-7 * (1 + abs(want)):
                out.violations.append(dict(
                    what='a slow %s (interval %d, duration %r) on iteration %d of its clock drew a move but reports log densities %r forward and %r '
                         'backward: Hastings factor %r, the ratio of the densities the move and its reverse are drawn with is %r'
                         % (prop.name, k, dur, clock, fwd, rev, rev - fwd, want), replay=meta))
            for (xi, gv, val) in ((res, fromx, fwd), (fromx, res, rev)):
                terms.append('CBN %s %s %s %s %s %s' % (fl([bnd[p][0] for p in params]), fl([bnd[p][1] for p in params]), fl(stds),
                                                       fl([gv[p] for p in params]), fl([xi[p] for p in params]), core.cfloat(val)))
                metas.append(dict(meta, value=val))
    return terms, metas


def normal_cases(rng, out, n):
    terms, metas = [], []
    for _ in range(n):
        npar = rng.choice([1, 2, 3])
        params = ['a', 'b', 'c'][:npar]
        covs = [rng.choice([1e-6, 0.25, 1.0, 9.0, 1e4]) for _ in params]
        cls = rng.choice(['Normal', 'Normal', 'AdaptiveNormal', 'SSAdaptiveNormal', 'ATAdaptiveNormal'])
        if cls == 'Normal':
            prop = P.Normal(params, cov=covs)
        elif cls == 'AdaptiveNormal':
            prop = P.AdaptiveNormal(params, {p: rng.choice([2.0, 8.0]) for p in params}, adaptation_duration=20)
        elif cls == 'SSAdaptiveNormal':
            prop = P.SSAdaptiveNormal(params, cov=[min(c, 9.0) for c in covs])
        else:
            prop = P.ATAdaptiveNormal(params, adaptation_duration=20, diagonal=True)
        # any internal state: adapted, reset (with no update after it), scale reassigned
        perturb_state(prop, rng, out)
        out.count('normal_' + cls)
        stds = [float(s) for s in prop._std]
        for _ in range(4):
            g = {p: rng.uniform(-5, 5) for p in params}
            x = {p: g[p] + rng.gauss(0, 2) * stds[i] for i, p in enumerate(params)}
            val = float(prop.logpdf(dict(x), dict(g)))
            out.evaluations += 1
            terms.append('CN %s %s %s %s' % (fl(stds), fl([x[p] for p in params]), fl([g[p] for p in params]), core.cfloat(val)))
            metas.append(dict(family='normal', stds=stds, xi=x, given=g, value=val))
        out.count('normal')
    return terms, metas


def angular_cases(rng, out, n, extreme=False):
    terms, metas = [], []
    for _ in range(n):
        npar = rng.choice([1, 2])
        params = ['a', 'b'][:npar]
        covs = [rng.choice([1e-4, 0.05, 0.5, 4.0, 100.0]) for _ in params]
        cls = rng.choice(['Angular', 'AdaptiveAngular', 'SSAdaptiveAngular', 'ATAdaptiveAngular'])
        if cls == 'Angular':
            prop = P.Angular(params, cov=covs)
        elif cls == 'AdaptiveAngular':
            prop = P.AdaptiveAngular(params, adaptation_duration=20)
        elif cls == 'SSAdaptiveAngular':
            prop = P.SSAdaptiveAngular(params, cov=covs)
        else:
            prop = P.ATAdaptiveAngular(params, adaptation_duration=20)
        perturb_state(prop, rng, out)
        stds = [float(s) for s in prop._std]
        prop.bit_generator = numpy.random.PCG64(1)

        def ang():
            r = rng.random()
            return 0.0 if r < 0.08 else 2 * math.pi if r < 0.12 else rng.uniform(0, 2 * math.pi)
        for _ in range(5):
            g = {p: ang() for p in params}
            x = {p: ang() for p in params}
            val = float(prop.logpdf(dict(x), dict(g)))
            out.evaluations += 1
            terms.append('CANG %s %s %s %s' % (fl(stds), fl([x[p] for p in params]), fl([g[p] for p in params]), core.cfloat(val)))
            metas.append(dict(family='angular', kind='logpdf', stds=stds, xi=x, given=g, value=val))
        for _ in range(5):
            fromx = {p: ang() for p in params}
            sc = Script(zs=zq(rng, 3000, extreme))
            try:
                with GenTap(script=sc):
                    res = prop.jump(dict(fromx))
            except IndexError:
                out.count('script_exhausted')
                continue
            out.evaluations += 1
            k = 0
            for p in params:
                used = []
                while True:
                    v = sc.normals[k]
                    used.append(v)
                    k += 1
                    if not abs(v) > 1.0:
                        break
                if len(used) <= 200:
                    terms.append('CANGJ %s %s %s %d%%nat' % (core.cfloat(fromx[p]), fl(used), core.cfloat(res[p]), len(used)))
                    metas.append(dict(family='angular', kind='jump', fromx=fromx[p], ndraws=len(used), result=float(res[p])))
        out.count('angular')
    return terms, metas


def eigen_cases(rng, out, n):
    terms, metas = [], []
    for _ in range(n):
        bounded = rng.random() < 0.5
        params = ['a', 'b'] if rng.random() < 0.6 else ['a', 'b', 'c']
        nd = len(params)
        A = numpy.array([[rng.uniform(-1, 1) for _ in range(nd)] for _ in range(nd)])
        cov = A @ A.T + numpy.eye(nd) * 0.3
        cov = (cov + cov.T) / 2
        bnd = {p: (-3.0, 5.0) for p in params}
        prop = P.BoundedEigenvector(params, bnd, cov=cov) if bounded else P.Eigenvector(params, cov=cov)
        prop.bit_generator = numpy.random.PCG64(rng.randrange(1, 10 ** 6))
        for _ in range(4):
            fromx = {p: rng.uniform(-2.5, 4.5) for p in params}
            res = prop.jump(dict(fromx))
            ind, dx = int(prop._ind), float(prop._dx)
            s = float(prop.eigvals[ind])
            v = [float(prop.eigvects[i, ind]) for i in range(nd)]
            out.evaluations += 1
            terms.append('CEIGJ %s %s %s %s' % (fl([fromx[p] for p in params]), fl(v), core.cfloat(dx), fl([res[p] for p in params])))
            metas.append(dict(family=prop.name, kind='jump', fromx=fromx, dx=dx))
            fwd = float(prop.logpdf(dict(res), dict(fromx)))
            rev = float(prop.logpdf(dict(fromx), dict(res)))
            if bounded:
                in1, in2 = prop._intersects(dict(fromx), prop.eigvects[:, ind])
                width = float(numpy.linalg.norm([in2[p] - in1[p] for p in params]))
                for (xi, gv, val) in ((res, fromx, fwd), (fromx, res, rev)):
                    mu = float(numpy.linalg.norm([gv[p] - in1[p] for p in params]))
                    xx = float(numpy.linalg.norm([xi[p] - in1[p] for p in params]))
                    terms.append('CBEIG %s %s %s %s %s' % (core.cfloat(s), core.cfloat(mu), core.cfloat(xx), core.cfloat(width), core.cfloat(val)))
                    metas.append(dict(family=prop.name, kind='logpdf', scale=s, mu=mu, xi=xx, width=width, value=val))
            else:
                terms.append('CEIG %s %s %s' % (core.cfloat(s), core.cfloat(dx), core.cfloat(fwd)))
                metas.append(dict(family=prop.name, kind='logpdf', scale=s, dx=dx, value=fwd))
                if fwd != rev:
                    out.violations.append(dict(what='eigenvector proposal declares itself symmetric but reports %r forward and %r backward for '
                                                    'its most recent jump' % (fwd, rev), replay=dict(family=prop.name, fromx=fromx)))
        if bounded:
            forced_redraw_case(prop, params, nd, rng, out)
        out.count(prop.name)
    return terms, metas


class DirScript:
    """dictates the direction picks and the displacements of an eigenvector jump; never shuffles"""

    def __init__(self, picks, dxs):
        self.picks, self.dxs = list(picks), list(dxs)
        self.npick = self.ndx = 0

    def __call__(self, owner, method, a, k, real):
        if method == 'uniform':
            return 0.999999
        if method == 'choice':
            v = a[0][self.picks[self.npick]]
            self.npick += 1
            return v
        if method == 'normal':
            v = self.dxs[self.ndx]
            self.ndx += 1
            return v
        return real(*a, **k)


def forced_redraw_case(prop, params, nd, rng, out):
    """The density a bounded eigenvector proposal reports is that of ONE direction draw (with the eigenvalue
    weights, wherever the chain is) followed by a normal displacement truncated to the segment along that
    direction.  A jump whose first displacement leaves the bounds must therefore end along the direction
    it drew first; the script supplies a different direction for any further pick."""
    if prop.shuffle_rate >= 0.999999:
        return
    k1 = rng.randrange(nd)
    k2 = (k1 + 1 + rng.randrange(nd - 1)) % nd
    fromx = {p: rng.uniform(0.0, 2.0) for p in params}
    dx_out, dx_in = 1e3, rng.choice([-1, 1]) * rng.uniform(0.01, 0.2)
    sc = DirScript([k1] + [k2] * 8, [dx_out, dx_in] + [dx_in] * 8)
    with GenTap(script=sc):
        try:
            res = prop.jump(dict(fromx))
        except Exception as e:      # noqa
            out.corr_failures.append(dict(note='bounded eigenvector jump with a refused first displacement raised %r' % (e,),
                                          case=dict(family=prop.name, fromx=fromx)))
            return
    out.evaluations += 1
    want = [fromx[p] + dx_in * float(prop.eigvects[i, k1]) for i, p in enumerate(params)]
    got = [float(res[p]) for p in params]
    out.count('forced_redraw')
    if sc.npick == 1 and sc.ndx != 2:
        out.corr_failures.append(dict(note='bounded eigenvector jump no longer draws displacements one at a time until one is in bounds '
                                           '(%d normal draws for a scripted refused-then-accepted pair)' % sc.ndx,
                                      case=dict(family=prop.name, fromx=fromx)))
        return
    if sc.npick != 1 or any(abs(a - b) > 1e-12 * (1 + abs(a)) for a, b in zip(want, got)):
        out.violations.append(dict(
            what='a bounded eigenvector jump whose first displacement left the bounds drew its direction %d times and ended at %r; '
                 'one direction draw (eigenvector %d) followed by the accepted displacement %r along it ends at %r.  The direction '
                 'law is then conditioned on the position, which the reported density (normal truncated along one direction) does '
                 'not account for' % (sc.npick, got, k1, dx_in, want),
            replay=dict(family=prop.name, fromx=fromx, eigvects=[[float(x) for x in r] for r in prop.eigvects],
                        eigvals=[float(x) for x in prop.eigvals], direction_picks=[k1, k2], displacements=[dx_out, dx_in],
                        result=got, expected=want)))


def forced_redraw_block(rng, out, n):
    """bounded eigenvector proposals (plain and adaptive, 2-3 parameters): forced_redraw_case on each"""
    for i in range(n):
        params = ['a', 'b'] if rng.random() < 0.6 else ['a', 'b', 'c']
        nd = len(params)
        A = numpy.array([[rng.uniform(-1, 1) for _ in range(nd)] for _ in range(nd)])
        cov = A @ A.T + numpy.eye(nd) * 0.3
        cov = (cov + cov.T) / 2
        bnd = {p: (-3.0, 5.0) for p in params}
        if i % 2:
            prop = P.AdaptiveBoundedEigenvector(params, bnd, adaptation_duration=50)
        else:
            prop = P.BoundedEigenvector(params, bnd, cov=cov)
        prop.bit_generator = numpy.random.PCG64(rng.randrange(1, 10 ** 6))
        forced_redraw_case(prop, params, nd, rng, out)


def vmf_cases(rng, out, n, extreme=False):
    terms, metas = [], []
    for _ in range(n):
        kappa = rng.choice([0.5, 1.0, 5.0, 20.0, 100.0])
        prop = P.IsotropicSolidAngle('a', 'b', kappa=kappa)
        prop.bit_generator = numpy.random.PCG64(1)
        norm = float(prop.norm)

        def pt():
            return rng.uniform(0, 2 * math.pi), rng.uniform(0.05, math.pi - 0.05)
        for _ in range(4):
            g, x = pt(), pt()
            val = float(prop.logpdf({'a': x[0], 'b': x[1]}, {'a': g[0], 'b': g[1]}))
            out.evaluations += 1
            terms.append('CVMF %s %s %s %s %s' % (core.cfloat(kappa), core.cfloat(norm), pair(x), pair(g), core.cfloat(val)))
            metas.append(dict(family='isotropic_solid_angle', kind='logpdf', kappa=kappa, xi=x, given=g, value=val))
        for _ in range(5):
            f = pt()
            u1 = rng.random()
            u2 = rng.choice([rng.random(), rng.random(), 0.5, 1e-9]) if extreme else rng.uniform(0.001, 0.999)
            sc = Script(us=[u1, u2])
            with GenTap(script=sc):
                res = prop.jump({'a': f[0], 'b': f[1]})
            out.evaluations += 1
            terms.append('CVMFJ %s %s %s %s %s %s' % (core.cfloat(kappa), core.cfloat(norm), pair(f), core.cfloat(u1), core.cfloat(u2),
                                                     pair((res['a'], res['b']))))
            metas.append(dict(family='isotropic_solid_angle', kind='jump', kappa=kappa, fromx=f, u=(u1, u2), result=(float(res['a']), float(res['b']))))
        out.count('isotropic_solid_angle')
    return terms, metas


def birth_cases(rng, out, n):
    terms, metas = [], []

    def messy(d, extra):
        """the dictionaries handed to a constructor need not list the parameters in the proposal's order, and one dictionary may be
        shared by the births of several components (it then names more parameters than this birth has)"""
        keys = list(d)
        if rng.random() < 0.5:
            keys.reverse()
        out_ = {k: d[k] for k in keys}
        if rng.random() < 0.5:
            out_ = dict([('zz', extra)] + list(out_.items())) if rng.random() < 0.5 else dict(list(out_.items()) + [('zz', extra)])
            out.count('birth_shared_dictionary')
        return out_
    for _ in range(n):
        npar = rng.choice([1, 2])
        params = ['a', 'b'][:npar]
        kind = rng.choice(['uniform', 'normal', 'lognormal'])
        if kind == 'uniform':
            bnd = {p: rng.choice([(0.0, 4.0), (-2.0, 0.5), (1e3, 1e3 + 1)]) for p in params}
            b = P.UniformBirth(params, messy(bnd, (-7.0, 9.0)))
            for _ in range(3):
                x = {p: rng.choice([bnd[p][0], bnd[p][1], rng.uniform(*bnd[p]), bnd[p][1] + 1.0, bnd[p][0] - 1e-9]) for p in params}
                val = float(b.logpdf(dict(x)))
                out.evaluations += 1
                outside = any(not (bnd[p][0] <= x[p] <= bnd[p][1]) for p in params)
                if outside and val > -numpy.inf:
                    out.violations.append(dict(what='UniformBirth%s reports log-density %r at %s, where it never generates a point' % (bnd, val, x),
                                               replay=dict(family='uniform_birth', bounds=bnd, xi=x)))
                terms.append('CUB %s %s %s %s' % (fl([bnd[p][0] for p in params]), fl([bnd[p][1] for p in params]), fl([x[p] for p in params]), core.cfloat(val)))
                metas.append(dict(family='uniform_birth', bounds=bnd, xi=x, value=val))
        elif kind == 'normal':
            mu = {p: rng.uniform(-2, 2) for p in params}
            sd = {p: rng.choice([0.1, 1.0, 7.0]) for p in params}
            b = P.NormalBirth(params, messy(mu, 11.0), messy(sd, 0.013))
            for _ in range(3):
                x = {p: mu[p] + rng.gauss(0, 2) * sd[p] for p in params}
                val = float(b.logpdf(dict(x)))
                out.evaluations += 1
                terms.append('CNB %s %s %s %s' % (fl([b.mu[p] for p in params]), fl([b.std[p] for p in params]), fl([x[p] for p in params]), core.cfloat(val)))
                metas.append(dict(family='normal_birth', mu=mu, std=sd, xi=x, value=val))
        else:
            mu = {p: rng.choice([0.3, 1.0, 5.0]) for p in params}
            sd = {p: rng.choice([0.2, 0.7, 2.0]) for p in params}
            b = P.LogNormalBirth(params, messy(mu, 11.0), messy(sd, 0.013))
            for _ in range(3):
                x = {p: rng.choice([rng.lognormvariate(0, 1), 0.0, -1.0, 1e-8, 50.0]) for p in params}
                with numpy.errstate(all='ignore'):
                    val = float(b.logpdf(dict(x)))
                out.evaluations += 1
                terms.append('CLNB %s %s %s %s' % (fl([b.mu[p] for p in params]), fl([b.std[p] for p in params]), fl([x[p] for p in params]), core.cfloat(val)))
                metas.append(dict(family='lognormal_birth', mu=mu, std=sd, xi=x, value=val))
        out.count(kind + '_birth')
    return terms, metas


def all_cases(rng, out, scale=1, extreme=False):
    terms, metas = [], []
    for f, a in ((discrete_cases, dict(n=6 * scale, bounded=False, extreme=extreme)), (discrete_cases, dict(n=8 * scale, bounded=True, extreme=extreme)),
                 (bounded_normal_cases, dict(n=6 * scale, extreme=extreme)), (interval_cases, dict(n=6 * scale)), (normal_cases, dict(n=12 * scale)),
                 (angular_cases, dict(n=5 * scale, extreme=extreme)), (eigen_cases, dict(n=5 * scale)),
                 (vmf_cases, dict(n=4 * scale, extreme=extreme)), (birth_cases, dict(n=6 * scale))):
        t, m = f(rng, out, **a)
        terms += t
        metas += m
    return terms, metas
