"""In-memory stand-in for the h5py calls epsie uses (group lookup, membership,
create_dataset with maxshape, resize, slice assignment, scalar read)."""
import numpy


class FakeDataset:
    def __init__(self, shape, maxshape, dtype, chunks=None):
        if isinstance(shape, int):
            shape = (shape,)
        self._arr = numpy.zeros(shape, dtype=dtype)      # h5py fill value: zero bytes
        self.maxshape = maxshape if maxshape is not None else tuple(shape)
        self._resizable = maxshape is not None or bool(chunks)
        self.dtype = self._arr.dtype

    @property
    def shape(self):
        return self._arr.shape

    @property
    def size(self):
        return self._arr.size

    def resize(self, size, axis=None):
        if not self._resizable:
            raise TypeError("Only chunked datasets can be resized")
        if isinstance(size, int):
            size = (size,)
        size = tuple(size)
        for s, m in zip(size, self.maxshape):
            if m is not None and s > m:
                raise ValueError("Unable to set extend dataset (dimension cannot exceed the maximum)")
        new = numpy.zeros(size, dtype=self._arr.dtype)
        n = min(size[0], self._arr.shape[0])
        new[:n] = self._arr[:n]
        self._arr = new

    def __setitem__(self, key, val):
        val = numpy.asarray(val, dtype=self._arr.dtype)
        target = self._arr[key]
        try:
            numpy.broadcast_to(val, target.shape)
        except ValueError:
            raise TypeError("Can't broadcast %s -> %s" % (val.shape, target.shape))
        self._arr[key] = val

    def __getitem__(self, key):
        out = self._arr[key]
        return out.copy() if isinstance(out, numpy.ndarray) else out

    def __len__(self):
        return self._arr.shape[0]


class FakeGroup:
    def __init__(self):
        self._items = {}

    def _split(self, name):
        parts = [p for p in name.split('/') if p]
        return parts

    def __contains__(self, name):
        try:
            self[name]
            return True
        except KeyError:
            return False

    def __getitem__(self, name):
        node = self
        for p in self._split(name):
            if not isinstance(node, FakeGroup) or p not in node._items:
                raise KeyError("Unable to open object (object '%s' doesn't exist)" % name)
            node = node._items[p]
        return node

    def create_group(self, name):
        node = self
        for p in self._split(name):
            if p not in node._items:
                node._items[p] = FakeGroup()
            node = node._items[p]
        return node

    def require_group(self, name):
        return self.create_group(name)

    def create_dataset(self, name, shape=None, dtype=None, data=None, maxshape=None, chunks=None, **kw):
        parts = self._split(name)
        node = self
        for p in parts[:-1]:
            node = node.create_group(p)
        if parts[-1] in node._items:
            raise ValueError("Unable to create dataset (name already exists)")
        if data is not None:
            data = numpy.asarray(data, dtype=dtype)
            shape = data.shape if shape is None else shape
        d = FakeDataset(shape, maxshape, dtype if dtype is not None else data.dtype, chunks)
        if data is not None:
            d[...] = data
        node._items[parts[-1]] = d
        return d

    def keys(self):
        return self._items.keys()


class FakeFile(FakeGroup):
    def close(self):
        pass

    def __enter__(self):
        return self

    def __exit__(self, *a):
        pass
