"""Object graph of a real sampler (shared by C07 and C04): named objects per chain (generator,
annealer, proposal copies), the generators used by every drawing site, and a scan for mutable
objects reachable from two chains."""
import types

import numpy

from . import core

HEADER = ('From Coq Require Import ZArith List.\nFrom Epsie Require Import Base Wiring Exec.ExecWiring.\nImport ListNotations.')

IMMUTABLE = (str, bytes, int, float, bool, complex, type(None), tuple, frozenset, range, numpy.generic, numpy.dtype,
             types.FunctionType, types.BuiltinFunctionType, types.MethodType, type, types.ModuleType)


def levels_of(ch):
    return getattr(ch, 'chains', None) or [ch]


def drawing_objects(prop):
    """every object below a proposal that owns a generator reference"""
    out = [prop]
    for sub in getattr(prop, '_proposals', None) if getattr(prop, 'transdimensional', False) and hasattr(prop, '_proposals') else []:
        out.append(sub)
        bd = getattr(sub, 'birth_distribution', None)
        if bd is not None:
            out.append(bd)
    mp = getattr(prop, '_model_proposal', None)
    if mp is not None:
        out.append(mp)
    return out


def graph(sampler):
    """-> (nchains, nlevels, nprops, objs, sites, keepalive)"""
    objs, sites, keep = [], [], []
    nl = npr = None
    for ch in sampler.chains:
        lv = levels_of(ch)
        nl = len(lv)
        npr = len(lv[0].proposal_dist.proposals)
        row = [ch.bit_generator]
        ann = getattr(ch, 'adaptive_annealer', None)
        if ann is None:
            ann = object()               # no annealer: nothing to share
        row.append(ann)
        sg = []
        for t, c in enumerate(lv):
            sg.append(c.random_generator.bit_generator)              # acceptance draws
            sg.append(c.proposal_dist.bit_generator)
            for q, p in enumerate(c.proposal_dist.proposals):
                row.append(p)
                for o in drawing_objects(p):
                    sg.append(o.bit_generator)                       # jumps, births, in-model jumps, component choice
                    sg.append(o.random_generator.bit_generator)      # ... and the generator object actually drawn from
        if hasattr(ch, 'chains'):
            sg.append(ch.random_generator.bit_generator)             # swap decisions
        objs.append(row)
        sites.append(sg)
        keep.extend(row)
        keep.extend(sg)
    return len(sampler.chains), nl, npr, objs, sites, keep


def reachable_mutables(root, skip_ids):
    """ids of mutable objects reachable from root (through attributes, containers, arrays' bases)"""
    seen = {}
    stack = [root]
    while stack:
        o = stack.pop()
        if id(o) in seen or id(o) in skip_ids or isinstance(o, IMMUTABLE):
            if isinstance(o, (tuple, frozenset)) and id(o) not in seen and id(o) not in skip_ids:
                seen[id(o)] = None
                stack.extend(list(o))
            continue
        seen[id(o)] = o
        if isinstance(o, dict):
            stack.extend(o.values())
            stack.extend(k for k in o.keys() if not isinstance(k, IMMUTABLE))
        elif isinstance(o, (list, set)):
            stack.extend(list(o))
        elif isinstance(o, numpy.ndarray):
            if o.dtype == object:
                stack.extend(list(o.ravel()))
        elif isinstance(o, numpy.random.Generator):
            stack.append(o.bit_generator)
        else:
            d = getattr(o, '__dict__', None)
            if isinstance(d, dict):
                stack.extend(d.values())
            for slot in getattr(type(o), '__slots__', ()) or ():
                try:
                    stack.append(getattr(o, slot))
                except AttributeError:
                    pass
    return {k: v for k, v in seen.items() if v is not None}


def shared_mutables(sampler):
    """mutable objects reachable from two different chains (the user's model and the pool excluded)"""
    # the process-wide numpy RandomState is referenced by scipy's frozen distributions (for rvs(), which epsie never
    # calls); whether it influences anything is settled behaviourally (C04: runs under different global seeds)
    skip = {id(sampler.model), id(getattr(sampler, 'pool', None)), id(sampler), id(numpy.random.mtrand._rand)}
    inner = getattr(sampler.model, 'inner', None)
    if inner is not None:
        skip.add(id(inner))
    per = [reachable_mutables(ch, skip) for ch in sampler.chains]
    shared = []
    for i in range(len(per)):
        for j in range(i + 1, len(per)):
            for k in set(per[i]) & set(per[j]):
                o = per[i][k]
                # zero-size arrays and seed sequences' immutable bookkeeping cannot carry state between chains
                if isinstance(o, numpy.ndarray) and o.size == 0:
                    continue
                shared.append((i, j, type(o).__name__, repr(o)[:60]))
    return shared


def coq_case(sampler):
    n, nl, npr, objs, sites, keep = graph(sampler)
    ids = {}

    def cid(o):
        if id(o) not in ids:
            ids[id(o)] = len(ids)
        return ids[id(o)]
    flat = [cid(o) for row in objs for o in row]
    sg = [[cid(o) for o in row] for row in sites]
    shared = shared_mutables(sampler)
    term = '(%d, %d, %d, %s, %s, %d)' % (n, nl, npr, core.clist([str(x) for x in flat]),
                                         core.clist([core.clist([str(x) for x in r]) for r in sg]), len(shared))
    return term, dict(objs=flat, sites=sg, shared=shared[:5]), keep
