"""Pure, picklable probe models with a call log."""
import math

import numpy


class GaussModel:
    """Independent Gaussian likelihood (per-parameter sigma), flat prior on a box.
    Pure function of its arguments; keeps a call log (arguments, order)."""

    def __init__(self, params, sigma=1.0, lo=-20.0, hi=20.0, blobs=False, mu=0.0, log=True):
        self.params = list(params)
        self.sigma = sigma
        self.mu = mu
        self.lo, self.hi = lo, hi
        self.blobs = blobs
        self.calls = []
        self.log = log

    def evaluate(self, kw):
        xs = [float(kw[p]) for p in self.params]
        inb = all(self.lo <= x <= self.hi for x in xs)
        logp = -len(xs) * math.log(self.hi - self.lo) if inb else -numpy.inf
        logl = -0.5 * sum(((x - self.mu) / self.sigma) ** 2 for x in xs)
        return logl, logp

    def __call__(self, **kw):
        if self.log:
            self.calls.append(dict(kw))
        logl, logp = self.evaluate(kw)
        if self.blobs:
            xs = [float(kw[p]) for p in self.params]
            return logl, logp, {'b0': xs[0] * 2.0, 'b1': float(len(self.calls)) if False else xs[-1] + 1.0}
        return logl, logp


class FlatModel(GaussModel):
    """Flat likelihood on the box."""

    def evaluate(self, kw):
        xs = [float(kw[p]) for p in self.params]
        inb = all(self.lo <= x <= self.hi for x in xs)
        return 0.0, (0.0 if inb else -numpy.inf)
