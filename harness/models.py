"""Pure, picklable probe models with a call log."""
import math

import numpy


class GaussModel:
    """Independent Gaussian likelihood (per-parameter sigma), flat prior on a box.
    Pure function of its arguments; keeps a call log (arguments, order)."""

    def __init__(self, params, sigma=1.0, lo=-20.0, hi=20.0, blobs=False, mu=0.0, log=True):
        self.params = list(params)
        self.sigma = sigma
        self.mu = mu
        self.lo, self.hi = lo, hi
        self.blobs = blobs
        self.calls = []
        self.log = log

    def evaluate(self, kw):
        xs = [float(kw[p]) for p in self.params]
        inb = all(self.lo <= x <= self.hi for x in xs)
        logp = -len(xs) * math.log(self.hi - self.lo) if inb else -numpy.inf
        logl = -0.5 * sum(((x - self.mu) / self.sigma) ** 2 for x in xs)
        return logl, logp

    def __call__(self, **kw):
        if self.log:
            self.calls.append(dict(kw))
        logl, logp = self.evaluate(kw)
        if self.blobs:
            if getattr(self, 'reuse_blob', False):
                # a model may hand out one and the same dictionary every time, refilled: still a pure function of its arguments
                if not hasattr(self, '_blob_obj'):
                    self._blob_obj = {}
                self._blob_obj.update(self.expected_blob(kw))
                return logl, logp, self._blob_obj
            return logl, logp, self.expected_blob(kw)
        return logl, logp

    def expected_blob(self, kw):
        xs = [float(kw[p]) for p in self.params]
        return {'b0': xs[0] * 2.0, 'b1': xs[-1] + 1.0}


class FlatModel(GaussModel):
    """Flat likelihood on the box."""

    def evaluate(self, kw):
        xs = [float(kw[p]) for p in self.params]
        inb = all(self.lo <= x <= self.hi for x in xs)
        return 0.0, (0.0 if inb else -numpy.inf)


class TDModel:
    """Transdimensional probe model: components a1..aN are active (finite) or inactive (NaN),
    k = number of active ones.  Pure function of its arguments."""

    def __init__(self, n=4, sigma=1.0, blobs=False, log=False):
        self.n = n
        self.params = ['a%d' % i for i in range(1, n + 1)] + ['k']
        self.sigma = sigma
        self.blobs = blobs
        self.calls = []
        self.log = log

    def evaluate(self, kw):
        logl, logp = 0.0, 0.0
        nact = 0
        for i in range(1, self.n + 1):
            v = float(kw['a%d' % i])
            if v != v:
                continue
            nact += 1
            if not (0.0 <= v <= 4.0):
                logp = -numpy.inf
            else:
                logp += -math.log(4.0)
            logl += -0.5 * ((v - 0.5 * i) / self.sigma) ** 2
        k = int(kw['k'])
        if k != nact or not (0 <= k <= self.n):
            logp = -numpy.inf
        logl -= 0.3 * nact
        return logl, logp

    def __call__(self, **kw):
        if self.log:
            self.calls.append(dict(kw))
        logl, logp = self.evaluate(kw)
        if self.blobs:
            return logl, logp, self.expected_blob(kw)
        return logl, logp

    def expected_blob(self, kw):
        nact = sum(1 for i in range(1, self.n + 1) if float(kw['a%d' % i]) == float(kw['a%d' % i]))
        return {'b0': float(nact), 'b1': self.evaluate(kw)[0] * 2.0}
