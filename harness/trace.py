"""Harness-side instrumentation of the real epsie classes (no source hooks):
a tracer that records, for every Chain.step / start_position / swap_temperatures
call, what crossed the oracle boundary of the Coq machine (proposal, model
output, the decision returned by _acceptance_ratio, uniforms drawn), and a
generator tap that records or scripts every random draw."""
import math
import struct

import numpy

import epsie
from epsie.chain import Chain, ParallelTemperedChain
from epsie.proposals import JointProposal
from epsie.proposals.base import BaseRandom


class Interner:
    """floats -> small integers (0.0 -> 0, -inf -> -1, NaN -> -2)."""

    def __init__(self):
        self.ids = {}
        self.vals = {}

    def __call__(self, x):
        x = float(x)
        if x != x:
            return -2
        if x == 0.0:
            return 0
        if x == -math.inf:
            return -1
        k = struct.pack('>d', x)
        if k not in self.ids:
            self.ids[k] = len(self.ids) + 1
            self.vals[self.ids[k]] = x
        return self.ids[k]


class GenTap:
    """Replaces BaseRandom.random_generator: every Generator handed out is
    wrapped so that draws are logged (and optionally scripted)."""

    def __init__(self, script=None):
        self.log = []            # (id(bit_generator), method, args, kwargs, result)
        self.script = script     # callable(owner, method, args, kwargs, real_call) -> value or None
        self._orig = None

    def __enter__(self):
        self._orig = BaseRandom.random_generator
        tap = self

        class Wrapped:
            def __init__(self, owner, gen):
                self._owner = owner
                self._gen = gen

            def __getattr__(self, name):
                real = getattr(self._gen, name)
                if not callable(real):
                    return real
                owner = self._owner
                bg = id(self._gen.bit_generator)

                def call(*a, **k):
                    if tap.script is not None:
                        r = tap.script(owner, name, a, k, real)
                    else:
                        r = real(*a, **k)
                    tap.log.append((bg, name, a, k, r, type(owner).__name__))
                    return r
                return call

        def getter(self_):
            return Wrapped(self_, tap._orig.fget(self_))
        BaseRandom.random_generator = property(getter)
        return self

    def __exit__(self, *a):
        BaseRandom.random_generator = self._orig


class Tracer:
    """Records the oracle-boundary events of real chains."""

    def __init__(self):
        self.steps = {}      # id(chain) -> list of step records
        self.starts = {}     # id(chain) -> list of start records
        self.sweeps = {}     # id(ptchain) -> list of sweep records
        self.cur = None
        self._saved = {}

    # -- model wrapper ----------------------------------------------------
    def wrap_model(self, model):
        tracer = self

        class M:
            def __init__(self, inner):
                self.inner = inner

            def __call__(self, **kw):
                r = self.inner(**kw)
                if tracer.cur is not None:
                    # (a copy of what was returned: the model may refill and hand out the same blob dictionary next time)
                    rec = tuple(dict(x) if isinstance(x, dict) else x for x in r) if isinstance(r, tuple) else r
                    tracer.cur['model'].append((tracer.cur['phase'], dict(kw), rec))
                return r
        return M(model)

    def __enter__(self):
        tracer = self
        self._saved = dict(step=Chain.step, ar=Chain._acceptance_ratio, upd=JointProposal.update,
                           sp=Chain.start_position, sw=ParallelTemperedChain.swap_temperatures)
        o_step, o_ar, o_upd, o_sp, o_sw = (self._saved[k] for k in ('step', 'ar', 'upd', 'sp', 'sw'))

        def step(self_):
            rec = dict(model=[], dec=[], phase='main', proposed=None)
            outer = tracer.cur
            tracer.cur = rec
            try:
                return o_step(self_)
            finally:
                try:
                    rec['proposed'] = dict(self_._proposed_position) if self_._proposed_position is not None else None
                except Exception:
                    rec['proposed'] = None
                rec['iteration_after'] = self_._iteration
                tracer.steps.setdefault(id(self_), []).append(rec)
                tracer.cur = outer

        def ar(self_, *a, **k):
            r = o_ar(self_, *a, **k)
            if tracer.cur is not None:
                tracer.cur['dec'].append((tracer.cur['phase'], bool(r[0]), float(r[1])))
            return r

        def upd(self_, chain):
            if tracer.cur is not None:
                tracer.cur['phase'] = 'update'
            return o_upd(self_, chain)

        def sp_set(self_, position):
            rec = dict(model=[], dec=[], phase='start', position=dict(position))
            outer = tracer.cur
            tracer.cur = rec
            try:
                return o_sp.fset(self_, position)
            finally:
                tracer.starts.setdefault(id(self_), []).append(rec)
                tracer.cur = outer

        def sw(self_):
            before = [lvl_state(c) for c in self_.chains]
            r = o_sw(self_)
            after = [lvl_state(c) for c in self_.chains]
            ii = self_.iteration - self_.lastclear - 1
            row = ii // self_.swap_interval
            rec = dict(before=before, after=after, iteration=self_.iteration,
                       swap_index=numpy.array(self_._temperature_swaps.data['swap_index'][row]).copy(),
                       ars=numpy.array(self_._temperature_acceptance.data['acceptance_ratio'][row]).copy().reshape(-1))
            tracer.sweeps.setdefault(id(self_), []).append(rec)
            return r

        Chain.step = step
        Chain._acceptance_ratio = ar
        JointProposal.update = upd
        Chain.start_position = property(o_sp.fget, sp_set)
        ParallelTemperedChain.swap_temperatures = sw
        return self

    def __exit__(self, *a):
        s = self._saved
        Chain.step = s['step']
        Chain._acceptance_ratio = s['ar']
        JointProposal.update = s['upd']
        Chain.start_position = s['sp']
        ParallelTemperedChain.swap_temperatures = s['sw']


def lvl_state(c):
    """(position, stats, blob, active set, last acceptance) of one level, copied."""
    pos = dict(c.current_position)
    pos.pop('_state', None)
    st = dict(c.current_stats)
    bl = c.current_blob
    bl = dict(bl) if bl is not None else None
    act = None
    if getattr(c, 'transdimensional', False):
        act = [bool(x) for x in c._active_props]
    acc = None
    if len(c) > 0:
        a = c._acceptance[len(c) - 1]
        acc = (float(a['acceptance_ratio']), bool(a['accepted']))
    return dict(pos=pos, stats=st, blob=bl, active=act, acc=acc)
