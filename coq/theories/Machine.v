(** Value-abstract state machine of [Chain] / [ParallelTemperedChain] /
    [BaseSampler.run] (epsie/chain/chain.py, ptchain.py, chaindata.py,
    samplers/base.py:222-236).

    Values (positions, log-likelihoods, blobs, acceptance ratios) are elements of
    an abstract type [V]: the machine only ever copies them.  Proposed points,
    model outputs and accept/swap decisions enter as inputs of each step (an
    oracle stream), so the machine is deterministic and every theorem quantifies
    over all streams; the numeric kernels that produce the decisions are modelled
    and tied to the code separately (C01, C03).

    Scratch arrays are modelled with explicit indices, as the code has them:
    a [ChainData] is a list of rows, each either unwritten (NaN fill) or written;
    writes go to index [iteration - lastclear] and auto-extend; views are
    [firstn len].  Two ghost fields, [calls] (model-call log) and [hist] (every
    record ever made), exist only for the theorems. *)
From Coq Require Import ZArith.
From Epsie Require Import Base.

Section Machine.
  Variable V : Type.
  Variable isneginf : V -> bool.      (* recognises logp = -inf *)
  Variable isnan : V -> bool.         (* recognises NaN (inactive transdimensional parameter) *)
  Variable vzero : V.                 (* the float 0. recorded as acceptance ratio of a forced reject *)
  Variable comps : list (list nat).   (* transdimensional: parameter indices of each component; [] otherwise *)

  Definition pos := list V.
  Definition stats := (V * V)%type.                 (* logl, logp *)
  Definition blob := list V.
  Definition accrec := (V * bool)%type.             (* acceptance_ratio, accepted *)
  Definition mout := (V * V * option blob)%type.    (* what the model returns *)

  (** ** ChainData *)
  Definition scratch (T : Type) := list (option T).
  Definition sc_set {T} (l : scratch T) (i : nat) (v : T) : scratch T :=
    if i <? length l then upd l i (Some v)
    else l ++ repeat None (i - length l) ++ [Some v].          (* __setitem__ extends by index+1-len *)
  Definition sc_setlen {T} (l : scratch T) (n : nat) : scratch T :=
    if length l <? n then l ++ repeat None (n - length l) else l.   (* set_len; ValueError swallowed by callers *)
  Definition sc_clear {T} (n : nat) : scratch T := repeat None n.
  Definition sc_row {T} (l : scratch T) (i : nat) : option T :=
    match nth_error l i with Some r => r | None => None end.

  (** ** One chain (one temperature level) *)
  Record hrow := { h_pos : pos; h_stats : stats; h_blob : blob; h_acc : accrec }.
  Definition oblob (o : option blob) : blob := match o with Some b => b | None => [] end.

  Record chain := {
    iter : nat; lastclear : nat; scratchlen : nat;
    cP : scratch pos; cS : scratch stats; cA : scratch accrec; cB : scratch blob;
    hasblobs : bool;
    start : option pos; stats0 : option stats; blob0 : option blob;
    proposed : option pos;
    active : list bool;               (* _active_props (transdimensional) *)
    proposed_active : list bool;      (* '_state' of the proposed position *)
    calls : list (pos * mout);        (* ghost: every model evaluation (argument, result), in order *)
    hist : list hrow                  (* ghost: every record ever made, index = iteration-1 *)
  }.

  Definition new_chain : chain :=
    {| iter := 0; lastclear := 0; scratchlen := 0; cP := []; cS := []; cA := []; cB := [];
       hasblobs := false; start := None; stats0 := None; blob0 := None; proposed := None;
       active := []; proposed_active := []; calls := []; hist := [] |}.

  Definition clen (c : chain) : nat := iter c - lastclear c.      (* BaseChain.__len__ *)

  Definition cur_pos (c : chain) : option pos :=
    if clen c =? 0 then start c else sc_row (cP c) (clen c - 1).
  Definition cur_stats (c : chain) : option stats :=
    if clen c =? 0 then stats0 c else sc_row (cS c) (clen c - 1).
  Definition cur_blob (c : chain) : option blob :=
    if negb (hasblobs c) then None
    else if clen c =? 0 then blob0 c else sc_row (cB c) (clen c - 1).

  (** [_activate_proposals]: a component is active unless all of its parameters are NaN *)
  Definition pattern (p : pos) : list bool :=
    map (fun comp => negb (forallb (fun i => match nth_error p i with Some v => isnan v | None => true end) comp)) comps.

  Inductive err := ENoStart | EOutsidePrior | EBadIndex.
  Inductive result (A : Type) := Good (a : A) | Bad (e : err).
  Arguments Good {A} a. Arguments Bad {A} e.

  (** [start_position] setter: one model evaluation *)
  Definition set_start (c : chain) (p : pos) (o : mout) : result chain :=
    let '(logl, logp, bl) := o in
    if isneginf logp then Bad EOutsidePrior
    else Good {| iter := iter c; lastclear := lastclear c; scratchlen := scratchlen c;
                 cP := cP c; cS := cS c; cA := cA c; cB := cB c;
                 hasblobs := match bl with Some _ => true | None => false end;
                 start := Some p; stats0 := Some (logl, logp); blob0 := bl;
                 proposed := proposed c;
                 active := pattern p; proposed_active := proposed_active c;
                 calls := calls c ++ [(p, o)]; hist := hist c |}.

  (** inputs of one [Chain.step] *)
  Record sin := {
    s_prop : pos;                      (* proposal_dist.jump(current) *)
    s_state : list bool;               (* its '_state' (transdimensional), [] otherwise *)
    s_out : mout;                      (* the model evaluated at the proposal *)
    s_dec : option (bool * V)          (* _acceptance_ratio(...) when it is consulted *)
  }.

  Definition step (c : chain) (i : sin) : result chain :=
    match cur_pos c, cur_stats c with
    | Some cp, Some cs =>
        let cb := cur_blob c in
        let '(logl, logp, bl) := s_out i in
        let '(accept, ar) :=
          if isneginf logp then (false, vzero)                 (* force a reject *)
          else match s_dec i with Some d => d | None => (false, vzero) end in
        let p := if accept then s_prop i else cp in
        let st := if accept then (logl, logp) else cs in
        let b := if accept then oblob bl else oblob cb in
        let k := clen c in
        Good {| iter := S (iter c); lastclear := lastclear c; scratchlen := scratchlen c;
                cP := sc_set (cP c) k p; cS := sc_set (cS c) k st; cA := sc_set (cA c) k (ar, accept);
                cB := if hasblobs c then sc_set (cB c) k b else cB c;
                hasblobs := hasblobs c;
                start := start c; stats0 := stats0 c; blob0 := blob0 c;
                proposed := Some (s_prop i);
                active := if accept then s_state i else active c;
                proposed_active := s_state i;
                calls := calls c ++ [(s_prop i, s_out i)];
                hist := hist c ++ [{| h_pos := p; h_stats := st; h_blob := b; h_acc := (ar, accept) |}] |}
    | _, _ => Bad ENoStart
    end.

  (** [Chain.clear] *)
  Definition clear (c : chain) : chain :=
    if 0 <? iter c then
      {| iter := iter c; lastclear := iter c; scratchlen := scratchlen c;
         cP := sc_clear (scratchlen c); cS := sc_clear (scratchlen c); cA := sc_clear (scratchlen c);
         cB := if hasblobs c then sc_clear (scratchlen c) else cB c;
         hasblobs := hasblobs c;
         start := cur_pos c; stats0 := cur_stats c;
         blob0 := if hasblobs c then cur_blob c else blob0 c;
         proposed := proposed c; active := active c; proposed_active := proposed_active c;
         calls := calls c; hist := hist c |}
    else
      {| iter := iter c; lastclear := iter c; scratchlen := scratchlen c;
         cP := cP c; cS := cS c; cA := cA c; cB := cB c; hasblobs := hasblobs c;
         start := start c; stats0 := stats0 c; blob0 := blob0 c;
         proposed := proposed c; active := active c; proposed_active := proposed_active c;
         calls := calls c; hist := hist c |}.

  (** [scratchlen] setter *)
  Definition set_scratchlen (c : chain) (n : nat) : chain :=
    {| iter := iter c; lastclear := lastclear c; scratchlen := n;
       cP := sc_setlen (cP c) n; cS := sc_setlen (cS c) n; cA := sc_setlen (cA c) n;
       cB := if hasblobs c then sc_setlen (cB c) n else cB c;
       hasblobs := hasblobs c; start := start c; stats0 := stats0 c; blob0 := blob0 c;
       proposed := proposed c; active := active c; proposed_active := proposed_active c;
       calls := calls c; hist := hist c |}.

  (** [Chain.__getitem__] (index taken modulo the length, as Python's [%]) *)
  Definition getitem (c : chain) (i : Z) : result (option pos * option stats * option accrec * option blob) :=
    if clen c =? 0 then Bad EBadIndex                      (* ZeroDivisionError *)
    else let k := Z.to_nat (Z.modulo i (Z.of_nat (clen c))) in
         Good (sc_row (cP c) k, sc_row (cS c) k, sc_row (cA c) k,
               if hasblobs c then sc_row (cB c) k else None).

  (** [Chain.state] / [Chain.set_state] (proposal state is carried separately) *)
  Record cstate := {
    st_iter : nat; st_pos : option pos; st_proposed : option pos; st_stats : option stats;
    st_hasblobs : bool; st_blob : option blob
  }.
  Definition get_state (c : chain) : cstate :=
    {| st_iter := iter c; st_pos := cur_pos c; st_proposed := proposed c; st_stats := cur_stats c;
       st_hasblobs := hasblobs c; st_blob := cur_blob c |}.
  Definition pad_hist (n : nat) (p : option pos) (s : option stats) (b : option blob) : list hrow :=
    match p, s with
    | Some p', Some s' => repeat {| h_pos := p'; h_stats := s'; h_blob := oblob b; h_acc := (vzero, false) |} n
    | _, _ => []
    end.
  Definition set_state (c : chain) (s : cstate) : chain :=
    let c1 := clear c in
    {| iter := st_iter s; lastclear := st_iter s; scratchlen := scratchlen c1;
       cP := cP c1; cS := cS c1; cA := cA c1; cB := cB c1;
       hasblobs := st_hasblobs s;
       start := st_pos s; stats0 := st_stats s; blob0 := st_blob s;
       proposed := st_proposed s;
       active := match st_pos s with Some p => pattern p | None => active c1 end;
       proposed_active := proposed_active c1;
       calls := calls c1;
       hist := pad_hist (st_iter s) (st_pos s) (st_stats s) (st_blob s) |}.

  (** ** Parallel-tempered chain *)
  Record ptchain := {
    levels : list chain;
    si : nat;                          (* swap_interval *)
    tS : scratch (list nat);           (* _temperature_swaps: rows of swap_index *)
    tA : scratch (list V);             (* _temperature_acceptance: rows of acceptance ratios *)
    sweeps : list (nat * list nat * list V)   (* ghost: (iteration, swap_index, ars) of every sweep *)
  }.
  Definition ntemps (p : ptchain) := length (levels p).
  Definition lvl0 (p : ptchain) : chain := hd new_chain (levels p).
  Definition pt_iter (p : ptchain) := iter (lvl0 p).
  Definition pt_len (p : ptchain) := clen (lvl0 p).

  (** the index array built by [swap_temperatures]: pairs (tk-1, tk) for tk = n-1 .. 1 *)
  Fixpoint sweep_idx (tk : nat) (idx : list nat) (ds : list bool) : list nat :=
    match tk, ds with
    | S tj, d :: ds' =>
        if d then sweep_idx tj (upd (upd idx tk (nth tj idx 0)) tj (nth tk idx 0)) ds'
        else sweep_idx tj idx ds'
    | _, _ => idx
    end.

  Definition set_last {T} (l : list T) (v : T) : list T :=
    match l with [] => [] | _ => firstn (length l - 1) l ++ [v] end.
  Definition dummy_row : hrow := {| h_pos := []; h_stats := (vzero, vzero); h_blob := []; h_acc := (vzero, false) |}.
  Definition lastrow (c : chain) : hrow := last (hist c) dummy_row.

  (** write the state of level [src] into the last record of level [c] *)
  Definition put_row (c src : chain) (ii : nat) : chain :=
    match cur_pos src, cur_stats src with
    | Some p, Some s =>
        let b := oblob (cur_blob src) in
        {| iter := iter c; lastclear := lastclear c; scratchlen := scratchlen c;
           cP := sc_set (cP c) ii p; cS := sc_set (cS c) ii s;
           cA := cA c;                                          (* acceptance is not swapped *)
           cB := if hasblobs c then sc_set (cB c) ii b else cB c;
           hasblobs := hasblobs c; start := start c; stats0 := stats0 c; blob0 := blob0 c;
           proposed := proposed c; active := active src; proposed_active := proposed_active c;
           calls := calls c;
           hist := set_last (hist c) {| h_pos := p; h_stats := s; h_blob := b; h_acc := h_acc (lastrow c) |} |}
    | _, _ => c
    end.

  Definition swap_temperatures (p : ptchain) (sw : list (V * bool)) : ptchain :=
    let n := ntemps p in
    let idx := sweep_idx (n - 1) (seq 0 n) (map snd sw) in
    let ars := rev (map fst sw) in                          (* ars[tj] = ar of pair (tj, tj+1) *)
    let ii := pt_iter p - lastclear (lvl0 p) - 1 in
    let old := levels p in
    {| levels := map (fun '(tk, c) => put_row c (nth (nth tk idx 0) old new_chain) ii)
                     (combine (seq 0 n) old);
       si := si p;
       tS := sc_set (tS p) (ii / si p) idx;
       tA := sc_set (tA p) (ii / si p) ars;
       sweeps := sweeps p ++ [(pt_iter p, idx, ars)] |}.

  Fixpoint step_levels (cs : list chain) (ins : list sin) : result (list chain) :=
    match cs, ins with
    | [], _ => Good []
    | c :: cs', i :: ins' =>
        match step c i with
        | Bad e => Bad e
        | Good c' => match step_levels cs' ins' with
                     | Bad e => Bad e
                     | Good r => Good (c' :: r)
                     end
        end
    | _ :: _, [] => Bad ENoStart
    end.

  (** [ParallelTemperedChain.step] *)
  Definition pt_step (p : ptchain) (ins : list sin) (sw : list (V * bool)) : result ptchain :=
    match step_levels (levels p) ins with
    | Bad e => Bad e
    | Good ls =>
        let p1 := {| levels := ls; si := si p; tS := tS p; tA := tA p; sweeps := sweeps p |} in
        if (1 <? ntemps p1) && (pt_iter p1 mod si p =? 0)
        then Good (swap_temperatures p1 sw)
        else Good p1
    end.

  Definition pt_clear (p : ptchain) : ptchain :=
    let tlen := scratchlen (lvl0 p) / si p in
    {| levels := map clear (levels p); si := si p;
       tS := if 1 <? ntemps p then sc_clear tlen else tS p;
       tA := if 1 <? ntemps p then sc_clear tlen else tA p; sweeps := sweeps p |}.

  Definition pt_set_scratchlen (p : ptchain) (n : nat) : ptchain :=
    {| levels := map (fun c => set_scratchlen c n) (levels p); si := si p;
       tS := if 1 <? ntemps p then sc_setlen (tS p) (n / si p) else tS p;
       tA := if 1 <? ntemps p then sc_setlen (tA p) (n / si p) else tA p; sweeps := sweeps p |}.

  (** [BaseSampler.run] grows scratch by the missing amount only *)
  Definition pt_grow (p : ptchain) (n : nat) : ptchain :=
    let sl := scratchlen (lvl0 p) in
    pt_set_scratchlen p (sl + (n + pt_len p - sl)).      (* sl + max(n - (sl - len), 0), over the integers *)

  Fixpoint set_starts (cs : list chain) (ss : list (pos * mout)) : result (list chain) :=
    match cs, ss with
    | [], _ => Good []
    | c :: cs', (p, o) :: ss' =>
        match set_start c p o with
        | Bad e => Bad e
        | Good c' => match set_starts cs' ss' with
                     | Bad e => Bad e
                     | Good r => Good (c' :: r)
                     end
        end
    | _ :: _, [] => Bad ENoStart
    end.

  (** views *)
  Definition temperature_swaps (p : ptchain) : scratch (list nat) := firstn (pt_len p / si p) (tS p).
  Definition temperature_acceptance (p : ptchain) : scratch (list V) := firstn (pt_len p / si p) (tA p).

  (** ** Operations (what a sampler does to one parallel-tempered chain) *)
  Inductive op :=
  | OStart (ss : list (pos * mout))
  | ORun (steps : list (list sin * list (V * bool)))      (* BaseSampler.run(len steps) *)
  | OClear
  | OSetState (ss : list cstate).

  Fixpoint run_steps (p : ptchain) (steps : list (list sin * list (V * bool))) : result ptchain :=
    match steps with
    | [] => Good p
    | (ins, sw) :: t => match pt_step p ins sw with
                        | Bad e => Bad e
                        | Good p' => run_steps p' t
                        end
    end.

  Definition exec (p : ptchain) (o : op) : result ptchain :=
    match o with
    | OStart ss => match set_starts (levels p) ss with
                   | Bad e => Bad e
                   | Good ls => Good {| levels := ls; si := si p; tS := tS p; tA := tA p; sweeps := sweeps p |}
                   end
    | ORun steps => run_steps (pt_grow p (length steps)) steps
    | OClear => Good (pt_clear p)
    | OSetState ss =>
        Good {| levels := map (fun '(c, s) => set_state c s) (combine (levels p) ss);
                si := si p; tS := tS p; tA := tA p; sweeps := sweeps p |}
    end.

  Definition new_pt (n : nat) (swap_interval : nat) : ptchain :=
    {| levels := repeat new_chain n; si := swap_interval; tS := []; tA := []; sweeps := [] |}.
End Machine.

Arguments Good {A} a. Arguments Bad {A} e.

(** [swap_temperatures] with [reset_after_swap]: the levels whose proposals are reset
    ([if self.reset_after_swap and tk != swap_index[tk]: chain.reset_proposals()]) *)
Definition reset_levels (idx : list nat) : list nat :=
  filter (fun tk => negb (Nat.eqb tk (nth tk idx 0))) (seq 0 (length idx)).
