(** Proofs about the MH kernel over the reals: acceptance region, recorded ratio, ratio form,
    detailed balance, stationarity on finite state spaces. *)
From Coq Require Import Reals Lra List.
From Epsie Require Import Num NumR MH.
Import ListNotations.
Local Open Scope R_scope.

Lemma exp_le_1 x : x <= 0 -> exp x <= 1.
Proof. intros [H | ->]; [left; rewrite <- exp_0; now apply exp_increasing|rewrite exp_0; lra]. Qed.
Lemma exp_gt_1 x : 0 < x -> 1 < exp x.
Proof. intros H. rewrite <- exp_0. now apply exp_increasing. Qed.

(** the decision made with a uniform u in [0,1): accept iff u <= min(1, e^logar); the recorded
    ratio is that minimum; so the acceptance probability under a uniform draw is exactly it *)
Theorem accept_region (logar u : R) :
  0 <= u < 1 ->
  exists acc ar used, mh_decide logar u = Decided acc ar used
    /\ ar = Rmin 1 (exp logar) /\ (acc = true <-> u <= Rmin 1 (exp logar))
    /\ (used = false -> logar > 0).
Proof.
  intros [Hu0 Hu1]. unfold mh_decide. cbn [nltb nzero none nexp nisnan nleb NumReal].
  destruct (Rltb 0 logar) eqn:E.
  - apply Rltb_true in E. pose proof (exp_gt_1 logar E).
    exists true, 1, false. repeat split; auto.
    + now rewrite Rmin_left by lra.
    + intros _. rewrite Rmin_left by lra. lra.
  - apply Rltb_false in E. pose proof (exp_le_1 logar E).
    exists (Rleb u (exp logar)), (exp logar), true. repeat split; auto; try discriminate.
    + now rewrite Rmin_right by lra.
    + intros Ha. apply Rleb_true in Ha. now rewrite Rmin_right by lra.
    + intros Ha. apply Rleb_true. now rewrite Rmin_right in Ha by lra.
Qed.

(** measure of the accepted set of uniforms: { u in [0,1) | u <= a } has length a for 0 < a <= 1 *)
Lemma accepted_interval (a u : R) : 0 <= a <= 1 -> (0 <= u < 1 /\ u <= a) <-> (0 <= u <= a /\ u < 1).
Proof. intros; lra. Qed.

(** the reals have no NaN: the step never raises *)
Theorem no_nan_over_R (logar u : R) : mh_decide logar u <> NaNAcceptance.
Proof. unfold mh_decide. cbn. destruct (Rltb 0 logar); discriminate. Qed.

(** ratio form: with log-densities of positive numbers the exponential of logar is the
    Metropolis-Hastings ratio p' L'^beta q(x|x') / (p L^beta q(x'|x)) *)
Theorem ratio_form (p' L' p L beta qrev qfwd : R) :
  0 < p' -> 0 < L' -> 0 < p -> 0 < L -> 0 < qrev -> 0 < qfwd ->
  exp (mh_logar (ln p') (ln L') (ln p) (ln L) beta (Some (ln qrev, ln qfwd)))
  = (p' * Rpower L' beta * qrev) / (p * Rpower L beta * qfwd).
Proof.
  intros. unfold mh_logar. cbn [nadd nsub nmul NumReal]. unfold Rpower.
  replace (ln p' + ln L' * beta - ln p - ln L * beta + (ln qrev - ln qfwd))
    with ((ln p' + beta * ln L' + ln qrev) + - (ln p + beta * ln L + ln qfwd)) by ring.
  rewrite exp_plus, exp_Ropp, !exp_plus, !exp_ln by assumption. reflexivity.
Qed.

Theorem ratio_form_symmetric (p' L' p L beta : R) :
  0 < p' -> 0 < L' -> 0 < p -> 0 < L ->
  exp (mh_logar (ln p') (ln L') (ln p) (ln L) beta None) = (p' * Rpower L' beta) / (p * Rpower L beta).
Proof.
  intros. unfold mh_logar. cbn [nadd nsub nmul NumReal]. unfold Rpower.
  replace (ln p' + ln L' * beta - ln p - ln L * beta) with ((ln p' + beta * ln L') + - (ln p + beta * ln L)) by ring.
  rewrite exp_plus, exp_Ropp, !exp_plus, !exp_ln by assumption. reflexivity.
Qed.

(** the joint Hastings term: constituents over disjoint parameters multiply; a non-jumping
    constituent contributes the factor 1 *)
Lemma fold_add_shift l a : fold_left Rplus l a = a + fold_left Rplus l 0.
Proof. revert a; induction l as [|x l IH]; intros a; cbn; [lra|]. rewrite IH, (IH (0 + x)). lra. Qed.

Theorem joint_logq_product (qs : list (option R)) :
  Forall (fun q => match q with Some v => 0 < v | None => True end) qs ->
  exp (joint_logq (map (option_map ln) qs))
  = fold_right (fun q acc => (match q with Some v => v | None => 1 end) * acc) 1 qs.
Proof.
  unfold joint_logq, nsum. cbn [nadd nzero NumReal].
  induction qs as [|q qs IH]; intros HF; cbn; [apply exp_0|].
  inversion HF as [|? ? Hq HF']; subst.
  rewrite fold_add_shift, exp_plus, IH by assumption.
  destruct q as [v|]; cbn; [rewrite Rplus_0_l, exp_ln by assumption; reflexivity|rewrite Rplus_0_l, exp_0; reflexivity].
Qed.

(** ** detailed balance and stationarity *)
Lemma detailed_balance_core (A B : R) : 0 < A -> 0 < B -> A * Rmin 1 (B / A) = B * Rmin 1 (A / B).
Proof.
  intros HA HB. destruct (Rle_dec A B) as [Hle|Hgt].
  - rewrite (Rmin_left 1 (B / A)), (Rmin_right 1 (A / B)).
    + field. lra.
    + apply (Rmult_le_reg_r B); [lra|]. unfold Rdiv. rewrite Rmult_assoc, Rinv_l; lra.
    + apply (Rmult_le_reg_r A); [lra|]. unfold Rdiv. rewrite Rmult_assoc, Rinv_l; lra.
  - apply Rnot_le_lt in Hgt.
    rewrite (Rmin_right 1 (B / A)), (Rmin_left 1 (A / B)).
    + field. lra.
    + apply (Rmult_le_reg_r B); [lra|]. unfold Rdiv. rewrite Rmult_assoc, Rinv_l; lra.
    + apply (Rmult_le_reg_r A); [lra|]. unfold Rdiv. rewrite Rmult_assoc, Rinv_l; lra.
Qed.

(** finite sums over an enumerated state space *)
Section ListSum.
  Variable X : Type.
  Variable eq_dec : forall x y : X, {x = y} + {x <> y}.
  Fixpoint lsum (l : list X) (g : X -> R) : R := match l with [] => 0 | x :: t => g x + lsum t g end.

  Lemma lsum_ext_in l g h : (forall x, In x l -> g x = h x) -> lsum l g = lsum l h.
  Proof.
    induction l as [|a l IH]; cbn; intros E; [reflexivity|].
    rewrite E by now left. rewrite IH; [reflexivity|]. intros; apply E; now right.
  Qed.
  Lemma lsum_plus l g h : lsum l (fun x => g x + h x) = lsum l g + lsum l h.
  Proof. induction l as [|a l IH]; cbn; [lra|]. rewrite IH. lra. Qed.
  Lemma lsum_scal l c g : lsum l (fun x => c * g x) = c * lsum l g.
  Proof. induction l as [|a l IH]; cbn; [lra|]. rewrite IH. lra. Qed.
  Lemma lsum_zero l g : (forall x, In x l -> g x = 0) -> lsum l g = 0.
  Proof. induction l as [|a l IH]; cbn; intros E; [reflexivity|]. rewrite E by now left. rewrite IH; [lra|]. intros; apply E; now right. Qed.

  Lemma lsum_indicator_l l (x : X) c : NoDup l -> In x l -> lsum l (fun y => if eq_dec x y then c else 0) = c.
  Proof.
    induction 1 as [|a l Hna Hnd IH]; cbn; [tauto|]. intros [->|Hin].
    - destruct (eq_dec x x); [|congruence].
      rewrite lsum_zero; [lra|]. intros y Hy. destruct (eq_dec x y); [subst; contradiction|reflexivity].
    - destruct (eq_dec x a); [subst; contradiction|]. rewrite IH by assumption. lra.
  Qed.

  Lemma lsum_indicator_r l (y : X) (g : X -> R) : NoDup l -> In y l -> lsum l (fun x => if eq_dec x y then g x else 0) = g y.
  Proof.
    induction 1 as [|a l Hna Hnd IH]; cbn; [tauto|]. intros [->|Hin].
    - destruct (eq_dec y y); [|congruence].
      rewrite lsum_zero; [lra|]. intros x Hx. destruct (eq_dec x y); [subst; contradiction|reflexivity].
    - destruct (eq_dec a y); [subst; contradiction|]. rewrite IH by assumption. lra.
  Qed.

  Lemma lsum_swap l1 l2 (g : X -> X -> R) : lsum l1 (fun x => lsum l2 (fun y => g x y)) = lsum l2 (fun y => lsum l1 (fun x => g x y)).
  Proof.
    induction l1 as [|a l1 IH]; cbn.
    - symmetry. apply lsum_zero. reflexivity.
    - rewrite IH, <- lsum_plus. reflexivity.
  Qed.
End ListSum.

Section Finite.
  Variable X : Type.
  Variable eq_dec : forall x y : X, {x = y} + {x <> y}.
  Variable xs : list X.                       (* the finite state space, enumerated *)
  Hypothesis xs_nodup : NoDup xs.
  Variable f : X -> R.                        (* unnormalised target p * L^beta *)
  Variable q : X -> X -> R.                   (* law of the proposals: q x y = probability of proposing y from x *)
  Hypothesis f_pos : forall x, In x xs -> 0 < f x.
  Hypothesis q_nonneg : forall x y, 0 <= q x y.
  Hypothesis q_support : forall x y, q x y = 0 -> q y x = 0.

  Definition sum (g : X -> R) : R := lsum X xs g.

  (** acceptance probability of the step, as [accept_region] gives it *)
  Definition acc (x y : X) : R := Rmin 1 ((f y * q y x) / (f x * q x y)).

  (** the transition kernel of one MH step: propose, accept; the rejected mass stays *)
  Definition K (x y : X) : R :=
    q x y * acc x y + (if eq_dec x y then 1 - sum (fun z => q x z * acc x z) else 0).

  Lemma K_rows x : In x xs -> sum (K x) = 1.
  Proof.
    intros Hx. unfold K, sum. rewrite lsum_plus, lsum_indicator_l by assumption. lra.
  Qed.

  (** detailed balance of the proposal-accept part *)
  Lemma db_offdiag x y : In x xs -> In y xs -> f x * (q x y * acc x y) = f y * (q y x * acc y x).
  Proof.
    intros Hx Hy. unfold acc.
    destruct (Req_dec (q x y) 0) as [E|E].
    - rewrite E, (q_support _ _ E). lra.
    - assert (E' : q y x <> 0) by (intros E'; apply E; now apply q_support).
      pose proof (q_nonneg x y). pose proof (q_nonneg y x). pose proof (f_pos x Hx). pose proof (f_pos y Hy).
      assert (HA : 0 < f x * q x y) by (apply Rmult_lt_0_compat; lra).
      assert (HB : 0 < f y * q y x) by (apply Rmult_lt_0_compat; lra).
      pose proof (detailed_balance_core _ _ HA HB). lra.
  Qed.

  Lemma K_db x y : In x xs -> In y xs -> f x * K x y = f y * K y x.
  Proof.
    intros Hx Hy. destruct (eq_dec x y) as [->|Hne]; [reflexivity|]. unfold K.
    destruct (eq_dec x y) as [|_]; [congruence|].
    destruct (eq_dec y x); [congruence|]. rewrite !Rplus_0_r. now apply db_offdiag.
  Qed.

  (** p * L^beta is stationary for the step's kernel, exactly, on every finite state space *)
  Theorem stationary y : In y xs -> sum (fun x => f x * K x y) = f y.
  Proof.
    intros Hy. unfold sum. rewrite (lsum_ext_in X xs _ (fun x => f y * K y x)) by (intros; now apply K_db).
    rewrite lsum_scal. fold (sum (K y)). rewrite K_rows by assumption. lra.
  Qed.
End Finite.
