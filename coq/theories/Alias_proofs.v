(** Proofs about the aliasing model: with copying [state]/[set_state]/reset, a handed-out state
    and the stored initial values are never written again, samplers do not influence each
    other, and a reset always restores the constructed values; without copying each of these
    fails for in-place updates (witnesses), while rebinding-only families are safe. *)
From Coq Require Import ZArith List Bool Lia.
From Epsie Require Import Base Alias.
Import ListNotations.

(** ** heap lemmas *)
Lemma htag_hwrite h l a l' : htag (hwrite h l a) l' = htag h l'.
Proof.
  unfold hwrite, htag. destruct (nth_error h l) as [[o x]|] eqn:E; [|reflexivity].
  destruct (Nat.eq_dec l l') as [<-|Hne].
  - rewrite E. cbn. assert (l < length h) by (apply nth_error_Some; congruence).
    rewrite (nth_error_nth' (upd h l (o, a)) (o, a)) by (rewrite upd_length; lia).
    now rewrite nth_upd_eq.
  - destruct (nth_error h l') as [y|] eqn:E'.
    + assert (l' < length h) by (apply nth_error_Some; congruence).
      rewrite (nth_error_nth' (upd h l (o, a)) y) by (rewrite upd_length; lia).
      rewrite nth_upd_neq by exact Hne. now rewrite (nth_error_nth _ _ _ E').
    + apply nth_error_None in E'. assert (nth_error (upd h l (o, a)) l' = None) as ->; [|reflexivity].
      apply nth_error_None. now rewrite upd_length.
Qed.

Lemma hread_hwrite_neq h l a l' : l <> l' -> hread (hwrite h l a) l' = hread h l'.
Proof.
  intros Hne. unfold hwrite, hread. destruct (nth_error h l) as [[o x]|]; [|reflexivity].
  now rewrite nth_upd_neq.
Qed.

Lemma hread_hwrite_eq h l a : l < length h -> hread (hwrite h l a) l = a.
Proof.
  intros Hl. unfold hwrite, hread. destruct (nth_error h l) as [[o x]|] eqn:E.
  - now rewrite nth_upd_eq.
  - apply nth_error_None in E. lia.
Qed.

Lemma hwrite_length h l a : length (hwrite h l a) = length h.
Proof. unfold hwrite. destruct (nth_error h l) as [[o x]|]; [apply upd_length|reflexivity]. Qed.

Lemma htag_lt h l o : htag h l = Some o -> l < length h.
Proof. unfold htag. intros H. apply nth_error_Some. destruct (nth_error h l); [congruence|discriminate]. Qed.

Lemma htag_app_old h x l : l < length h -> htag (h ++ x) l = htag h l.
Proof. intros H. unfold htag. now rewrite nth_error_app1. Qed.
Lemma hread_app_old h x l : l < length h -> hread (h ++ x) l = hread h l.
Proof. intros H. unfold hread. now rewrite app_nth1. Qed.
Lemma htag_app_new h o a : htag (h ++ [(o, a)]) (length h) = Some o.
Proof. unfold htag. rewrite nth_error_app2, Nat.sub_diag by lia. reflexivity. Qed.
Lemma hread_app_new h o a : hread (h ++ [(o, a)]) (length h) = a.
Proof. unfold hread. rewrite app_nth2, Nat.sub_diag by lia. reflexivity. Qed.

(** what [copy_all] does *)
Lemma copy_all_spec o ls : forall h h' ls',
  copy_all h o ls = (h', ls') ->
  length h <= length h'
  /\ (forall l, l < length h -> htag h' l = htag h l /\ hread h' l = hread h l)
  /\ (forall l, In l ls' -> htag h' l = Some o /\ length h <= l)
  /\ (Forall (fun l => l < length h) ls -> map (hread h') ls' = map (hread h) ls)
  /\ length ls' = length ls.
Proof.
  induction ls as [|l t IH]; intros h h' ls' E; cbn in E.
  - injection E as <- <-. split; [lia|]. split; [auto|]. split; [intros l []|]. split; auto.
  - destruct (copy_all (h ++ [(o, hread h l)]) o t) as [h2 t'] eqn:E2. injection E as <- <-.
    destruct (IH _ _ _ E2) as (A & B & C & D & F). rewrite app_length in A. cbn in A.
    split; [lia|]. split; [|split; [|split]].
    + intros l0 Hl0. destruct (B l0) as [B1 B2]; [rewrite app_length; cbn; lia|].
      rewrite B1, B2, htag_app_old, hread_app_old by lia. auto.
    + intros l0 [<-|Hin].
      * destruct (B (length h)) as [B1 _]; [rewrite app_length; cbn; lia|]. rewrite B1, htag_app_new. auto.
      * destruct (C l0 Hin) as [C1 C2]. rewrite app_length in C2. cbn in C2. split; [exact C1|lia].
    + intros HF. inversion HF as [|? ? Hl HF']; subst. cbn [map]. f_equal.
      * destruct (B (length h)) as [_ B2]; [rewrite app_length; cbn; lia|]. now rewrite B2, hread_app_new.
      * rewrite D.
        -- apply map_ext_in. intros x Hx. rewrite Forall_forall in HF'. apply hread_app_old, HF', Hx.
        -- eapply Forall_impl; [|exact HF']. intros x Hx. cbn beta in Hx. rewrite app_length. cbn. lia.
    + cbn. now rewrite F.
Qed.

(** ** the ownership invariant *)
Record Tagged (w : world) : Prop := {
  T_regs : forall s l, s < length (regs w) -> In l (nth s (regs w) []) -> htag (hp w) l = Some (OSampler s);
  T_states : forall k l, k < length (states w) -> In l (nth k (states w) []) -> htag (hp w) l = Some (OState k);
  T_inits : forall s l, s < length (inits w) -> In l (nth s (inits w) []) -> htag (hp w) l = Some (OInitial s)
}.

Definition target (o : op) : nat :=
  match o with InPlace s _ _ | Rebind s _ _ | GetState s | SetState s _ | Reset s => s end.

Lemma nth_upd_list {A} (l : list (list A)) s s' v : s < length l ->
  nth s' (upd l s v) [] = if Nat.eqb s s' then v else nth s' l [].
Proof.
  intros Hs. destruct (Nat.eqb_spec s s') as [<-|Hne]; [now apply nth_upd_eq|now apply nth_upd_neq].
Qed.

Lemma In_upd {A} (l : list A) f v x : In x (upd l f v) -> x = v \/ In x l.
Proof.
  revert f; induction l as [|a t IH]; intros [|f] H; cbn in *; auto.
  - destruct H as [<-|H]; auto.
  - destruct H as [<-|H]; auto. destruct (IH f H); auto.
Qed.

(** every operation of the copying semantics keeps the invariant, keeps every existing state
    object and every stored initial value unchanged, and touches only its own sampler *)
Theorem exec_copying (w : world) (o : op) :
  Tagged w ->
  Tagged (exec true true w o)
  /\ (forall k, k < length (states w) -> state_contents (exec true true w o) k = state_contents w k)
  /\ (forall s, s < length (inits w) -> init_contents (exec true true w o) s = init_contents w s)
  /\ (forall s, s <> target o -> s < length (regs w) -> sampler_contents (exec true true w o) s = sampler_contents w s)
  /\ length (regs (exec true true w o)) = length (regs w) /\ inits (exec true true w o) = inits w
  /\ length (states w) <= length (states (exec true true w o)).
Proof.
  intros HT. destruct o as [s f a|s f a|s|s k|s]; cbn [exec target].
  - (* in place *)
    destruct ((s <? length (regs w)) && (f <? length (nth s (regs w) []))) eqn:E; [|repeat split; auto; apply HT].
    apply andb_prop in E as [E1 E2]. apply Nat.ltb_lt in E1, E2.
    set (l := nth f (nth s (regs w) []) 0).
    assert (Hl : htag (hp w) l = Some (OSampler s)) by (apply (T_regs w HT); [exact E1|apply nth_In; exact E2]).
    assert (Hother : forall l' o', htag (hp w) l' = Some o' -> o' <> OSampler s -> hread (hwrite (hp w) l a) l' = hread (hp w) l').
    { intros l' o' Ht Hne. apply hread_hwrite_neq. intros ->. congruence. }
    repeat split; cbn; auto.
    + intros s0 l0 H1 H2. rewrite htag_hwrite. now apply HT.
    + intros k l0 H1 H2. rewrite htag_hwrite. now apply HT.
    + intros s0 l0 H1 H2. rewrite htag_hwrite. now apply HT.
    + intros k Hk. unfold state_contents; cbn. apply map_ext_in. intros l0 Hin.
      apply (Hother l0 (OState k)); [now apply HT|discriminate].
    + intros s0 Hs0. unfold init_contents; cbn. apply map_ext_in. intros l0 Hin.
      apply (Hother l0 (OInitial s0)); [now apply HT|discriminate].
    + intros s0 Hne Hs0. unfold sampler_contents; cbn. apply map_ext_in. intros l0 Hin.
      apply (Hother l0 (OSampler s0)); [now apply HT|congruence].
  - (* rebind *)
    destruct ((s <? length (regs w)) && (f <? length (nth s (regs w) []))) eqn:E; [|repeat split; auto; apply HT].
    apply andb_prop in E as [E1 E2]. apply Nat.ltb_lt in E1, E2. cbn.
    assert (Hold : forall l o', htag (hp w) l = Some o' ->
               htag (hp w ++ [(OSampler s, a)]) l = Some o' /\ hread (hp w ++ [(OSampler s, a)]) l = hread (hp w) l).
    { intros l o' Ht. pose proof (htag_lt _ _ _ Ht). rewrite htag_app_old, hread_app_old by lia. auto. }
    repeat split; cbn; unfold set_regs; auto.
    + intros s0 l0 H1 H2. rewrite upd_length in H1. rewrite nth_upd_list in H2 by exact E1.
      destruct (Nat.eqb_spec s s0) as [<-|Hne].
      * apply In_upd in H2 as [->|H2]; [apply htag_app_new|]. eapply Hold. now apply HT.
      * eapply Hold. now apply HT.
    + intros k l0 H1 H2. eapply Hold. now apply HT.
    + intros s0 l0 H1 H2. eapply Hold. now apply HT.
    + intros k Hk. unfold state_contents; cbn. apply map_ext_in. intros l0 Hin. eapply Hold. now apply (T_states w HT k).
    + intros s0 Hs0. unfold init_contents; cbn. apply map_ext_in. intros l0 Hin. eapply Hold. now apply (T_inits w HT s0).
    + intros s0 Hne Hs0. unfold sampler_contents; cbn. rewrite nth_upd_list by exact E1.
      destruct (Nat.eqb_spec s s0); [congruence|]. apply map_ext_in. intros l0 Hin. eapply Hold. now apply (T_regs w HT s0).
    + now rewrite upd_length.
  - (* get state *)
    destruct (s <? length (regs w)) eqn:E; [|repeat split; auto; apply HT]. apply Nat.ltb_lt in E.
    destruct (copy_all (hp w) (OState (length (states w))) (nth s (regs w) [])) as [h ls] eqn:Ec.
    destruct (copy_all_spec _ _ _ _ _ Ec) as (A & B & C & D & F). cbn.
    assert (Hold : forall l o', htag (hp w) l = Some o' -> htag h l = Some o' /\ hread h l = hread (hp w) l).
    { intros l o' Ht. destruct (B l (htag_lt _ _ _ Ht)) as [B1 B2]. rewrite B1, B2. auto. }
    repeat split; cbn; auto.
    + intros s0 l0 H1 H2. eapply Hold. now apply HT.
    + intros k l0 H1 H2. rewrite app_length in H1. cbn in H1.
      destruct (Nat.eq_dec k (length (states w))) as [->|Hne].
      * rewrite app_nth2, Nat.sub_diag in H2 by lia. cbn in H2. now apply C.
      * rewrite app_nth1 in H2 by lia. eapply Hold. apply HT; [lia|exact H2].
    + intros s0 l0 H1 H2. eapply Hold. now apply HT.
    + intros k Hk. unfold state_contents; cbn. rewrite app_nth1 by exact Hk.
      apply map_ext_in. intros l0 Hin. eapply Hold. now apply (T_states w HT k).
    + intros s0 Hs0. unfold init_contents; cbn. apply map_ext_in. intros l0 Hin. eapply Hold. now apply (T_inits w HT s0).
    + intros s0 Hne Hs0. unfold sampler_contents; cbn. apply map_ext_in. intros l0 Hin. eapply Hold. now apply (T_regs w HT s0).
    + rewrite app_length. lia.
  - (* set state *)
    destruct ((s <? length (regs w)) && (k <? length (states w))) eqn:E; [|repeat split; auto; apply HT].
    apply andb_prop in E as [E1 E2]. apply Nat.ltb_lt in E1, E2.
    destruct (copy_all (hp w) (OSampler s) (nth k (states w) [])) as [h ls] eqn:Ec.
    destruct (copy_all_spec _ _ _ _ _ Ec) as (A & B & C & D & F). cbn.
    assert (Hold : forall l o', htag (hp w) l = Some o' -> htag h l = Some o' /\ hread h l = hread (hp w) l).
    { intros l o' Ht. destruct (B l (htag_lt _ _ _ Ht)) as [B1 B2]. rewrite B1, B2. auto. }
    repeat split; cbn; unfold set_regs; auto.
    + intros s0 l0 H1 H2. rewrite upd_length in H1. rewrite nth_upd_list in H2 by exact E1.
      destruct (Nat.eqb_spec s s0) as [<-|Hne]; [now apply C|]. eapply Hold. now apply HT.
    + intros k0 l0 H1 H2. eapply Hold. now apply HT.
    + intros s0 l0 H1 H2. eapply Hold. now apply HT.
    + intros k0 Hk. unfold state_contents; cbn. apply map_ext_in. intros l0 Hin. eapply Hold. now apply (T_states w HT k0).
    + intros s0 Hs0. unfold init_contents; cbn. apply map_ext_in. intros l0 Hin. eapply Hold. now apply (T_inits w HT s0).
    + intros s0 Hne Hs0. unfold sampler_contents; cbn. rewrite nth_upd_list by exact E1.
      destruct (Nat.eqb_spec s s0); [congruence|]. apply map_ext_in. intros l0 Hin. eapply Hold. now apply (T_regs w HT s0).
    + now rewrite upd_length.
  - (* reset *)
    destruct (s <? length (regs w)) eqn:E; [|repeat split; auto; apply HT]. apply Nat.ltb_lt in E.
    destruct (copy_all (hp w) (OSampler s) (nth s (inits w) [])) as [h ls] eqn:Ec.
    destruct (copy_all_spec _ _ _ _ _ Ec) as (A & B & C & D & F). cbn.
    assert (Hold : forall l o', htag (hp w) l = Some o' -> htag h l = Some o' /\ hread h l = hread (hp w) l).
    { intros l o' Ht. destruct (B l (htag_lt _ _ _ Ht)) as [B1 B2]. rewrite B1, B2. auto. }
    repeat split; cbn; unfold set_regs; auto.
    + intros s0 l0 H1 H2. rewrite upd_length in H1. rewrite nth_upd_list in H2 by exact E.
      destruct (Nat.eqb_spec s s0) as [<-|Hne]; [now apply C|]. eapply Hold. now apply HT.
    + intros k0 l0 H1 H2. eapply Hold. now apply HT.
    + intros s0 l0 H1 H2. eapply Hold. now apply HT.
    + intros k0 Hk. unfold state_contents; cbn. apply map_ext_in. intros l0 Hin. eapply Hold. now apply (T_states w HT k0).
    + intros s0 Hs0. unfold init_contents; cbn. apply map_ext_in. intros l0 Hin. eapply Hold. now apply (T_inits w HT s0).
    + intros s0 Hne Hs0. unfold sampler_contents; cbn. rewrite nth_upd_list by exact E.
      destruct (Nat.eqb_spec s s0); [congruence|]. apply map_ext_in. intros l0 Hin. eapply Hold. now apply (T_regs w HT s0).
    + now rewrite upd_length.
Qed.

(** ** consequences for whole histories *)
Theorem snapshot_frozen (ops : list op) : forall w k,
  Tagged w -> k < length (states w) ->
  state_contents (execs true true w ops) k = state_contents w k /\ Tagged (execs true true w ops).
Proof.
  unfold execs. induction ops as [|o t IH]; intros w k HT Hk; cbn [fold_left]; [auto|].
  destruct (exec_copying w o HT) as (HT' & Hs & _ & _ & _ & _ & Hlen).
  destruct (IH (exec true true w o) k HT') as [A B]; [lia|]. rewrite A, Hs by exact Hk. auto.
Qed.

Theorem initial_values_frozen (ops : list op) : forall w s,
  Tagged w -> s < length (inits w) ->
  init_contents (execs true true w ops) s = init_contents w s /\ inits (execs true true w ops) = inits w.
Proof.
  unfold execs. induction ops as [|o t IH]; intros w s HT Hs; cbn [fold_left]; [auto|].
  destruct (exec_copying w o HT) as (HT' & _ & Hi & _ & _ & Ei & _).
  destruct (IH (exec true true w o) s HT') as [A B]; [rewrite Ei; exact Hs|]. rewrite A, B, Hi, Ei by exact Hs. auto.
Qed.

(** no coupling: operations on other samplers (running them, reading or loading states into them,
    resetting them) never change what sampler [s] holds *)
Theorem no_coupling (ops : list op) : forall w s,
  Tagged w -> s < length (regs w) -> Forall (fun o => target o <> s) ops ->
  sampler_contents (execs true true w ops) s = sampler_contents w s.
Proof.
  unfold execs. induction ops as [|o t IH]; intros w s HT Hs HF; cbn [fold_left]; [reflexivity|]. inversion HF; subst.
  destruct (exec_copying w o HT) as (HT' & _ & _ & Hc & El & _ & _).
  rewrite IH; [apply Hc; auto|exact HT'|now rewrite El|assumption].
Qed.

(** loading a state gives the sampler exactly the state's contents; resetting gives it exactly the
    stored initial values — each time, whatever happened in between *)
Theorem set_state_contents w s k :
  Tagged w -> s < length (regs w) -> k < length (states w) ->
  sampler_contents (exec true true w (SetState s k)) s = state_contents w k.
Proof.
  intros HT Hs Hk. unfold exec.
  rewrite (proj2 (Nat.ltb_lt _ _) Hs), (proj2 (Nat.ltb_lt _ _) Hk). cbn [andb].
  destruct (copy_all (hp w) (OSampler s) (nth k (states w) [])) as [h ls] eqn:Ec.
  destruct (copy_all_spec _ _ _ _ _ Ec) as (_ & _ & _ & D & _).
  unfold sampler_contents, state_contents, set_regs. cbn [hp regs]. rewrite nth_upd_eq by exact Hs. apply D.
  apply Forall_forall. intros l Hl. eapply htag_lt. now apply (T_states w HT k).
Qed.

Theorem reset_restores w s :
  Tagged w -> s < length (regs w) -> s < length (inits w) ->
  sampler_contents (exec true true w (Reset s)) s = init_contents w s.
Proof.
  intros HT Hs Hi. unfold exec. rewrite (proj2 (Nat.ltb_lt _ _) Hs).
  destruct (copy_all (hp w) (OSampler s) (nth s (inits w) [])) as [h ls] eqn:Ec.
  destruct (copy_all_spec _ _ _ _ _ Ec) as (_ & _ & _ & D & _).
  unfold sampler_contents, init_contents, set_regs. cbn [hp regs]. rewrite nth_upd_eq by exact Hs. apply D.
  apply Forall_forall. intros l Hl. eapply htag_lt. now apply (T_inits w HT s).
Qed.

(** every reset, after any history, restores the values the sampler was constructed with *)
Theorem reset_restores_always (ops : list op) w s :
  Tagged w -> s < length (regs w) -> s < length (inits w) ->
  sampler_contents (exec true true (execs true true w ops) (Reset s)) s = init_contents w s.
Proof.
  intros HT Hs Hi.
  destruct (initial_values_frozen ops w s HT Hi) as [A B].
  assert (HT' : Tagged (execs true true w ops)).
  { clear - HT. unfold execs. revert w HT. induction ops as [|o t IH]; intros w HT; cbn [fold_left]; [exact HT|]. apply IH. now apply exec_copying. }
  assert (Hl : length (regs (execs true true w ops)) = length (regs w)).
  { clear - HT. unfold execs. revert w HT. induction ops as [|o t IH]; intros w HT; cbn [fold_left]; [reflexivity|].
    destruct (exec_copying w o HT) as (HT' & _ & _ & _ & El & _). rewrite IH by exact HT'. exact El. }
  rewrite reset_restores; [exact A|exact HT'|now rewrite Hl|now rewrite B].
Qed.

(** ** a decidable check of the invariant (for concrete worlds) *)
Definition owner_eqb (a b : owner) : bool :=
  match a, b with
  | OSampler x, OSampler y | OState x, OState y | OInitial x, OInitial y => Nat.eqb x y
  | _, _ => false
  end.
Lemma owner_eqb_eq a b : owner_eqb a b = true -> a = b.
Proof. destruct a, b; cbn; try discriminate; intros H; apply Nat.eqb_eq in H; now subst. Qed.

Definition tag_is (h : heap) (o : owner) (l : loc) : bool :=
  match htag h l with Some o' => owner_eqb o' o | None => false end.
Fixpoint all_tagged (h : heap) (mk : nat -> owner) (i : nat) (ll : list (list loc)) : bool :=
  match ll with
  | [] => true
  | ls :: t => forallb (tag_is h (mk i)) ls && all_tagged h mk (S i) t
  end.
Definition taggedb (w : world) : bool :=
  all_tagged (hp w) OSampler 0 (regs w) && all_tagged (hp w) OState 0 (states w) && all_tagged (hp w) OInitial 0 (inits w).

Lemma all_tagged_sound h mk ll : forall i, all_tagged h mk i ll = true ->
  forall s l, s < length ll -> In l (nth s ll []) -> htag h l = Some (mk (i + s)).
Proof.
  induction ll as [|ls t IH]; intros i H s l Hs Hin; cbn in *; [lia|].
  apply andb_prop in H as [H1 H2]. destruct s.
  - rewrite Nat.add_0_r. rewrite forallb_forall in H1. specialize (H1 l Hin). unfold tag_is in H1.
    destruct (htag h l) as [o'|]; [|discriminate]. now rewrite (owner_eqb_eq _ _ H1).
  - replace (i + S s) with (S i + s) by lia. apply (IH (S i) H2); [lia|exact Hin].
Qed.

Theorem taggedb_sound w : taggedb w = true -> Tagged w.
Proof.
  unfold taggedb. intros H. apply andb_prop in H as [H12 H3]. apply andb_prop in H12 as [H1 H2].
  constructor; intros; [apply (all_tagged_sound _ OSampler _ 0 H1)|apply (all_tagged_sound _ OState _ 0 H2)
                        |apply (all_tagged_sound _ OInitial _ 0 H3)]; auto.
Qed.

(** ** the unrepaired code: witnesses (closed by computation) *)
Definition w0 : world := construct [[[1%Z; 2%Z]]; [[7%Z]]].      (* two samplers, one adapted array each *)

(** a state read from sampler 0 and then an in-place update of sampler 0 (Sivia-Skilling [_std *= a],
    Andrieu-Thoms [_mean += ...]): the snapshot changes under the reader's hands *)
Theorem snapshot_not_frozen_without_copy :
  let w1 := exec false true w0 (GetState 0) in
  state_contents (exec false true w1 (InPlace 0 0 [5%Z; 5%Z])) 0 <> state_contents w1 0.
Proof. vm_compute. discriminate. Qed.

(** one state object loaded into two samplers couples them: running the first changes the second *)
Theorem coupling_without_copy :
  let w1 := execs false true w0 [GetState 0; SetState 0 0; SetState 1 0] in
  sampler_contents (exec false true w1 (InPlace 0 0 [9%Z; 9%Z])) 1 <> sampler_contents w1 1.
Proof. vm_compute. discriminate. Qed.

(** reset that installs the stored arrays themselves: after an in-place update the second reset
    "restores" the adapted values *)
Theorem second_reset_wrong_without_copy :
  let w1 := execs true false w0 [Reset 0; InPlace 0 0 [4%Z; 4%Z]; Reset 0] in
  sampler_contents w1 0 <> init_contents w0 0.
Proof. vm_compute. discriminate. Qed.

(** ... while families that only rebind (Veitch [_std = newsigmas], eigenvector) were safe even then:
    without in-place writes no existing cell is ever written *)
Definition no_inplace (o : op) : Prop := match o with InPlace _ _ _ => False | _ => True end.

Lemma copy_all_old o ls : forall h h' ls', copy_all h o ls = (h', ls') -> forall l, l < length h -> hread h' l = hread h l.
Proof. intros h h' ls' E l Hl. now destruct (copy_all_spec _ _ _ _ _ E) as (_ & B & _); destruct (B l Hl). Qed.

Theorem rebind_only_frozen cp rc (w : world) (o : op) l :
  no_inplace o -> l < length (hp w) -> hread (hp (exec cp rc w o)) l = hread (hp w) l.
Proof.
  intros Hn Hl. destruct o as [s f a|s f a|s|s k|s]; unfold exec; cbn [no_inplace] in Hn; try contradiction.
  - destruct ((s <? length (regs w)) && (f <? length (nth s (regs w) []))); [|reflexivity].
    unfold halloc. cbn [hp]. now apply hread_app_old.
  - destruct (s <? length (regs w)); [|reflexivity]. destruct cp; [|reflexivity].
    destruct (copy_all _ _ _) as [h ls] eqn:E. cbn [hp]. eapply copy_all_old; eauto.
  - destruct ((s <? length (regs w)) && (k <? length (states w))); [|reflexivity]. destruct cp; [|reflexivity].
    destruct (copy_all _ _ _) as [h ls] eqn:E. cbn [hp]. eapply copy_all_old; eauto.
  - destruct (s <? length (regs w)); [|reflexivity]. destruct rc; [|reflexivity].
    destruct (copy_all _ _ _) as [h ls] eqn:E. cbn [hp]. eapply copy_all_old; eauto.
Qed.

(** non-vacuity: the constructed two-sampler world satisfies the invariant *)
Example w0_tagged : Tagged w0.
Proof. apply taggedb_sound. vm_compute. reflexivity. Qed.
