(** Proofs about the jump-interval clock: the schedule, copy/no-contribution/no-adaptation
    on the other iterations, independence of the constituents, clock after any history. *)
From Coq Require Import ZArith Bool Lia.
From Epsie Require Import Base Clock.

Lemma call_jump_spec p :
  call_jump p = true <-> pk p = 1 \/ (pD p <= dk p)%Z \/ pn p mod pk p = 0.
Proof.
  unfold call_jump. rewrite !orb_true_iff, Nat.eqb_eq, Z.leb_le, Nat.eqb_eq. tauto.
Qed.

(** non-adaptive proposal constructed with the chain (clock 0 at iteration 1): at chain
    iteration [i >= 1] the clock reads [i - 1] *)
Definition fresh (k : nat) (D : Z) (i : nat) : pclock := {| pk := k; pD := D; pstart := None; pn := i - 1 |}.

(** while the duration has not elapsed it jumps exactly on iterations 1, k+1, 2k+1, ... *)
Theorem schedule_slow_phase k D i :
  1 < k -> 1 <= i -> (Z.of_nat ((i - 1) / k) < D)%Z ->
  (call_jump (fresh k D i) = true <-> exists j, i = j * k + 1).
Proof.
  intros Hk Hi HD. rewrite call_jump_spec. unfold dk, nsteps, fresh; cbn. split.
  - intros [H|[H|H]]; try lia.
    exists ((i - 1) / k). pose proof (Nat.div_mod (i - 1) k). lia.
  - intros [j ->]. right. right. replace (j * k + 1 - 1) with (j * k) by lia. apply Nat.mod_mul. lia.
Qed.

(** afterwards it jumps on every iteration *)
Theorem schedule_fast_phase k D i :
  (D <= Z.of_nat ((i - 1) / k))%Z -> call_jump (fresh k D i) = true.
Proof. intros H. apply call_jump_spec. right. left. exact H. Qed.

(** k = 1: always *)
Theorem schedule_every_step D s n : call_jump {| pk := 1; pD := D; pstart := s; pn := n |} = true.
Proof. reflexivity. Qed.

(** adaptive proposals measure the duration from their start step *)
Theorem schedule_adaptive k D s n :
  1 < k ->
  (call_jump {| pk := k; pD := D; pstart := Some s; pn := n |} = true
   <-> (D <= Z.of_nat (n / k) - s + 1)%Z \/ n mod k = 0).
Proof. intros Hk. rewrite call_jump_spec. unfold dk, nsteps; cbn. split; [intros [H|H]; [lia|exact H]|tauto]. Qed.

Section Joint.
  Variable V A : Type.
  Notation constituent := (constituent A). Notation coracle := (coracle V A).

  (** on a non-jumping iteration: nothing is contributed to the acceptance probability and
      the adaptation state is not touched; the clock always advances by one *)
  Theorem quiet_iteration (c : constituent) (o : coracle) :
    call_jump (clock A c) = false ->
    contrib V A c o = None /\ adapt A (update1 V A c o) = adapt A c
    /\ pn (clock A (update1 V A c o)) = S (pn (clock A c)).
  Proof. intros H. unfold contrib, update1. rewrite H. cbn. auto. Qed.

  Theorem jumping_iteration (c : constituent) (o : coracle) :
    call_jump (clock A c) = true ->
    contrib V A c o = Some (o_lfwd V A o, o_lrev V A o) /\ adapt A (update1 V A c o) = o_adapt V A o
    /\ pn (clock A (update1 V A c o)) = S (pn (clock A c)).
  Proof. intros H. unfold contrib, update1. rewrite H. cbn. auto. Qed.

  (** the proposed point keeps the parameters of a non-jumping constituent at their values *)
  Lemma assign_other (x : list V) idx vals j d : ~ In j idx -> nth j (assign V x idx vals) d = nth j x d.
  Proof.
    revert x vals; induction idx as [|i idx IH]; intros x vals Hj; cbn; [reflexivity|].
    destruct vals as [|v vals]; [reflexivity|]. rewrite IH by (cbn in Hj; tauto).
    apply nth_upd_neq. cbn in Hj. intros ->. tauto.
  Qed.

  (** parameter [j] is proposed anew only by a constituent that owns it and jumps *)
  Theorem copy_unless_jump (cur : list V) cs : forall os acc j d,
    (forall c, In c cs -> In j (params A c) -> call_jump (clock A c) = false) ->
    nth j (joint_jump V A cur cs os acc) d = nth j acc d.
  Proof.
    induction cs as [|c cs IH]; intros os acc j d H; cbn; [reflexivity|].
    destruct os as [|o os]; [reflexivity|].
    rewrite IH by (intros c' Hc'; apply H; now right).
    destruct (call_jump (clock A c)) eqn:E; [|reflexivity].
    apply assign_other. intros Hin. specialize (H c (or_introl eq_refl) Hin). congruence.
  Qed.

  (** the clocks after any number of iterations do not depend on what was jumped, accepted or
      adapted, nor on the other constituents: each advances by one per iteration *)
  Lemma joint_update_clock cs : forall os, length os = length cs ->
    map (fun c => pn (clock A c)) (joint_update V A cs os) = map (fun c => S (pn (clock A c))) cs
    /\ map (fun c => (pk (clock A c), pD (clock A c), pstart (clock A c), params A c)) (joint_update V A cs os)
       = map (fun c => (pk (clock A c), pD (clock A c), pstart (clock A c), params A c)) cs
    /\ length (joint_update V A cs os) = length cs.
  Proof.
    induction cs as [|c cs IH]; intros [|o os] Hl; cbn in *; try lia; auto.
    destruct (IH os) as (A1 & A2 & A3); [lia|]. rewrite A1, A2, A3. auto.
  Qed.

  Theorem clock_after cs oss :
    Forall (fun os => length os = length cs) oss ->
    map (fun c => pn (clock A c)) (iterate V A cs oss) = map (fun c => pn (clock A c) + length oss) cs.
  Proof.
    revert cs; induction oss as [|os t IH]; intros cs HF; cbn.
    - apply map_ext. intros. lia.
    - inversion HF as [|? ? Hl HF']; subst.
      destruct (joint_update_clock cs os Hl) as (A1 & A2 & A3).
      rewrite IH by (rewrite A3; exact HF').
      rewrite <- (map_map (fun c => pn (clock A c)) (fun n => n + length t)), A1, map_map.
      apply map_ext. intros. lia.
  Qed.

  (** independence: one constituent's evolution is a function of its own state and oracle only *)
  Theorem constituents_independent cs1 cs2 os1 os2 c o :
    length os1 = length cs1 ->
    nth (length cs1) (joint_update V A (cs1 ++ c :: cs2) (os1 ++ o :: os2)) c = update1 V A c o.
  Proof.
    revert os1; induction cs1 as [|c1 cs1 IH]; intros [|o1 os1] Hl; cbn in *; try lia; auto.
  Qed.
End Joint.
