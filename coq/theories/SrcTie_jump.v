(** Source tie for the rejection loops of the bounded proposals (C12, and the jump rule whose law C02 and
    C11 reason about).  [Gen/SrcJump.v] is regenerated from /repo on every run by tools/py2coq_jump.py:
    the scalar membership test of [BoundedNormal.__contains__], the test under which
    [BoundedNormal._jump] keeps a draw, one pass of the redraw loop of [BoundedDiscrete._jump] (draw ->
    rounded displacement -> candidate -> kept or redrawn), and whether each [_jump] begins by refusing a
    point that, as given, is outside.  Here: a generic "first accepted draw" over any list of draws with
    the generated pass IS the model's [bd_jump1] / [bn_jump1] ([Dens.v]), for every numeric instance, every
    rounding function, every bound, position and list of draws. *)
From Coq Require Import ZArith List Bool Lia.
From Epsie Require Import Base Num Dens Gen.SrcJump.
Import ListNotations.

(** the first draw a pass accepts, and how many draws that took *)
Fixpoint first_accepted {A B : Type} (pass : A -> option B) (draws : list A) : option (B * nat) :=
  match draws with
  | [] => None
  | z :: r => match pass z with
              | Some y => Some (y, 1%nat)
              | None => match first_accepted pass r with Some (v, n) => Some (v, S n) | None => None end
              end
  end.

Section Ties.
  Context {T : Type} `{Num T}.
  Variable rnd_even floorceil : T -> Z.

  Lemma src_bd_accept_pass (succ : bool) (lo hi x : Z) (z : T) :
    src_bd_accept rnd_even floorceil succ lo hi x z
    = (let y := nd_jump1 rnd_even floorceil succ x z in
       if (lo <=? y)%Z && (y <=? hi)%Z && nd_ok succ x y then Some y else None).
  Proof.
    unfold src_bd_accept, nd_jump1, nd_ok. cbv zeta.
    set (d := if succ then rnd_even z else floorceil z).
    replace ((x + d =? x)%Z) with ((d =? 0)%Z)
      by (destruct (Z.eqb_spec d 0); destruct (Z.eqb_spec (x + d) x); try reflexivity; lia).
    reflexivity.
  Qed.

  Lemma src_bd_jump_tie (succ : bool) (lo hi x : Z) (draws : list T) :
    first_accepted (src_bd_accept rnd_even floorceil succ lo hi x) draws = bd_jump1 rnd_even floorceil succ lo hi x draws.
  Proof.
    induction draws as [|z r IH]; [reflexivity|]. cbn [first_accepted bd_jump1]. rewrite src_bd_accept_pass. cbv zeta.
    destruct ((lo <=? nd_jump1 rnd_even floorceil succ x z)%Z && (nd_jump1 rnd_even floorceil succ x z <=? hi)%Z
              && nd_ok succ x (nd_jump1 rnd_even floorceil succ x z)); [reflexivity|]. now rewrite IH.
  Qed.

  Lemma src_bn_jump_tie (lo hi : T) (draws : list T) :
    first_accepted (fun y => if src_bn_accept lo hi y then Some y else None) draws = bn_jump1 lo hi draws.
  Proof.
    induction draws as [|y r IH]; [reflexivity|]. cbn [first_accepted bn_jump1]. unfold src_bn_accept at 1.
    destruct (nleb lo y && nleb y hi); [reflexivity|]. now rewrite IH.
  Qed.

  (** a jump from a point, with the refusal the source begins with *)
  Definition src_bd_jump_from (succ : bool) (lo hi x : Z) (draws : list T) : jres Z :=
    if src_bd_refuses_outside && negb (src_contains_Z lo hi x) then Refused
    else match first_accepted (src_bd_accept rnd_even floorceil succ lo hi x) draws with Some (v, n) => Jumped v n | None => Exhausted end.
  Definition src_bn_jump_from (lo hi x : T) (draws : list T) : jres T :=
    if src_bn_refuses_outside && negb (src_contains_T lo hi x) then Refused
    else match first_accepted (fun y => if src_bn_accept lo hi y then Some y else None) draws with Some (v, n) => Jumped v n | None => Exhausted end.

  Lemma src_bd_jump_from_tie succ lo hi x draws :
    src_bd_jump_from succ lo hi x draws = bd_jump_from rnd_even floorceil succ lo hi x draws.
  Proof.
    unfold src_bd_jump_from, bd_jump_from, src_contains_Z. rewrite src_bd_jump_tie.
    change src_bd_refuses_outside with true. cbn [andb]. destruct ((lo <=? x)%Z && (x <=? hi)%Z); reflexivity.
  Qed.
  Lemma src_bn_jump_from_tie lo hi x draws :
    src_bn_jump_from lo hi x draws = bn_jump_from lo hi x draws.
  Proof.
    unfold src_bn_jump_from, bn_jump_from, src_contains_T. rewrite src_bn_jump_tie.
    change src_bn_refuses_outside with true. cbn [andb]. destruct (nleb lo x && nleb x hi); reflexivity.
  Qed.
End Ties.
