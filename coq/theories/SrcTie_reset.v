(** Source tie for the adaptation reset and for the copying of proposal states (C19, C16).
    From the current /repo on every run ([Gen/SrcState.v], [Gen/Src.v]):
    - [src_reset_<family>]: the keys of [_initial_proposal_params] as [setup_adaptation] fills them, i.e. the
      attributes [_reset_adaptation] writes (a key that is a property with a plain setter is its attribute);
    - [src_reset_deepcopies]: the loop of [_reset_adaptation] installs [copy.deepcopy] of each stored value;
    - [src_chain_state_deepcopies] / [src_chain_set_state_deepcopies]: [Chain.state] stores, and
      [Chain.set_state] hands on, a deep copy of the proposals' state;
    - [src_reset_start]: the value [_reset_adaptation] gives [start_step].
    Here: every attribute the adaptation changes (the family's dynamic attributes other than the clock, the
    window start and the generator) is written by the reset or recomputed from what it writes; the copy
    flags are the ones the heap theorems of [Alias_proofs] assume; the new window start is [max nsteps 1]. *)
From Coq Require Import String List Bool ZArith Lia.
From Epsie Require Import Base Clock PropState Gen.SrcState Gen.Src SrcTie_clock.
Import ListNotations.

Definition clockish : list string := ["bit_generator"; "_nsteps"; "_start_step"]%string.
Definition adapted (f : famspec) : list string := filter (fun a => negb (mem a clockish)) (f_dynamic f).

Definition src_resets : list (list (string * string) * famspec) :=
  [ (src_reset_veitch, veitch_family);
    (src_reset_ss_diag, ss_diag_family); (src_reset_ss_full, ss_full_family);
    (src_reset_at_diag, at_diag_family); (src_reset_at_full, at_full_family);
    (src_reset_adaptive_eigenvector, adaptive_eigen_family);
    (src_reset_adaptive_solid_angle, adaptive_kappa_family) ].

Definition reset_covers (x : list (string * string) * famspec) : bool :=
  let '(r, f) := x in
  subset (adapted f) (map fst r ++ map fst (f_derived f)) && subset (map fst r) (f_dynamic f).

Lemma src_resets_cover : forallb reset_covers src_resets = true.
Proof. vm_compute. reflexivity. Qed.

Lemma adaptive_table_has_resets :
  forallb (fun f => orb (Nat.eqb (length (adapted f)) 0) (existsb (fun x => String.eqb (f_name f) (f_name (snd x))) src_resets)) table = true.
Proof. vm_compute. reflexivity. Qed.

Lemma mem_In x l : mem x l = true <-> In x l.
Proof.
  unfold mem. rewrite existsb_exists. split.
  - intros [y [Hy He]]. apply String.eqb_eq in He. now subst.
  - intros H. exists x. split; [exact H | apply String.eqb_refl].
Qed.

Lemma subset_spec a b : subset a b = true -> forall x, In x a -> In x b.
Proof. unfold subset. rewrite forallb_forall. intros H x Hx. apply mem_In, H, Hx. Qed.

(** every dynamic attribute of an adaptive family is the clock, the window start, the generator - or is
    written by the reset, or recomputed after it *)
Lemma src_reset_reaches_every_adapted_attribute r f :
  In (r, f) src_resets -> forall a, In a (f_dynamic f) ->
  In a clockish \/ In a (map fst r) \/ In a (map fst (f_derived f)).
Proof.
  intros Hin a Ha. pose proof src_resets_cover as H. rewrite forallb_forall in H. specialize (H _ Hin). cbn in H.
  apply andb_true_iff in H as [H _].
  destruct (mem a clockish) eqn:Hc; [left; now apply mem_In|]. right.
  apply in_app_or. apply (subset_spec _ _ H). unfold adapted. apply filter_In. split; [exact Ha|]. now rewrite Hc.
Qed.

Local Open Scope Z_scope.
Lemma src_reset_start_tie (p : pclock) :
  src_reset_start (Z.of_nat (pk p)) (Z.of_nat (pn p)) = Z.max (nsteps p) 1.
Proof. unfold src_reset_start, nsteps. now rewrite of_nat_div. Qed.

Lemma src_reset_window (p : pclock) :
  let start := src_reset_start (Z.of_nat (pk p)) (Z.of_nat (pn p)) in
  1 <= start /\ nsteps p - start + 1 <= 1 /\ (1 <= nsteps p -> nsteps p - start + 1 = 1).
Proof. cbv zeta. rewrite src_reset_start_tie. lia. Qed.
