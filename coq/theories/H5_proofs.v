(** Proofs about the checkpoint model [H5]: round trip, frame, refinement to a map. *)
From Epsie Require Import Base H5.

Section Proofs.
  Variable B : Type.
  Variable zero : B.
  Notation file := (file B). Notation dset := (dset B).
  Notation dump := (dump B zero). Notation load := (load B).
  Notation step := (step B zero). Notation run := (run B zero).

  (** Every dataset in the file was created resizable. *)
  Definition Inv (f : file) : Prop :=
    forall g grp n d, aget f g = Some grp -> aget grp n = Some d -> d_resizable d = true.

  Lemma aget_mkfile gs g grp : aget (mkfile B gs) g = Some grp -> grp = [].
  Proof.
    induction gs as [|a t IH]; cbn; [discriminate|].
    destruct (Nat.eqb g a); [congruence|exact IH].
  Qed.

  Lemma Inv_mkfile gs : Inv (mkfile B gs).
  Proof. intros g grp n d Hg Hn. apply aget_mkfile in Hg. subst. discriminate. Qed.

  Lemma repeat_length' (n : nat) : length (repeat zero n) = n.
  Proof. apply repeat_length. Qed.

  Lemma resize_length d n d' : resize B zero d n = Ok d' -> length (d_data d') = n /\ d_resizable d' = true.
  Proof.
    unfold resize. destruct (d_resizable d); [|discriminate].
    intros H; injection H as <-. cbn. split; [|reflexivity].
    rewrite app_length, firstn_length, repeat_length. lia.
  Qed.

  (** What [dump] does, in one lemma: on an existing group and under [Inv] it
      succeeds and the dataset afterwards holds exactly [b]. *)
  Lemma dump_ok f g n b grp :
    Inv f -> aget f g = Some grp ->
    exists d', dump f g n b = Ok (aset f g (aset grp n d'))
               /\ d_data d' = b /\ d_resizable d' = true.
  Proof.
    intros HI Hg. unfold H5.dump. rewrite Hg.
    destruct (aget grp n) as [d|] eqn:Hn.
    - pose proof (HI _ _ _ _ Hg Hn) as Hr.
      destruct (Nat.eqb (length b) (length (d_data d))) eqn:E.
      + unfold assign. rewrite E. eexists. split; [reflexivity|]. cbn. auto.
      + unfold resize. rewrite Hr. unfold assign. cbn [d_data d_resizable].
        rewrite app_length, firstn_length, repeat_length.
        replace (Nat.eqb (length b) (Nat.min (length b) (length (d_data d)) + (length b - length (d_data d)))) with true
          by (symmetry; apply Nat.eqb_eq; lia).
        eexists. split; [reflexivity|]. cbn. auto.
    - unfold assign, create. cbn [d_data d_resizable]. rewrite repeat_length, Nat.eqb_refl.
      eexists. split; [reflexivity|]. cbn. auto.
  Qed.

  Theorem roundtrip f g n b grp :
    Inv f -> aget f g = Some grp ->
    exists f', dump f g n b = Ok f' /\ load f' g n = Ok b /\ Inv f'.
  Proof.
    intros HI Hg. destruct (dump_ok f g n b grp HI Hg) as (d' & Hd & Hb & Hr).
    eexists. split; [exact Hd|]. split.
    - unfold H5.load. rewrite aget_aset_eq, aget_aset_eq. now rewrite Hb.
    - intros g0 grp0 n0 d0 H0 H1.
      destruct (Nat.eq_dec g g0) as [<-|Hne].
      + rewrite aget_aset_eq in H0. injection H0 as <-.
        destruct (Nat.eq_dec n n0) as [<-|Hne'].
        * rewrite aget_aset_eq in H1. injection H1 as <-. exact Hr.
        * rewrite aget_aset_neq in H1 by exact Hne'. eapply HI; eauto.
      + rewrite aget_aset_neq in H0 by exact Hne. eapply HI; eauto.
  Qed.

  (** A missing group is the only way [dump] can fail under [Inv]. *)
  Lemma dump_nogroup f g n b : aget f g = None -> dump f g n b = Err KeyError.
  Proof. intros H. unfold H5.dump. now rewrite H. Qed.

  Theorem frame f g n b f' g' n' :
    dump f g n b = Ok f' -> (g', n') <> (g, n) -> load f' g' n' = load f g' n'.
  Proof.
    unfold H5.dump. destruct (aget f g) as [grp|] eqn:Hg; [|discriminate].
    intros H Hne.
    assert (exists d', f' = aset f g (aset grp n d')) as [d' ->].
    { destruct (match aget grp n with
                | Some d => if Nat.eqb (length b) (length (d_data d)) then Ok d else resize B zero d (length b)
                | None => Ok (create B zero (length b)) end) as [d|e]; [|discriminate].
      destruct (assign B d b) as [d'|e]; [|discriminate]. injection H as <-. eauto. }
    unfold H5.load.
    destruct (Nat.eq_dec g g') as [<-|Hg'].
    - rewrite aget_aset_eq, Hg.
      rewrite aget_aset_neq; [reflexivity|]. intros ->. now apply Hne.
    - now rewrite aget_aset_neq by exact Hg'.
  Qed.

  (** group membership is unchanged by a dump *)
  Lemma dump_groups f g n b f' g' :
    dump f g n b = Ok f' -> (aget f' g' = None <-> aget f g' = None).
  Proof.
    unfold H5.dump. destruct (aget f g) as [grp|] eqn:Hg; [|discriminate].
    intros H.
    assert (exists d', f' = aset f g (aset grp n d')) as [d' ->].
    { destruct (match aget grp n with
                | Some d => if Nat.eqb (length b) (length (d_data d)) then Ok d else resize B zero d (length b)
                | None => Ok (create B zero (length b)) end) as [d|e]; [|discriminate].
      destruct (assign B d b) as [d'|e]; [|discriminate]. injection H as <-. eauto. }
    destruct (Nat.eq_dec g g') as [<-|Hg'].
    - rewrite aget_aset_eq, Hg. split; discriminate.
    - now rewrite aget_aset_neq by exact Hg'.
  Qed.

  (** ** Refinement: any operation sequence behaves like a map (group,name) -> bytes *)
  Definition aspec := nat -> nat -> option (list B).
  Definition astep (G : nat -> bool) (s : aspec) (o : op B) : aspec * outcome B :=
    match o with
    | Dump g n b =>
        if G g
        then ((fun g' n' => if Nat.eqb g' g && Nat.eqb n' n then Some b else s g' n'), ODone)
        else (s, OErr KeyError)
    | Load g n => match s g n with
                  | Some b => (s, OBytes b)
                  | None => (s, OErr KeyError)
                  end
    end.
  Fixpoint arun (G : nat -> bool) (s : aspec) (ops : list (op B)) : list (outcome B) :=
    match ops with
    | [] => []
    | o :: t => let '(s1, r) := astep G s o in r :: arun G s1 t
    end.

  Definition R (G : nat -> bool) (f : file) (s : aspec) : Prop :=
    Inv f /\ (forall g, G g = true <-> aget f g <> None)
    /\ forall g n, load f g n = match s g n with Some b => Ok b | None => Err KeyError end.

  Lemma step_refines G f s o :
    R G f s ->
    snd (step f o) = snd (astep G s o) /\ R G (fst (step f o)) (fst (astep G s o)).
  Proof.
    intros (HI & HG & HL). destruct o as [g n b|g n]; cbn [H5.step astep].
    - destruct (aget f g) as [grp|] eqn:Hg.
      + assert (G g = true) as -> by (apply HG; congruence).
        destruct (roundtrip f g n b grp HI Hg) as (f' & Hd & Hl & HI').
        rewrite Hd. cbn. split; [reflexivity|]. split; [exact HI'|]. split.
        * intros g'. rewrite HG. pose proof (dump_groups _ _ _ _ _ g' Hd). tauto.
        * intros g' n'.
          destruct (Nat.eqb g' g && Nat.eqb n' n) eqn:E.
          -- apply andb_true_iff in E as [E1 E2]. apply Nat.eqb_eq in E1, E2. subst. exact Hl.
          -- rewrite (frame _ _ _ _ _ g' n' Hd); [apply HL|].
             intros [= -> ->]. now rewrite !Nat.eqb_refl in E.
      + assert (G g = false) as ->.
        { destruct (G g) eqn:E; auto. apply HG in E. congruence. }
        rewrite dump_nogroup by exact Hg. cbn. split; [reflexivity|]. repeat split; auto; apply HG.
    - rewrite HL. destruct (s g n); cbn; (split; [reflexivity|]); repeat split; auto; apply HG.
  Qed.

  Theorem refines G ops : forall f s, R G f s -> snd (run f ops) = arun G s ops.
  Proof.
    induction ops as [|o t IH]; intros f s HR; cbn [H5.run arun]; [reflexivity|].
    destruct (step_refines G f s o HR) as [Ho HR'].
    destruct (step f o) as [f1 r] eqn:E1. destruct (astep G s o) as [s1 r'] eqn:E2.
    cbn in Ho, HR'. subst r'.
    specialize (IH f1 s1 HR'). destruct (run f1 t) as [f2 rs]. cbn in *. now rewrite IH.
  Qed.

  Lemma aget_mkfile_in gs g : aget (mkfile B gs) g <> None <-> In g gs.
  Proof.
    induction gs as [|a t IH]; cbn; [tauto|].
    destruct (Nat.eqb g a) eqn:E.
    - apply Nat.eqb_eq in E. subst. split; [auto|discriminate].
    - apply Nat.eqb_neq in E. rewrite IH. split; [auto|intros [->|]; [congruence|auto]].
  Qed.

  (** Starting from a file that has the groups [gs] and no dataset. *)
  Theorem refines_from_empty gs ops :
    snd (run (mkfile B gs) ops)
    = arun (fun g => existsb (Nat.eqb g) gs) (fun _ _ => None) ops.
  Proof.
    apply refines. split; [apply Inv_mkfile|]. split.
    - intros g. rewrite aget_mkfile_in, existsb_exists. split.
      + intros (x & Hx & E). apply Nat.eqb_eq in E. now subst.
      + intros H. exists g. now rewrite Nat.eqb_refl.
    - intros g n. unfold H5.load. destruct (aget (mkfile B gs) g) as [grp|] eqn:E; [|reflexivity].
      apply aget_mkfile in E. now subst.
  Qed.

  (** [Inv] holds in every state reachable from an empty file. *)
  Theorem run_inv ops : forall f, Inv f -> Inv (fst (run f ops)).
  Proof.
    induction ops as [|o t IH]; intros f HI; cbn [H5.run]; [exact HI|].
    destruct (step f o) as [f1 r] eqn:E1.
    assert (Inv f1).
    { destruct o as [g n b|g n]; cbn in E1.
      - destruct (aget f g) as [grp|] eqn:Hg.
        + destruct (roundtrip f g n b grp HI Hg) as (f' & Hd & _ & HI'). rewrite Hd in E1. now injection E1 as <- _.
        + rewrite dump_nogroup in E1 by exact Hg. now injection E1 as <- _.
      - destruct (load f g n); now injection E1 as <- _. }
    specialize (IH f1 H). destruct (run f1 t). exact IH.
  Qed.
End Proofs.
