(** Shared list utilities for the executable models (no Reals here). *)
From Coq Require Export List Arith Bool Lia.
Export ListNotations.

(** update position [n] of a list; out of range = unchanged *)
Fixpoint upd {A} (l : list A) (n : nat) (v : A) : list A :=
  match l, n with
  | [], _ => []
  | _ :: t, O => v :: t
  | h :: t, S k => h :: upd t k v
  end.

Lemma nth_upd_eq {A} (l : list A) n v d : n < length l -> nth n (upd l n v) d = v.
Proof. revert n; induction l as [|h t IH]; intros [|n] Hn; cbn in *; try lia; auto. apply IH; lia. Qed.
Lemma nth_upd_neq {A} (l : list A) n m v d : n <> m -> nth m (upd l n v) d = nth m l d.
Proof. revert n m; induction l as [|h t IH]; intros [|n] [|m] Hn; cbn in *; try lia; auto. Qed.
Lemma upd_length {A} (l : list A) n v : length (upd l n v) = length l.
Proof. revert n; induction l as [|h t IH]; intros [|n]; cbn; auto. Qed.

(** association lists keyed by [nat] *)
Section Alist.
  Context {V : Type}.
  Fixpoint aget (l : list (nat * V)) (k : nat) : option V :=
    match l with
    | [] => None
    | (k', v) :: t => if Nat.eqb k k' then Some v else aget t k
    end.
  Fixpoint aset (l : list (nat * V)) (k : nat) (v : V) : list (nat * V) :=
    match l with
    | [] => [(k, v)]
    | (k', v') :: t => if Nat.eqb k k' then (k, v) :: t else (k', v') :: aset t k v
    end.
  Lemma aget_aset_eq l k v : aget (aset l k v) k = Some v.
  Proof.
    induction l as [|[k' v'] t IH]; cbn.
    - now rewrite Nat.eqb_refl.
    - destruct (Nat.eqb k k') eqn:E; cbn; rewrite ?Nat.eqb_refl, ?E; auto.
  Qed.
  Lemma aget_aset_neq l k k' v : k <> k' -> aget (aset l k v) k' = aget l k'.
  Proof.
    intros Hne. induction l as [|[k0 v0] t IH]; cbn.
    - destruct (Nat.eqb k' k) eqn:E; auto. apply Nat.eqb_eq in E. congruence.
    - destruct (Nat.eqb k k0) eqn:E; cbn.
      + apply Nat.eqb_eq in E; subst k0.
        destruct (Nat.eqb k' k) eqn:E'; auto. apply Nat.eqb_eq in E'. congruence.
      + destruct (Nat.eqb k' k0); auto.
  Qed.
End Alist.
