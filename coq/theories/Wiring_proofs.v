(** Non-interference of chains (C07) and provenance of random streams (C04) on the object-graph
    model of [Wiring]. *)
From Coq Require Import ZArith Lia Permutation.
From Epsie Require Import Base Wiring.
Local Open Scope Z_scope.

Definition agree (ls : list loc) (h1 h2 : heap) : Prop := forall l, In l ls -> h1 l = h2 l.

Lemma hupd_same h l v : hupd h l v l = v.
Proof. unfold hupd. now rewrite Nat.eqb_refl. Qed.
Lemma hupd_other h l v l' : l' <> l -> hupd h l v l' = h l'.
Proof. unfold hupd. intros H. destruct (Nat.eqb_spec l' l); [contradiction|reflexivity]. Qed.

(** frame: a program writes only the cells it names *)
Lemma exec_frame prog : forall h acc l, ~ In l (locs prog) -> fst (fold_left exec_prim prog (h, acc)) l = h l.
Proof.
  induction prog as [|p t IH]; intros h acc l Hn; cbn [fold_left]; [reflexivity|].
  cbn [exec_prim]. rewrite IH by (intros Hi; apply Hn; now right).
  apply hupd_other. intros ->. apply Hn. now left.
Qed.

(** locality: what a program computes depends only on the cells it names *)
Lemma exec_local prog : forall h1 h2 acc, agree (locs prog) h1 h2 ->
  snd (fold_left exec_prim prog (h1, acc)) = snd (fold_left exec_prim prog (h2, acc))
  /\ agree (locs prog) (fst (fold_left exec_prim prog (h1, acc))) (fst (fold_left exec_prim prog (h2, acc))).
Proof.
  induction prog as [|p t IH]; intros h1 h2 acc Ha; cbn [fold_left]; [split; [reflexivity|intros l []]|].
  cbn [exec_prim].
  assert (E : h1 (p_loc p) = h2 (p_loc p)) by (apply Ha; now left).
  rewrite E.
  set (v := h2 (p_loc p) * 31 + p_k p + acc).
  assert (Ha' : agree (locs t) (hupd h1 (p_loc p) v) (hupd h2 (p_loc p) v)).
  { intros l Hl. unfold hupd. destruct (Nat.eqb l (p_loc p)); [reflexivity|]. apply Ha. now right. }
  destruct (IH _ _ (acc * 17 + v) Ha') as (A & B). split; [exact A|].
  intros l [<-|Hl]; [|apply B; exact Hl].
  destruct (in_dec Nat.eq_dec (p_loc p) (locs t)) as [Hi|Hn]; [apply B; exact Hi|].
  rewrite !exec_frame by exact Hn. now rewrite !hupd_same.
Qed.

Section Sched.
  Variable progs : list (list prim).
  Variable fps : list (list loc).
  Notation prog i := (nth i progs []).
  Notation fp i := (nth i fps []).
  (** every chain's program stays within the cells reachable from that chain ... *)
  Hypothesis confined : forall i l, In l (locs (prog i)) -> In l (fp i).
  (** ... and no cell is reachable from two chains *)
  Hypothesis disjoint : forall i j l, i <> j -> In l (fp i) -> ~ In l (fp j).

  Definition alone (h0 : heap) (i : nat) : heap * Z := exec_prog h0 (prog i).

  Lemma serial_spec order : forall h outs h0, NoDup order ->
    (forall i, In i order -> agree (fp i) h h0) ->
    snd (run_serial progs order h outs) = outs ++ map (fun i => (i, snd (alone h0 i))) order
    /\ (forall i l, In i order -> In l (fp i) -> fst (run_serial progs order h outs) l = fst (alone h0 i) l)
    /\ (forall l, (forall i, In i order -> ~ In l (fp i)) -> fst (run_serial progs order h outs) l = h l).
  Proof.
    induction order as [|i t IH]; intros h outs h0 ND Ha; cbn [run_serial map].
    - rewrite app_nil_r. repeat split; auto; intros i l Hi; destruct Hi.
    - inversion ND as [|? ? Hnot ND']; subst.
      assert (Hai : agree (locs (prog i)) h h0) by (intros l Hl; apply (Ha i (or_introl eq_refl)); apply confined; exact Hl).
      destruct (exec_local (prog i) h h0 0 Hai) as (Eo & Eh).
      unfold exec_prog. destruct (fold_left exec_prim (prog i) (h, 0)) as [h' o] eqn:E.
      cbn [fst snd] in Eo, Eh.
      assert (Hfr : forall l, ~ In l (locs (prog i)) -> h' l = h l).
      { intros l Hn. pose proof (exec_frame (prog i) h 0 l Hn) as X. rewrite E in X. exact X. }
      assert (Ha' : forall j, In j t -> agree (fp j) h' h0).
      { intros j Hj l Hl. rewrite Hfr; [apply (Ha j (or_intror Hj)); exact Hl|].
        intros Hi. apply confined in Hi. apply (disjoint i j l); [intros ->; contradiction|exact Hi|exact Hl]. }
      destruct (IH h' (outs ++ [(i, o)]) h0 ND' Ha') as (A & B & C).
      split; [|split].
      + rewrite A, <- app_assoc. cbn. unfold alone, exec_prog. rewrite Eo. reflexivity.
      + intros j l [<-|Hj] Hl; [|apply B; assumption].
        rewrite C by (intros j Hj Hl'; apply (disjoint i j l); [intros ->; contradiction|exact Hl|exact Hl']).
        unfold alone, exec_prog.
        destruct (in_dec Nat.eq_dec l (locs (prog i))) as [Hi|Hn]; [apply Eh; exact Hi|].
        rewrite Hfr by exact Hn. rewrite exec_frame by exact Hn. apply (Ha i (or_introl eq_refl)). exact Hl.
      + intros l Hn. rewrite C by (intros j Hj; apply Hn; now right).
        apply Hfr. intros Hi. apply (Hn i (or_introl eq_refl)). apply confined. exact Hi.
  Qed.

  Lemma install_in fpi from to l : In l fpi -> install fpi from to l = from l.
  Proof.
    intros H. unfold install.
    replace (existsb (Nat.eqb l) fpi) with true; [reflexivity|].
    symmetry. apply existsb_exists. exists l. split; [exact H|apply Nat.eqb_refl].
  Qed.
  Lemma install_out fpi from to l : ~ In l fpi -> install fpi from to l = to l.
  Proof.
    intros H. unfold install.
    destruct (existsb (Nat.eqb l) fpi) eqn:E; [|reflexivity].
    apply existsb_exists in E as (y & Hy & Ey). apply Nat.eqb_eq in Ey. subst. contradiction.
  Qed.

  Lemma copy_spec order : forall h outs h0, NoDup order ->
    snd (run_copy progs fps order h0 h outs) = outs ++ map (fun i => (i, snd (alone h0 i))) order
    /\ (forall i l, In i order -> In l (fp i) -> fst (run_copy progs fps order h0 h outs) l = fst (alone h0 i) l)
    /\ (forall l, (forall i, In i order -> ~ In l (fp i)) -> fst (run_copy progs fps order h0 h outs) l = h l).
  Proof.
    induction order as [|i t IH]; intros h outs h0 ND; cbn [run_copy map].
    - rewrite app_nil_r. repeat split; auto; intros i l Hi; destruct Hi.
    - inversion ND as [|? ? Hnot ND']; subst.
      destruct (exec_prog h0 (prog i)) as [hi o] eqn:E.
      destruct (IH (install (fp i) hi h) (outs ++ [(i, o)]) h0 ND') as (A & B & C).
      split; [|split].
      + rewrite A, <- app_assoc. cbn. unfold alone. rewrite E. reflexivity.
      + intros j l [<-|Hj] Hl; [|apply B; assumption].
        rewrite C by (intros j Hj Hl'; apply (disjoint i j l); [intros ->; contradiction|exact Hl|exact Hl']).
        rewrite install_in by exact Hl. unfold alone. now rewrite E.
      + intros l Hn. rewrite C by (intros j Hj; apply Hn; now right).
        apply install_out. apply (Hn i). now left.
  Qed.

  (** ** C07: the pool does not matter.  Serial evaluation in ANY order and evaluation on copies
      in ANY order give every chain the output, and the final cells, it has when run alone. *)
  Theorem pool_independent (order1 order2 : list nat) (h0 : heap) :
    NoDup order1 -> NoDup order2 -> Permutation order1 order2 ->
    let rs := run_serial progs order1 h0 [] in
    let rc := run_copy progs fps order2 h0 h0 [] in
    (forall i, In i order1 -> out_of i (snd rs) = Some (snd (alone h0 i)) /\ out_of i (snd rc) = Some (snd (alone h0 i)))
    /\ (forall i l, In i order1 -> In l (fp i) -> fst rs l = fst rc l).
  Proof.
    intros ND1 ND2 HP. cbn zeta.
    destruct (serial_spec order1 h0 [] h0 ND1 (fun _ _ _ _ => eq_refl)) as (A & B & _).
    destruct (copy_spec order2 h0 [] h0 ND2) as (A' & B' & _).
    assert (Hout : forall order i, NoDup order -> In i order ->
              out_of i (map (fun i0 => (i0, snd (alone h0 i0))) order) = Some (snd (alone h0 i))).
    { induction order as [|j t IH]; intros i ND Hi; [destruct Hi|]. cbn.
      inversion ND as [|? ? Hn ND']; subst.
      destruct (Nat.eqb_spec i j) as [->|Hne]; [reflexivity|].
      destruct Hi as [->|Hi]; [congruence|]. apply IH; assumption. }
    split.
    - intros i Hi. rewrite A, A'. cbn [app]. split; apply Hout; auto. apply (Permutation_in i HP Hi).
    - intros i l Hi Hl. rewrite (B i l Hi Hl), (B' i l (Permutation_in i HP Hi) Hl). reflexivity.
  Qed.

  (** ** C07: other chains do not matter.  Changing anything outside chain i's cells - another
      chain's start position, proposals, generator - leaves chain i's output unchanged. *)
  Theorem neighbours_irrelevant (order : list nat) (h0 h0' : heap) (i : nat) :
    NoDup order -> In i order -> agree (fp i) h0 h0' ->
    out_of i (snd (run_serial progs order h0 [])) = out_of i (snd (run_serial progs order h0' [])).
  Proof.
    intros ND Hi Ha.
    destruct (serial_spec order h0 [] h0 ND (fun _ _ _ _ => eq_refl)) as (A & _).
    destruct (serial_spec order h0' [] h0' ND (fun _ _ _ _ => eq_refl)) as (A' & _).
    rewrite A, A'. cbn [app].
    assert (E : snd (alone h0 i) = snd (alone h0' i)).
    { unfold alone, exec_prog. apply exec_local. intros l Hl. apply Ha. apply confined. exact Hl. }
    clear A A'. induction order as [|j t IH]; [destruct Hi|]. cbn.
    inversion ND as [|? ? Hn ND']; subst.
    destruct (Nat.eqb_spec i j) as [->|Hne]; [now rewrite E|].
    destruct Hi as [->|Hi]; [congruence|]. apply IH; assumption.
  Qed.
End Sched.

(** ** the constructors allocate disjoint footprints *)
Lemma footprint_in s i l : In l (footprint s i) <-> (i * chain_size s <= l < i * chain_size s + chain_size s)%nat.
Proof. unfold footprint. rewrite in_seq. lia. Qed.

Theorem footprints_disjoint s i j l : i <> j -> In l (footprint s i) -> ~ In l (footprint s j).
Proof. rewrite !footprint_in. intros Hne H1 H2. nia. Qed.

Theorem wiring_in_footprint s i t q :
  (t < nlevels s)%nat -> (q < nprops s)%nat ->
  In (gen_loc s i) (footprint s i) /\ In (ann_loc s i) (footprint s i) /\ In (prop_loc s i t q) (footprint s i).
Proof.
  intros Ht Hq. rewrite !footprint_in. unfold gen_loc, ann_loc, prop_loc, chain_size. repeat split; try lia; nia.
Qed.

(** distinct proposal copies for distinct (level, constituent) *)
Theorem prop_locs_distinct s i t q t' q' :
  (q < nprops s)%nat -> (q' < nprops s)%nat -> prop_loc s i t q = prop_loc s i t' q' -> t = t' /\ q = q'.
Proof. unfold prop_loc. intros Hq Hq' E. assert (t = t') by nia. subst. split; [reflexivity|lia]. Qed.

(** ** C04: every random decision of chain i comes from chain i's stream; streams differ between chains *)
Theorem provenance seed s i x : (0 < chain_size s)%nat ->
  gen_label seed s (site_gen s i x) = Spawn seed i.
Proof.
  intros Hs. unfold gen_label, site_gen, gen_loc. f_equal. apply Nat.div_mul. lia.
Qed.

Theorem streams_distinct seed s i j x y : (0 < chain_size s)%nat -> i <> j ->
  gen_label seed s (site_gen s i x) <> gen_label seed s (site_gen s j y) /\ site_gen s i x <> site_gen s j y.
Proof.
  intros Hs Hne. rewrite !provenance by exact Hs. split; [congruence|].
  unfold site_gen, gen_loc. nia.
Qed.

(** the default proposal's parameters: a function of the sampler's parameter tuple and the covered
    set only, in the sampler's order; in particular independent of any enumeration order of sets *)
Lemma missing_spec params given p : In p (missing params given) <-> In p params /\ ~ In p given.
Proof.
  induction params as [|a t IH]; cbn; [tauto|].
  destruct (existsb (Nat.eqb a) given) eqn:E.
  - rewrite IH. apply existsb_exists in E as (y & Hy & Ey). apply Nat.eqb_eq in Ey. subst y. split.
    + intros [H1 H2]. auto.
    + intros [[->|H1] H2]; [contradiction|auto].
  - assert (Hn : ~ In a given).
    { intros Hi. assert (existsb (Nat.eqb a) given = true) by (apply existsb_exists; exists a; split; [exact Hi|apply Nat.eqb_refl]). congruence. }
    cbn. rewrite IH. split.
    + intros [<-|[H1 H2]]; auto.
    + intros [[->|H1] H2]; auto.
Qed.
Theorem missing_order_free params given given' :
  (forall p, In p given <-> In p given') -> missing params given = missing params given'.
Proof.
  intros H. induction params as [|a t IH]; cbn; [reflexivity|]. rewrite IH.
  assert (E : existsb (Nat.eqb a) given = existsb (Nat.eqb a) given').
  { apply Bool.eq_true_iff_eq. rewrite !existsb_exists. split; intros (y & Hy & Ey); exists y; split; auto; apply H; exact Hy. }
  now rewrite E.
Qed.
Theorem missing_sorted_as_params params given : exists keep, missing params given = filter keep params.
Proof.
  exists (fun p => negb (existsb (Nat.eqb p) given)).
  induction params as [|a t IH]; cbn; [reflexivity|]. rewrite IH. destruct (existsb (Nat.eqb a) given); reflexivity.
Qed.

(** ** the code as it was: one annealer shared by all chains *)
Definition progs2 : list (list prim) :=
  [[{| p_loc := 0%nat; p_k := 3 |}; {| p_loc := 1%nat; p_k := 5 |}];      (* chain 0: draw, update the annealer *)
   [{| p_loc := 4%nat; p_k := 7 |}; {| p_loc := 1%nat; p_k := 2 |}]].     (* chain 1: draw, update the SAME annealer *)
Definition s2 : spec := {| nchains := 2; nlevels := 1; nprops := 2 |}.
Definition h00 : heap := fun _ => 0.

Theorem shared_annealer_serial_differs_from_copy :
  out_of 1 (snd (run_serial progs2 [0; 1]%nat h00 []))
  <> out_of 1 (snd (run_copy progs2 [footprint_shared s2 0; footprint_shared s2 1] [0; 1]%nat h00 h00 [])).
Proof. vm_compute. discriminate. Qed.

Theorem shared_annealer_order_matters :
  out_of 1 (snd (run_serial progs2 [0; 1]%nat h00 [])) <> out_of 1 (snd (run_serial progs2 [1; 0]%nat h00 [])).
Proof. vm_compute. discriminate. Qed.

Example shared_footprints_meet : In 1%nat (footprint_shared s2 0) /\ In 1%nat (footprint_shared s2 1).
Proof. vm_compute. tauto. Qed.

(** non-vacuity: with the annealer copied per chain the same two programs are confined to disjoint footprints *)
Definition progs2' : list (list prim) :=
  [[{| p_loc := gen_loc s2 0; p_k := 3 |}; {| p_loc := ann_loc s2 0; p_k := 5 |}];
   [{| p_loc := gen_loc s2 1; p_k := 7 |}; {| p_loc := ann_loc s2 1; p_k := 2 |}]].
Example copied_annealer_pool_independent :
  snd (run_serial progs2' [0; 1]%nat h00 []) = snd (run_copy progs2' [footprint s2 0; footprint s2 1] [0; 1]%nat h00 h00 [])
  /\ out_of 1 (snd (run_serial progs2' [1; 0]%nat h00 [])) = out_of 1 (snd (run_serial progs2' [0; 1]%nat h00 [])).
Proof. vm_compute. split; reflexivity. Qed.
