(** Theorem instance: Coq's real numbers.  Comparisons go through the decision procedures of
    [Reals]; there is no NaN and no infinity among the reals. *)
From Coq Require Import Reals ZArith Lra.
From Epsie Require Import Num.
Local Open Scope R_scope.

Definition Rltb (x y : R) : bool := if Rlt_dec x y then true else false.
Definition Rleb (x y : R) : bool := if Rle_dec x y then true else false.
Definition Reqb (x y : R) : bool := if Req_EM_T x y then true else false.

#[export] Instance NumReal : Num R := {|
  nzero := 0; none := 1;
  nadd := Rplus; nsub := Rminus; nmul := Rmult; ndiv := Rdiv; nopp := Ropp;
  nexp := exp; nln := ln; nsqrt := sqrt;
  nltb := Rltb; nleb := Rleb; neqb := Reqb;
  nisnan := fun _ => false; nisneginf := fun _ => false;
  nofZ := IZR
|}.

Lemma Rltb_true x y : Rltb x y = true <-> x < y.
Proof. unfold Rltb. destruct (Rlt_dec x y); split; auto; discriminate. Qed.
Lemma Rltb_false x y : Rltb x y = false <-> y <= x.
Proof. unfold Rltb. destruct (Rlt_dec x y); split; intros; try discriminate; try reflexivity; lra. Qed.
Lemma Rleb_true x y : Rleb x y = true <-> x <= y.
Proof. unfold Rleb. destruct (Rle_dec x y); split; auto; discriminate. Qed.
Lemma Rleb_false x y : Rleb x y = false <-> y < x.
Proof. unfold Rleb. destruct (Rle_dec x y); split; intros; try discriminate; try reflexivity; lra. Qed.
