(** Well-formedness of transdimensional states (C10) and its preservation by the jump,
    by accept/reject, by temperature sweeps (exchange of whole (position, active set) pairs)
    and by the re-derivation of the active set from the NaN pattern (start, clear, resume). *)
From Coq Require Import ZArith Lia Permutation.
From Epsie Require Import Base TD.
Local Open Scope Z_scope.

Section TD.
  Variable V : Type.
  Variable isnan : V -> bool.
  Variable nan : V.
  Hypothesis nan_isnan : isnan nan = true.

  Notation tdpos := (tdpos V).
  Notation td_jump := (td_jump V nan).
  Notation all_nan := (all_nan V isnan). Notation all_finite := (all_finite V isnan).
  Notation pattern_of := (pattern_of V isnan).

  (** index = number of active components, within the index proposal's bounds; inactive components
      are NaN in every parameter, active ones finite in every parameter *)
  Record WF (lo hi : Z) (x : tdpos) (a : list bool) : Prop := {
    wf_len : length (vals V x) = length a;
    wf_count : kidx V x = Z.of_nat (count_true a);
    wf_range : lo <= kidx V x <= hi;
    wf_off : forall c, (c < length a)%nat -> nth c a false = false -> all_nan (nth c (vals V x) []) = true;
    wf_on : forall c, (c < length a)%nat -> nth c a false = true ->
            all_finite (nth c (vals V x) []) = true /\ nth c (vals V x) [] <> []
  }.

  (** ** counting *)
  Definition b2n (b : bool) : nat := if b then 1%nat else 0%nat.
  Lemma count_cons b l : count_true (b :: l) = (b2n b + count_true l)%nat.
  Proof. unfold count_true. destruct b; reflexivity. Qed.

  Lemma count_upd (l : list bool) m b : (m < length l)%nat ->
    (count_true (upd l m b) + b2n (nth m l false) = count_true l + b2n b)%nat.
  Proof.
    revert m; induction l as [|h t IH]; intros m Hm; cbn in Hm; [lia|].
    destruct m; cbn [upd nth]; rewrite !count_cons; [lia|]. specialize (IH m ltac:(lia)). lia.
  Qed.

  Lemma flip_length a mk : length (flip a mk) = length a.
  Proof. unfold flip. revert a; induction mk as [|m ms IH]; intros a; cbn; [reflexivity|]. now rewrite IH, upd_length. Qed.

  Lemma flip_nth mk : forall a c, NoDup mk -> (forall m, In m mk -> (m < length a)%nat) ->
    nth c (flip a mk) false = if existsb (Nat.eqb c) mk then negb (nth c a false) else nth c a false.
  Proof.
    unfold flip. induction mk as [|m ms IH]; intros a c ND Hr; cbn [fold_left existsb]; [reflexivity|].
    inversion ND as [|? ? Hnot ND']; subst.
    rewrite IH; [|exact ND'|intros m' Hm'; rewrite upd_length; apply Hr; now right].
    destruct (Nat.eqb_spec c m) as [->|Hne]; cbn [orb].
    - assert (E : existsb (Nat.eqb m) ms = false).
      { destruct (existsb (Nat.eqb m) ms) eqn:E; [|reflexivity]. apply existsb_exists in E as (y & Hy & Ey).
        apply Nat.eqb_eq in Ey. subst. contradiction. }
      rewrite E. apply nth_upd_eq. apply Hr. now left.
    - rewrite nth_upd_neq by congruence. reflexivity.
  Qed.

  (** switching on [mk] distinct inactive components adds [|mk|] to the count; switching off subtracts *)
  Lemma flip_count mk : forall a (v : bool), NoDup mk ->
    (forall m, In m mk -> (m < length a)%nat /\ nth m a false = v) ->
    (count_true (flip a mk) + (if v then length mk else 0) = count_true a + (if v then 0 else length mk))%nat.
  Proof.
    unfold flip. induction mk as [|m ms IH]; intros a v ND Hr; cbn [fold_left length]; [destruct v; lia|].
    inversion ND as [|? ? Hnot ND']; subst.
    destruct (Hr m (or_introl eq_refl)) as (Hm & Ev).
    assert (Hr' : forall m', In m' ms -> (m' < length (upd a m (negb (nth m a false))))%nat
                                  /\ nth m' (upd a m (negb (nth m a false))) false = v).
    { intros m' Hm'. rewrite upd_length. destruct (Hr m' (or_intror Hm')) as (A & B). split; [exact A|].
      rewrite nth_upd_neq; [exact B|]. intros ->. contradiction. }
    specialize (IH _ v ND' Hr').
    pose proof (count_upd a m (negb (nth m a false)) Hm) as C. rewrite Ev in *.
    destruct v; cbn in *; lia.
  Qed.

  (** ** the jump *)
  Lemma combine3_nth (n : nat) (vs : list (list V)) (a a' : list bool) c d :
    length vs = n -> length a = n -> length a' = n -> (c < n)%nat ->
    nth c (combine (seq 0 n) (combine vs (combine a a'))) d = (c, (nth c vs [], (nth c a false, nth c a' false))).
  Proof.
    intros H1 H2 H3 Hc.
    rewrite (nth_indep _ d (0%nat, ([], (false, false)))) by (rewrite !combine_length, seq_length; lia).
    rewrite !combine_nth; rewrite ?combine_length, ?seq_length; try lia.
    rewrite seq_nth by lia. reflexivity.
  Qed.

  Lemma all_nan_map_nan (old : list V) : all_nan (map (fun _ => nan) old) = true.
  Proof. unfold TD.all_nan. induction old; cbn; [reflexivity|]. now rewrite nan_isnan. Qed.

  Definition good_draw (n : nat) (l : list (list V)) : Prop :=
    length l = n /\ forall c, (c < n)%nat -> all_finite (nth c l []) = true /\ nth c l [] <> [].

  Theorem td_jump_wf lo hi (x : tdpos) (a : list bool) (i : tdin V) :
    WF lo hi x a ->
    lo <= new_k V i <= hi ->
    let dk := new_k V i - kidx V x in
    (dk <> 0 -> NoDup (mask V i) /\ Z.of_nat (length (mask V i)) = Z.abs dk
                /\ forall m, In m (mask V i) -> (m < length a)%nat /\ nth m a false = (dk <? 0)) ->
    good_draw (length a) (births V i) -> good_draw (length a) (jumps V i) ->
    WF lo hi (fst (td_jump x a i)) (snd (td_jump x a i)).
  Proof.
    intros [Hl Hc Hr Hoff Hon] Hk dk Hmask Hb Hj.
    unfold TD.td_jump. fold dk. cbn [fst snd].
    set (a' := if dk =? 0 then a else flip a (mask V i)).
    assert (Hl' : length a' = length a) by (unfold a'; destruct (dk =? 0); [reflexivity|apply flip_length]).
    assert (Hcount : Z.of_nat (count_true a') = Z.of_nat (count_true a) + dk).
    { unfold a'. destruct (Z.eqb_spec dk 0) as [E|E]; [lia|].
      destruct (Hmask E) as (ND & Hlen & Hm).
      pose proof (flip_count (mask V i) a (dk <? 0) ND Hm) as C.
      destruct (Z.ltb_spec dk 0); lia. }
    assert (Hnth : forall c, (c < length a)%nat ->
              nth c a' false = if (negb (dk =? 0)) && existsb (Nat.eqb c) (mask V i) then negb (nth c a false) else nth c a false).
    { intros c Hc'. unfold a'. destruct (Z.eqb_spec dk 0) as [E|E]; cbn [negb andb]; [reflexivity|].
      destruct (Hmask E) as (ND & _ & Hm). apply flip_nth; [exact ND|]. intros m Hm'. apply (Hm m Hm'). }
    (* a flipped component was inactive when dk > 0 and active when dk < 0 *)
    assert (Hdir : forall c, (c < length a)%nat -> nth c a' false <> nth c a false -> nth c a false = (dk <? 0) /\ dk <> 0).
    { intros c Hc' Hne. rewrite (Hnth c Hc') in Hne.
      destruct (Z.eqb_spec dk 0) as [E|E]; cbn [negb andb] in Hne; [congruence|].
      destruct (existsb (Nat.eqb c) (mask V i)) eqn:Ex; [|congruence].
      apply existsb_exists in Ex as (m & Hm & Em). apply Nat.eqb_eq in Em. subst m.
      destruct (Hmask E) as (_ & _ & Hm'). split; [apply (Hm' c Hm)|exact E]. }
    set (f := fun '(c, (old, (was, is))) =>
                if (was : bool) && (is : bool) then nth c (jumps V i) old
                else if negb was && is && (0 <? dk) then nth c (births V i) old
                else if was && negb is && (dk <? 0) then map (fun _ : V => nan) old else old).
    assert (Hnv : forall c, (c < length a)%nat ->
              nth c (map f (combine (seq 0 (length a)) (combine (vals V x) (combine a a')))) []
              = f (c, (nth c (vals V x) [], (nth c a false, nth c a' false)))).
    { intros c Hc'. rewrite (nth_indep _ [] (f (0%nat, ([], (false, false))))) by
        (rewrite map_length, !combine_length, seq_length; lia).
      rewrite map_nth. f_equal. apply combine3_nth; auto. }
    constructor; cbn [vals kidx].
    - rewrite map_length, !combine_length, seq_length. lia.
    - rewrite Hcount, <- Hc. unfold dk. lia.
    - exact Hk.
    - intros c Hc' Hoff'. rewrite Hl' in Hc'. rewrite (Hnv c Hc'). unfold f. rewrite Hoff'.
      destruct (nth c a false) eqn:Ea; cbn [andb negb].
      + (* was active, now inactive: a death, dk < 0 *)
        destruct (Hdir c Hc') as (E1 & E2); [congruence|].
        rewrite Ea in E1. rewrite <- E1. apply all_nan_map_nan.
      + apply Hoff; assumption.
    - intros c Hc' Hon'. rewrite Hl' in Hc'. rewrite (Hnv c Hc'). unfold f. rewrite Hon'.
      destruct (nth c a false) eqn:Ea; cbn [andb negb].
      + destruct Hj as (Hjl & Hj). rewrite (nth_indep _ _ []) by lia. apply Hj. exact Hc'.
      + (* was inactive, now active: a birth, dk > 0 *)
        destruct (Hdir c Hc') as (E1 & E2); [congruence|].
        rewrite Ea in E1. assert (0 < dk) by (destruct (Z.ltb_spec dk 0); [discriminate|lia]).
        replace (0 <? dk) with true by (symmetry; apply Z.ltb_lt; assumption).
        destruct Hb as (Hbl & Hb). rewrite (nth_indep _ _ []) by lia. apply Hb. exact Hc'.
  Qed.

  (** accept or reject: either pair is well formed *)
  Corollary td_step_wf lo hi x a i accept :
    WF lo hi x a -> lo <= new_k V i <= hi ->
    (new_k V i - kidx V x <> 0 -> NoDup (mask V i) /\ Z.of_nat (length (mask V i)) = Z.abs (new_k V i - kidx V x)
        /\ forall m, In m (mask V i) -> (m < length a)%nat /\ nth m a false = (new_k V i - kidx V x <? 0)) ->
    good_draw (length a) (births V i) -> good_draw (length a) (jumps V i) ->
    WF lo hi (fst (td_step V nan x a i accept)) (snd (td_step V nan x a i accept)).
  Proof. intros. unfold td_step. destruct accept; [now apply td_jump_wf|assumption]. Qed.

  (** the active set of a well-formed state is the NaN pattern of its position: what
      [_activate_proposals] recomputes on start, clear and resume is what the chain already holds *)
  Theorem wf_pattern lo hi x a : WF lo hi x a -> pattern_of x = a.
  Proof.
    intros [Hl _ _ Hoff Hon]. unfold TD.pattern_of.
    apply (nth_ext _ _ false false); [now rewrite map_length|].
    intros c Hc. rewrite map_length in Hc.
    rewrite (nth_indep _ false ((fun vs => negb (all_nan vs)) [])) by (rewrite map_length; exact Hc).
    rewrite (map_nth (fun vs => negb (all_nan vs))). cbv beta.
    rewrite Hl in Hc. destruct (nth c a false) eqn:Ea.
    - destruct (Hon c Hc Ea) as (Hf & Hne). destruct (nth c (vals V x) []) as [|v vs]; [congruence|].
      cbn in *. apply andb_prop in Hf as [Hv _]. destruct (isnan v); [discriminate|reflexivity].
    - rewrite (Hoff c Hc Ea). reflexivity.
  Qed.

  (** a temperature sweep exchanges whole (position, active set) pairs: every level is well formed
      afterwards *)
  Theorem swap_wf lo hi (lv : list (tdpos * list bool)) (idx : list nat) :
    Forall (fun p => WF lo hi (fst p) (snd p)) lv ->
    Forall (fun k => (k < length lv)%nat) idx ->
    Forall (fun p => WF lo hi (fst p) (snd p)) (map (fun k => nth k lv ({| vals := []; kidx := 0 |}, [])) idx).
  Proof.
    intros H Hi. apply Forall_forall. intros p Hp. apply in_map_iff in Hp as (k & <- & Hk).
    rewrite Forall_forall in H, Hi. apply H. apply nth_In. apply Hi. exact Hk.
  Qed.

  (** any history of steps (accepted or not), starting from a well-formed state *)
  Definition legal (lo hi : Z) (x : tdpos) (a : list bool) (i : tdin V) : Prop :=
    lo <= new_k V i <= hi
    /\ (new_k V i - kidx V x <> 0 -> NoDup (mask V i) /\ Z.of_nat (length (mask V i)) = Z.abs (new_k V i - kidx V x)
        /\ forall m, In m (mask V i) -> (m < length a)%nat /\ nth m a false = (new_k V i - kidx V x <? 0))
    /\ good_draw (length a) (births V i) /\ good_draw (length a) (jumps V i).

  Fixpoint td_run (x : tdpos) (a : list bool) (h : list (tdin V * bool)) : tdpos * list bool :=
    match h with
    | [] => (x, a)
    | (i, acc) :: t => let '(x', a') := td_step V nan x a i acc in td_run x' a' t
    end.

  Fixpoint legal_run lo hi (x : tdpos) (a : list bool) (h : list (tdin V * bool)) : Prop :=
    match h with
    | [] => True
    | (i, acc) :: t => legal lo hi x a i /\ let '(x', a') := td_step V nan x a i acc in legal_run lo hi x' a' t
    end.

  Theorem td_run_wf lo hi h : forall x a, WF lo hi x a -> legal_run lo hi x a h ->
    WF lo hi (fst (td_run x a h)) (snd (td_run x a h)).
  Proof.
    induction h as [|[i acc] t IH]; intros x a HW HL; cbn in *; [exact HW|].
    destruct HL as ((L1 & L2 & L3 & L4) & HL).
    pose proof (td_step_wf lo hi x a i acc HW L1 L2 L3 L4) as HW'.
    destruct (td_step V nan x a i acc) as [x' a']. cbn in HW'. apply IH; assumption.
  Qed.
End TD.
