(** Concrete machine states used as non-vacuity examples and refutation witnesses
    (values are [nat]; 999 plays -inf). *)
From Coq Require Import ZArith Lia.
From Epsie Require Import Base Machine Machine_proofs Sweep_proofs PT_proofs.

Definition xneginf (v : nat) : bool := Nat.eqb v 999.
Definition xnan (v : nat) : bool := false.
Notation xexec := (exec nat xneginf xnan 0 []).
Notation xexecs := (execs nat xneginf xnan 0 []).

Definition xs (prop : nat) (logl : nat) (acc : bool) : sin nat :=
  {| s_prop := [prop]; s_state := []; s_out := (logl, 1, None); s_dec := Some (acc, 5) |}.

(** three levels, swap interval 3: start, run 4, clear (at a non-multiple of 3), run 2 *)
Definition ex_ops : list (op nat) :=
  [ OStart nat [([10], (100, 1, None)); ([20], (200, 1, None)); ([30], (300, 1, None))];
    ORun nat [ ([xs 11 101 true; xs 21 201 false; xs 31 301 true], []);
               ([xs 12 102 false; xs 22 202 true; xs 32 302 true], []);
               ([xs 13 103 true; xs 23 203 true; xs 33 303 false], [(7, true); (8, false)]);
               ([xs 14 104 true; xs 24 204 true; xs 34 304 true], []) ];
    OClear nat;
    ORun nat [ ([xs 15 105 true; xs 25 205 false; xs 35 305 true], []);
               ([xs 16 106 false; xs 26 206 true; xs 36 306 true], [(9, true); (6, true)]) ] ].

Definition ex_final : result (ptchain nat) := xexecs (new_pt nat 3 3) ex_ops.

(** sweeps made since the last clear of a chain *)
Definition sweeps_since_clear {V} (p : ptchain V) : list (nat * list nat * list V) :=
  filter (fun s => Nat.ltb (lastclear V (lvl0 V p)) (fst (fst s))) (sweeps V p).
