(** C10 correspondence: one real [NestedTransdimensional._jump] per case.  Values are interned
    integers (-2 = NaN).  A case gives the current position and active set, what the oracle
    returned (new index, chosen components, births, in-model jumps) and what the implementation
    produced; the model must produce the same. *)
From Coq Require Import ZArith.
From Epsie Require Import Base TD.
Local Open Scope Z_scope.

Definition isnan (v : Z) : bool := v =? -2.
Definition nan : Z := -2.

Fixpoint zs_eqb (a b : list Z) : bool :=
  match a, b with [], [] => true | x :: a', y :: b' => (x =? y) && zs_eqb a' b' | _, _ => false end.
Fixpoint zss_eqb (a b : list (list Z)) : bool :=
  match a, b with [], [] => true | x :: a', y :: b' => zs_eqb x y && zss_eqb a' b' | _, _ => false end.
Fixpoint bs_eqb (a b : list bool) : bool :=
  match a, b with [], [] => true | x :: a', y :: b' => Bool.eqb x y && bs_eqb a' b' | _, _ => false end.

Record case := C {
  c_vals : list (list Z); c_k : Z; c_act : list bool;
  c_newk : Z; c_mask : list nat; c_births : list (list Z); c_jumps : list (list Z);
  o_vals : list (list Z); o_k : Z; o_state : list bool
}.

Definition check (c : case) : bool :=
  let '(x', a') := td_jump Z nan {| vals := c_vals c; kidx := c_k c |} (c_act c)
                     {| new_k := c_newk c; mask := c_mask c; births := c_births c; jumps := c_jumps c |} in
  zss_eqb (vals Z x') (o_vals c) && (kidx Z x' =? o_k c) && bs_eqb a' (o_state c).

Fixpoint failing_from (i : nat) (cs : list case) : list nat :=
  match cs with [] => [] | c :: t => if check c then failing_from (S i) t else i :: failing_from (S i) t end.
Definition failing (cs : list case) : list nat := failing_from 0 cs.

(** decidable well-formedness, used to re-check the premises on the generated inputs *)
Definition wfb (lo hi : Z) (v : list (list Z)) (k : Z) (a : list bool) : bool :=
  (length v =? length a)%nat && (k =? Z.of_nat (count_true a)) && (lo <=? k) && (k <=? hi)
  && forallb (fun '(vs, on) => if on : bool then all_finite Z isnan vs && negb (match vs with [] => true | _ => false end)
                               else all_nan Z isnan vs) (combine v a).
