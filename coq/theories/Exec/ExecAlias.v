(** Comparator for the C16/C19 correspondence: contents of every object (samplers' adaptive
    arrays, handed-out state objects, stored initial values) after every operation, as the
    copying semantics predicts them, against the real objects. *)
From Coq Require Import ZArith List Bool.
From Epsie Require Import Base Alias.
Import ListNotations.

Fixpoint arr_eqb (a b : arr) : bool :=
  match a, b with
  | [], [] => true
  | x :: a', y :: b' => Z.eqb x y && arr_eqb a' b'
  | _, _ => false
  end.
Fixpoint arrs_eqb (a b : list arr) : bool :=
  match a, b with
  | [], [] => true
  | x :: a', y :: b' => arr_eqb x y && arrs_eqb a' b'
  | _, _ => false
  end.
Fixpoint all_eqb (a b : list (list arr)) : bool :=
  match a, b with
  | [], [] => true
  | x :: a', y :: b' => arrs_eqb x y && all_eqb a' b'
  | _, _ => false
  end.

(** observation: contents of all samplers, all state objects, all stored initial values *)
Definition obs := (list (list arr) * list (list arr) * list (list arr))%type.
Definition observe (w : world) : obs :=
  (map (sampler_contents w) (seq 0 (length (regs w))),
   map (state_contents w) (seq 0 (length (states w))),
   map (init_contents w) (seq 0 (length (inits w)))).
Definition obs_eqb (a b : obs) : bool :=
  let '(a1, a2, a3) := a in let '(b1, b2, b3) := b in all_eqb a1 b1 && all_eqb a2 b2 && all_eqb a3 b3.

(** a case: constructed values per sampler, then (operations making up one harness step, observation after them) *)
Definition case := (list (list arr) * list (list op * obs))%type.

Fixpoint first_diff (w : world) (k : nat) (l : list (list op * obs)) : nat :=
  match l with
  | [] => 0
  | (ops, o) :: t => let w' := execs true true w ops in
                     if obs_eqb (observe w') o then first_diff w' (S k) t else S k
  end.

Fixpoint failing_from (i : nat) (cs : list case) : list (nat * nat) :=
  match cs with
  | [] => []
  | (vals, l) :: t => match first_diff (construct vals) 0 l with
                      | O => failing_from (S i) t
                      | S k => (i, k) :: failing_from (S i) t
                      end
  end.
Definition failing (cs : list case) : list (nat * nat) := failing_from 0 cs.

(** C16 layout: registers are the leaves of the whole state dict; resets are not part of these
    cases, so the stored initial values are not observed (third component ignored). *)
Definition obs_eqb16 (a b : obs) : bool :=
  let '(a1, a2, _) := a in let '(b1, b2, _) := b in all_eqb a1 b1 && all_eqb a2 b2.
Fixpoint first_diff16 (w : world) (k : nat) (l : list (list op * obs)) : nat :=
  match l with
  | [] => 0
  | (ops, o) :: t => let w' := execs true true w ops in
                     if obs_eqb16 (observe w') o then first_diff16 w' (S k) t else S k
  end.
Fixpoint failing16_from (i : nat) (cs : list case) : list (nat * nat) :=
  match cs with
  | [] => []
  | (vals, l) :: t => match first_diff16 (construct vals) 0 l with
                      | O => failing16_from (S i) t
                      | S k => (i, k) :: failing16_from (S i) t
                      end
  end.
Definition failing16 (cs : list case) : list (nat * nat) := failing16_from 0 cs.

(** C19, parallel tempering with reset_after_swap: (levels, decisions hottest pair first,
    observed swap_index, observed list of reset levels) *)
From Epsie Require Machine.
Definition sweep_idx := Machine.sweep_idx.
Definition reset_levels := Machine.reset_levels.
Definition rcase := (nat * list bool * list nat * list nat)%type.
Fixpoint nats_eqb (a b : list nat) : bool :=
  match a, b with
  | [], [] => true
  | x :: a', y :: b' => Nat.eqb x y && nats_eqb a' b'
  | _, _ => false
  end.
Fixpoint failing_reset_from (i : nat) (cs : list rcase) : list nat :=
  match cs with
  | [] => []
  | (n, ds, idx, rs) :: t =>
      let m := sweep_idx (n - 1) (seq 0 n) ds in
      if nats_eqb m idx && nats_eqb (reset_levels m) rs then failing_reset_from (S i) t
      else i :: failing_reset_from (S i) t
  end.
Definition failing_reset (cs : list rcase) : list nat := failing_reset_from 0 cs.
