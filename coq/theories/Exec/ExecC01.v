(** Comparator for the C01 correspondence: the float instance of [mh_step] against the
    implementation's decision on the same inputs. *)
From Coq Require Import ZArith List PrimFloat.
From Epsie Require Import Base FloatLib Num NumF MH.
Import ListNotations.

(** outcome observed on the implementation: 0 = raised NaN acceptance; otherwise (accepted, ar, used a uniform) *)
Inductive obs := ONaN | ODec (acc : bool) (ar : float) (used : bool).

(** a case: logp logl clogp clogl beta, optional (logq reverse, logq forward), u, observation *)
Definition case := (float * float * float * float * float * option (float * float) * float * obs)%type.

(** 0 = agree; 1 = acceptance differs; 2 = ratio differs; 3 = uniform consumption differs; 4 = NaN/raise differs *)
Definition case_code (c : case) : nat :=
  let '(logp, logl, clogp, clogl, beta, h, u, o) := c in
  match mh_step logp logl clogp clogl beta h u, o with
  | NaNAcceptance, ONaN => 0
  | Decided acc ar used, ODec acc' ar' used' =>
      if negb (fclose ar ar') then 2
      else if negb (Bool.eqb used used') then 3
      else if Bool.eqb acc acc' then 0
      else if fclose u ar then 0            (* u within 1e-9 of the threshold: undecidable at float accuracy *)
      else 1
  | _, _ => 4
  end.

Fixpoint failing_from (i : nat) (cs : list case) : list (nat * nat) :=
  match cs with
  | [] => []
  | c :: t => match case_code c with
              | O => failing_from (S i) t
              | S k => (i, S k) :: failing_from (S i) t
              end
  end.
Definition failing (cs : list case) : list (nat * nat) := failing_from 0 cs.
