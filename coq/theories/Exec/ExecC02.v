(** C02 / C12 correspondence: the float instance of [Dens] against real logpdf()/jump() calls. *)
From Coq Require Import ZArith List Bool PrimFloat.
From Epsie Require Import Base FloatLib FloatLib2 Num NumF Dens.
Import ListNotations.
Local Open Scope float_scope.

Definition rnd_even (z : float) : Z := Zfloor (fround z).
Definition floorceil (z : float) : Z := Zfloor (fsign z * fceil (abs z)).

Definition fnd_logpmf1 := @nd_logpmf1 float _ fmass.
Definition fnd_jump1 := @nd_jump1 float rnd_even floorceil.
Definition fbd_logpmf1 := @bd_logpmf1 float _ fmass.
Definition fbd_jump1 := @bd_jump1 float rnd_even floorceil.
Definition fbn_logpdf1 := @bn_logpdf1 float _ fmass ln_sqrt_2pi.
Definition fn_logpdf1 := @n_logpdf1 float _ ln_sqrt_2pi.
Definition fang_logpdf1 := @ang_logpdf1 float _ fmass ln_sqrt_2pi fpi fpymod.
Definition fang_jump1 := @ang_jump1 float _ fpi fpymod.
Definition feig_logpdf := @eig_logpdf float _ ln_sqrt_2pi.
Definition fbeig_logpdf := @beig_logpdf float _ fmass ln_sqrt_2pi.
Definition fvmf_logpdf := @vmf_logpdf float _ fsin fcos.
Definition fvmf_jump := @vmf_jump float _ fpi fsin fcos facos fatan2.
Definition fubirth_logpdf1 := @ubirth_logpdf1 float _.
Definition fnbirth_logpdf1 := @nbirth_logpdf1 float _ ln_sqrt_2pi.
Definition flnbirth_logpdf1 := @lnbirth_logpdf1 float _ ln_sqrt_2pi.

Definition tol_close (a b : float) : bool :=
  if is_nanb a then is_nanb b else if is_nanb b then false
  else if PrimFloat.eqb a b then true
  else PrimFloat.leb (abs (a - b)) (1e-9 + 1e-8 * fmax (abs a) (abs b)).
Definition opt_close (m : option float) (o : float) : bool :=
  match m with None => PrimFloat.eqb o neg_infinity | Some v => tol_close v o end.
Definition pair_close (m o : float * float) : bool := tol_close (fst m) (fst o) && tol_close (snd m) (snd o).

Inductive case :=
| CND (succs : list bool) (stds : list float) (dxs : list Z) (obs : float)
| CNDJ (succ : bool) (x : Z) (draws : list float) (obs : Z) (n : nat)
| CBD (succs : list bool) (los his : list Z) (stds : list float) (mus xs : list Z) (obs : float)
| CBDJ (succ : bool) (lo hi x : Z) (draws : list float) (obs : Z) (n : nat)
| CBN (los his stds mus xs : list float) (obs : float)
| CBNJ (lo hi : float) (draws : list float) (obs : float) (n : nat)
| CN (stds xis givens : list float) (obs : float)
| CANG (stds xis givens : list float) (obs : float)
| CANGJ (x : float) (draws : list float) (obs : float) (n : nat)
| CEIG (s dx obs : float)
| CEIGJ (x v : list float) (dx : float) (obs : list float)
| CBEIG (s mu xi width obs : float)
| CVMF (kappa norm : float) (xi given : float * float) (obs : float)
| CVMFJ (kappa norm : float) (from : float * float) (u1 u2 : float) (obs : float * float)
| CUB (los his xs : list float) (obs : float)
| CNB (mus stds xs : list float) (obs : float)
| CLNB (mus stds xs : list float) (obs : float)
| CBNG (lo hi x : float) (refused : bool)
| CBDG (lo hi x : Z) (refused : bool).

Fixpoint zip3 {A B C} (a : list A) (b : list B) (c : list C) : list (A * B * C) :=
  match a, b, c with x :: a', y :: b', z :: c' => (x, y, z) :: zip3 a' b' c' | _, _, _ => [] end.
Fixpoint zip5 {A B C E F} (a : list A) (b : list B) (c : list C) (e : list E) (f : list F) : list (A * B * C * E * F) :=
  match a, b, c, e, f with x :: a', y :: b', z :: c', u :: e', v :: f' => (x, y, z, u, v) :: zip5 a' b' c' e' f' | _, _, _, _, _ => [] end.
Fixpoint zip6 {A B C E F G} (a : list A) (b : list B) (c : list C) (e : list E) (f : list F) (g : list G)
  : list (A * B * C * E * F * G) :=
  match a, b, c, e, f, g with
  | x :: a', y :: b', z :: c', u :: e', v :: f', w :: g' => (x, y, z, u, v, w) :: zip6 a' b' c' e' f' g'
  | _, _, _, _, _, _ => [] end.

Definition osum (l : list (option float)) : option float := sum_opt l 0.
Definition fl_eqb (a b : list float) : bool :=
  (Nat.eqb (length a) (length b)) && forallb (fun '(x, y) => tol_close x y) (combine a b).

Definition check (c : case) : bool :=
  match c with
  | CND succs stds dxs obs =>
      opt_close (osum (map (fun '(s, sd, dx) => fnd_logpmf1 s sd dx) (zip3 succs stds dxs))) obs
  | CNDJ succ x draws obs n =>
      match @nd_jump float rnd_even floorceil succ x draws with Some (v, k) => Z.eqb v obs && Nat.eqb k n | None => false end
  | CBD succs los his stds mus xs obs =>
      opt_close (osum (map (fun '(s, lo, hi, sd, mu, x) => fbd_logpmf1 s lo hi sd mu x) (zip6 succs los his stds mus xs))) obs
  | CBDJ succ lo hi x draws obs n =>
      match fbd_jump1 succ lo hi x draws with Some (v, k) => Z.eqb v obs && Nat.eqb k n | None => false end
  | CBN los his stds mus xs obs =>
      opt_close (osum (map (fun '(lo, hi, sd, mu, x) => fbn_logpdf1 lo hi sd mu x) (zip5 los his stds mus xs))) obs
  | CBNJ lo hi draws obs n =>
      match @bn_jump1 float _ lo hi draws with Some (v, k) => PrimFloat.eqb v obs && Nat.eqb k n | None => false end
  | CN stds xis givens obs =>
      tol_close (nsum (map (fun '(sd, xi, g) => fn_logpdf1 sd xi g) (zip3 stds xis givens))) obs
  | CANG stds xis givens obs =>
      opt_close (match osum (map (fun '(sd, xi, g) => fang_logpdf1 sd xi g) (zip3 stds xis givens)) with
                 | Some v => Some (v - fln fpi) | None => None end) obs
  | CANGJ x draws obs n =>
      match @ang_draw float _ draws with Some (z, k) => tol_close (fang_jump1 x z) obs && Nat.eqb k n | None => false end
  | CEIG s dx obs => tol_close (feig_logpdf s dx) obs
  | CEIGJ x v dx obs => fl_eqb (@eig_jump float _ x v dx) obs
  | CBEIG s mu xi width obs => opt_close (fbeig_logpdf s mu xi width) obs
  | CVMF kappa norm xi given obs => tol_close (fvmf_logpdf kappa norm xi given) obs
  | CVMFJ kappa norm from u1 u2 obs => pair_close (fvmf_jump kappa norm from u1 u2) obs
  | CUB los his xs obs => opt_close (osum (map (fun '(lo, hi, x) => fubirth_logpdf1 lo hi x) (zip3 los his xs))) obs
  | CNB mus stds xs obs => tol_close (nsum (map (fun '(mu, sd, x) => fnbirth_logpdf1 mu sd x) (zip3 mus stds xs))) obs
  | CLNB mus stds xs obs => opt_close (osum (map (fun '(mu, sd, x) => flnbirth_logpdf1 mu sd x) (zip3 mus stds xs))) obs
  | CBNG lo hi x refused =>
      Bool.eqb (match @bn_jump_from float _ lo hi x [x] with Refused => true | _ => false end) refused
  | CBDG lo hi x refused =>
      Bool.eqb (match @bd_jump_from float rnd_even floorceil true lo hi x [0] with Refused => true | _ => false end) refused
  end.

Fixpoint failing_from (i : nat) (cs : list case) : list nat :=
  match cs with [] => [] | c :: t => if check c then failing_from (S i) t else i :: failing_from (S i) t end.
Definition failing (cs : list case) : list nat := failing_from 0 cs.
