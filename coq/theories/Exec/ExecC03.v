(** Comparator for the C03 correspondence: the float instance of the sweep against real
    swap_temperatures() calls. *)
From Coq Require Import ZArith List PrimFloat.
From Epsie Require Import Base FloatLib Num NumF SweepNum.
Import ListNotations.

(** a case: betas, logls, scripted uniforms; observed swap_index, acceptance ratios, number of uniforms used *)
Definition case := (list float * list float * list float * (list nat * list float * nat))%type.

Fixpoint nats_eqb (a b : list nat) : bool :=
  match a, b with
  | [], [] => true
  | x :: a', y :: b' => Nat.eqb x y && nats_eqb a' b'
  | _, _ => false
  end.
Fixpoint floats_close (a b : list float) : bool :=
  match a, b with
  | [], [] => true
  | x :: a', y :: b' => fclose x y && floats_close a' b'
  | _, _ => false
  end.

(** 0 = agree; 1 = permutation differs; 2 = ratios differ; 3 = uniform consumption differs *)
Definition case_code (c : case) : nat :=
  let '(betas, logls, us, (idx', ars', used')) := c in
  let '(idx, ars, rest) := sweep betas logls us in
  if negb (floats_close ars ars') then 2
  else if negb (nats_eqb idx idx') then 1
  else if negb (Nat.eqb (length us - length rest) used') then 3
  else 0.

Fixpoint failing_from (i : nat) (cs : list case) : list (nat * nat) :=
  match cs with
  | [] => []
  | c :: t => match case_code c with
              | O => failing_from (S i) t
              | S k => (i, S k) :: failing_from (S i) t
              end
  end.
Definition failing (cs : list case) : list (nat * nat) := failing_from 0 cs.
