(** C07/C04 correspondence: the object graph of a real sampler against [Wiring.construct].
    Objects are numbered in order of first appearance; a case lists, chain by chain,
    [generator; annealer; proposal copies (level-major)], and per chain the generators used by
    its drawing sites, plus the number of mutable objects found reachable from two chains. *)
From Coq Require Import ZArith.
From Epsie Require Import Base Wiring.

Fixpoint index_of (x : nat) (l : list nat) (k : nat) : option nat :=
  match l with [] => None | y :: t => if Nat.eqb x y then Some k else index_of x t (S k) end.
(** rename by order of first appearance *)
Fixpoint canon_aux (l seen : list nat) : list nat :=
  match l with
  | [] => []
  | x :: t => match index_of x seen 0 with
              | Some k => k :: canon_aux t seen
              | None => length seen :: canon_aux t (seen ++ [x])
              end
  end.
Definition canon (l : list nat) : list nat := canon_aux l [].

Definition chain_objs (s : spec) (i : nat) : list loc :=
  gen_loc s i :: ann_loc s i ::
  flat_map (fun t => map (fun q => prop_loc s i t q) (seq 0 (nprops s))) (seq 0 (nlevels s)).
Definition layout (s : spec) : list loc := flat_map (chain_objs s) (seq 0 (nchains s)).

Fixpoint nats_eqb (a b : list nat) : bool :=
  match a, b with [], [] => true | x :: a', y :: b' => Nat.eqb x y && nats_eqb a' b' | _, _ => false end.

(** (nchains, nlevels, nprops, observed objects (canonical), per chain the canonical ids of the
    generators its sites use, number of mutable objects shared between chains) *)
Definition case := (nat * nat * nat * list nat * list (list nat) * nat)%type.

(** 1 = object graph differs from the constructed one, 2 = a drawing site uses a foreign generator,
    3 = a mutable object is reachable from two chains *)
Definition check (c : case) : nat :=
  let '(n, L, P, objs, sites, shared) := c in
  let s := {| nchains := n; nlevels := L; nprops := P |} in
  if negb (nats_eqb (canon (layout s)) objs) then 1
  else if negb (forallb (fun '(i, gs) => forallb (Nat.eqb (nth (i * chain_size s) objs 0)) gs) (combine (seq 0 n) sites)) then 2
  else if negb (Nat.eqb shared 0) then 3 else 0.

Fixpoint failing_from (i : nat) (cs : list case) : list (nat * nat) :=
  match cs with
  | [] => []
  | c :: t => match check c with O => failing_from (S i) t | k => (i, k) :: failing_from (S i) t end
  end.
Definition failing (cs : list case) : list (nat * nat) := failing_from 0 cs.

(** C04: the seed sequence of every chain's generator: (sampler seed, observed (entropy, spawn index) per chain) *)
Definition lcase := (Z * nat * nat * nat * list (Z * nat))%type.
Definition label_eqb (a : genlabel) (e : Z) (k : nat) : bool :=
  match a with Spawn s i => Z.eqb s e && Nat.eqb i k | Entropy _ => false end.
Definition check_labels (c : lcase) : bool :=
  let '(seed, n, L, P, obs) := c in
  let s := {| nchains := n; nlevels := L; nprops := P |} in
  Nat.eqb (length obs) n
  && forallb (fun '(i, (e, k)) => label_eqb (gen_label seed s (site_gen s i SSwap)) e k) (combine (seq 0 n) obs).
Fixpoint failing_labels_from (i : nat) (cs : list lcase) : list nat :=
  match cs with [] => [] | c :: t => if check_labels c then failing_labels_from (S i) t else i :: failing_labels_from (S i) t end.
Definition failing_labels (cs : list lcase) : list nat := failing_labels_from 0 cs.
