(** Encoders / comparator for the machine correspondence (values are interned as [Z]:
    0 = 0.0, -1 = -inf, -2 = NaN, other floats get positive ids). *)
From Coq Require Import ZArith.
From Epsie Require Import Base Machine.
Local Open Scope Z_scope.

Definition isneginf (v : Z) : bool := v =? -1.
Definition isnan (v : Z) : bool := v =? -2.

Definition encZ (l : list Z) : list Z := Z.of_nat (length l) :: l.
Definition enc_opt {T} (f : T -> list Z) (o : option T) : list Z :=
  match o with None => [0] | Some x => 1 :: f x end.
Definition enc_list {T} (f : T -> list Z) (l : list T) : list Z :=
  Z.of_nat (length l) :: concat (map f l).
Definition enc_stats (s : Z * Z) : list Z := [fst s; snd s].
Definition enc_bool (b : bool) : Z := if b then 1 else 0.
Definition enc_acc (a : Z * bool) : list Z := [fst a; enc_bool (snd a)].
Definition enc_nats (l : list nat) : list Z := encZ (map Z.of_nat l).

Section Obs.
  Variable comps : list (list nat).
  Notation chain := (chain Z). Notation ptchain := (ptchain Z).

  Definition enc_item (r : result (option (pos Z) * option (stats Z) * option (accrec Z) * option (blob Z))) : list Z :=
    match r with
    | Bad _ => [-1]
    | Good (p, s, a, b) => enc_opt encZ p ++ enc_opt enc_stats s ++ enc_opt enc_acc a ++ enc_opt encZ b
    end.

  Definition indices (n : nat) : list Z := map (fun k => Z.of_nat k - Z.of_nat n) (seq 0 (2 * n)).

  Definition obs_chain (c : chain) : list Z :=
    let n := clen Z c in
    [Z.of_nat (iter Z c); Z.of_nat (lastclear Z c); Z.of_nat n; enc_bool (hasblobs Z c)]
    ++ enc_list (enc_opt encZ) (firstn n (cP Z c))
    ++ enc_list (enc_opt enc_stats) (firstn n (cS Z c))
    ++ enc_list (enc_opt enc_acc) (firstn n (cA Z c))
    ++ (if hasblobs Z c then enc_list (enc_opt encZ) (firstn n (cB Z c)) else [0])
    ++ enc_opt encZ (cur_pos Z c) ++ enc_opt enc_stats (cur_stats Z c) ++ enc_opt encZ (cur_blob Z c)
    ++ enc_opt encZ (proposed Z c)
    ++ encZ (map enc_bool (active Z c))
    ++ [Z.of_nat (length (calls Z c))]
    ++ enc_list enc_item (map (getitem Z c) (indices n)).

  Definition obs_pt (p : ptchain) : list Z :=
    enc_list obs_chain (levels Z p)
    ++ enc_list (enc_opt enc_nats) (temperature_swaps Z p)
    ++ enc_list (enc_opt encZ) (temperature_acceptance Z p).

  Fixpoint zs_eqb (a b : list Z) : bool :=
    match a, b with
    | [], [] => true
    | x :: a', y :: b' => (x =? y) && zs_eqb a' b'
    | _, _ => false
    end.

  (** a case: number of levels, swap interval, (operation, observation after it) list.
      The observation [-9] stands for "the implementation raised". *)
  Definition case := (nat * nat * list (op Z * list Z))%type.

  (** index of the first operation after which model and implementation differ (0 = none; k+1 = op k) *)
  Fixpoint first_diff (p : ptchain) (k : nat) (l : list (op Z * list Z)) : nat :=
    match l with
    | [] => 0%nat
    | (o, expected) :: t =>
        match exec Z isneginf isnan 0 comps p o with
        | Bad _ => if zs_eqb expected [-9] then 0%nat else S k
        | Good p' => if zs_eqb (obs_pt p') expected then first_diff p' (S k) t else S k
        end
    end.
End Obs.

Definition case_diff (c : list (list nat) * (nat * nat * list (op Z * list Z))) : nat :=
  let '(comps, (n, swi, l)) := c in first_diff comps (new_pt Z n swi) 0 l.

Definition mcase := (list (list nat) * (nat * nat * list (op Z * list Z)))%type.

Fixpoint failing_from (i : nat) (cs : list mcase) : list (nat * nat) :=
  match cs with
  | [] => []
  | c :: t => match case_diff c with
              | O => failing_from (S i) t
              | S k => (i, k) :: failing_from (S i) t
              end
  end.
Definition failing (cs : list mcase) : list (nat * nat) := failing_from 0 cs.

(** debugging aid used by --replay: the model's observation after each op *)
Fixpoint model_obs (comps : list (list nat)) (p : ptchain Z) (l : list (op Z * list Z)) : list (list Z) :=
  match l with
  | [] => []
  | (o, _) :: t => match exec Z isneginf isnan 0 comps p o with
                   | Bad _ => [[-9]]
                   | Good p' => obs_pt p' :: model_obs comps p' t
                   end
  end.

(** short constructors for generated case files *)
Definition SI (p : list Z) (st : list bool) (o : Z * Z * option (list Z)) (d : option (bool * Z)) : sin Z :=
  Build_sin Z p st o d.
Definition CS (it : nat) (p pr : option (list Z)) (st : option (Z * Z)) (hb : bool) (bl : option (list Z)) : cstate Z :=
  Build_cstate Z it p pr st hb bl.
Definition Start (ss : list (list Z * (Z * Z * option (list Z)))) : op Z := OStart Z ss.
Definition Run (steps : list (list (sin Z) * list (Z * bool))) : op Z := ORun Z steps.
Definition Clr : op Z := OClear Z.
Definition SetSt (ss : list (cstate Z)) : op Z := OSetState Z ss.
