(** Comparator for the C13/C14 correspondence: the float instance of the adaptation updates
    against real [_update] calls. *)
From Coq Require Import ZArith List PrimFloat.
From Epsie Require Import Base FloatLib Num NumF Adapt.
Import ListNotations.

Fixpoint fclose_list (a b : list float) : bool :=
  match a, b with
  | [], [] => true
  | x :: a', y :: b' => fclose x y && fclose_list a' b'
  | _, _ => false
  end.

Inductive case :=
| CVeitch (std deltas : list float) (T : Z) (decay target : float) (start nsteps : Z) (accepted : bool) (std' : list float)
| CSS (std : list float) (nacc : Z) (target : float) (start : Z) (cap : option float) (nsteps : Z) (accepted : bool)
      (std' : list float) (nacc' : Z)
| CAT (mean ucov : list float) (loglam : float) (std : list float) (T : Z) (target : float) (start : Z) (decayc : float)
      (nsteps : Z) (ar : float) (x : list float) (mean' ucov' : list float) (loglam' : float) (std' : list float)
| CEig (lg : float) (T : Z) (target : float) (start : Z) (decayc : float) (nsteps : Z) (ar : float) (lg' : float)
| CKappa (lg : float) (T : Z) (target : float) (start : Z) (decayc : float) (nsteps : Z) (ar : float) (lg' kappa' : float).

Definition case_ok (c : case) : bool :=
  match c with
  | CVeitch std deltas T decay target start nsteps acc std' =>
      let p := {| v_std := std; v_deltas := deltas; v_T := T; v_decay := decay; v_target := target; v_start := start |} in
      fclose_list (v_std (veitch_update p nsteps acc)) std'
  | CSS std nacc target start cap nsteps acc std' nacc' =>
      let p := {| s_std := std; s_nacc := nacc; s_target := target; s_start := start; s_cap := cap |} in
      let q := ss_update p nsteps acc in
      fclose_list (s_std q) std' && Z.eqb (s_nacc q) nacc'
  | CAT mean ucov loglam std T target start decayc nsteps ar x mean' ucov' loglam' std' =>
      let p := {| a_mean := mean; a_ucov := ucov; a_loglam := loglam; a_std := std; a_T := T; a_target := target;
                  a_start := start; a_decayc := decayc |} in
      let q := at_update p nsteps ar x in
      fclose_list (a_mean q) mean' && fclose_list (a_ucov q) ucov' && fclose (a_loglam q) loglam' && fclose_list (a_std q) std'
  | CEig lg T target start decayc nsteps ar lg' =>
      let p := {| r_log := lg; r_T := T; r_target := target; r_start := start; r_decayc := decayc |} in
      fclose (r_log (eig_update p nsteps ar)) lg'
  | CKappa lg T target start decayc nsteps ar lg' kappa' =>
      let p := {| r_log := lg; r_T := T; r_target := target; r_start := start; r_decayc := decayc |} in
      let q := kappa_update p nsteps ar in
      fclose (r_log q) lg' && fclose (kappa_of q) kappa'
  end.

Fixpoint failing_from (i : nat) (cs : list case) : list nat :=
  match cs with
  | [] => []
  | c :: t => if case_ok c then failing_from (S i) t else i :: failing_from (S i) t
  end.
Definition failing (cs : list case) : list nat := failing_from 0 cs.
