(** Decoder / comparator for the C20 correspondence cases (bytes as [Z]). *)
From Coq Require Import ZArith.
From Epsie Require Import Base H5.

Definition errcode (e : h5err) : nat :=
  match e with KeyError => 1 | ResizeError => 2 | ShapeError => 3 end.

Fixpoint list_eqb (a b : list Z) : bool :=
  match a, b with
  | [], [] => true
  | x :: a', y :: b' => Z.eqb x y && list_eqb a' b'
  | _, _ => false
  end.

Definition out_eqb (a b : outcome Z) : bool :=
  match a, b with
  | ODone, ODone => true
  | OBytes x, OBytes y => list_eqb x y
  | OErr e, OErr e' => Nat.eqb (errcode e) (errcode e')
  | _, _ => false
  end.

Fixpoint outs_eqb (a b : list (outcome Z)) : bool :=
  match a, b with
  | [], [] => true
  | x :: a', y :: b' => out_eqb x y && outs_eqb a' b'
  | _, _ => false
  end.

(** a case: groups present at the start, operations, outcomes observed on the implementation *)
Definition case := (list nat * list (op Z) * list (outcome Z))%type.

Definition case_ok (c : case) : bool :=
  let '(gs, ops, outs) := c in outs_eqb (snd (run Z 0%Z (mkfile Z gs) ops)) outs.

Fixpoint failing_from (i : nat) (cs : list case) : list nat :=
  match cs with
  | [] => []
  | c :: t => if case_ok c then failing_from (S i) t else i :: failing_from (S i) t
  end.
Definition failing (cs : list case) : list nat := failing_from 0 cs.
