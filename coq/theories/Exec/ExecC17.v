(** Comparator for the C17 correspondence (float instance of the ladder kernels). *)
From Coq Require Import ZArith List PrimFloat.
From Epsie Require Import Base FloatLib Num NumF Ladder.
Import ListNotations.

Inductive case :=
| CSet (input : list float) (out : option (list float))                 (* betas setter: exact *)
| CSetup (tmax : bool) (sorted : list float) (S betas : list float)     (* setup_annealing *)
| CCall (nu tau t : float) (bs S ars : list float) (bs' S' : list float) (* DynamicalAnnealer.__call__ *)
| CGeom (n : nat) (maxtemp : float) (out : list float).                 (* make_betas_ladder *)

Fixpoint feq_list (a b : list float) : bool :=
  match a, b with
  | [], [] => true
  | x :: a', y :: b' => (PrimFloat.eqb x y || (is_nanb x && is_nanb y)) && feq_list a' b'
  | _, _ => false
  end.
Fixpoint fclose_list (a b : list float) : bool :=
  match a, b with
  | [], [] => true
  | x :: a', y :: b' => fclose x y && fclose_list a' b'
  | _, _ => false
  end.

Definition case_ok (c : case) : bool :=
  match c with
  | CSet input out =>
      match set_betas input, out with
      | None, None => true
      | Some a, Some b => feq_list a b
      | _, _ => false
      end
  | CSetup tmax sorted Sx betas => fclose_list (setup_S sorted) Sx && feq_list (setup_betas tmax sorted) betas
  | CCall nu tau t bs Sx ars bs' Sx' =>
      let '(b, s) := anneal nu tau t bs Sx ars in fclose_list b bs' && fclose_list s Sx'
  | CGeom n maxtemp out => fclose_list (make_betas_ladder n maxtemp) out
  end.

Fixpoint failing_from (i : nat) (cs : list case) : list nat :=
  match cs with
  | [] => []
  | c :: t => if case_ok c then failing_from (S i) t else i :: failing_from (S i) t
  end.
Definition failing (cs : list case) : list nat := failing_from 0 cs.
