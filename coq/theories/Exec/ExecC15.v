(** Comparator for the C15 correspondence: clocks read off real proposals vs [call_jump]. *)
From Coq Require Import ZArith Bool.
From Epsie Require Import Base Clock.

(** a case: k, D, start_step option, _nsteps, the decision the implementation made *)
Definition case := (nat * Z * option Z * nat * bool)%type.
Definition case_ok (c : case) : bool :=
  let '(k, D, s, n, b) := c in
  Bool.eqb (call_jump {| pk := k; pD := D; pstart := s; pn := n |}) b.

Fixpoint failing_from (i : nat) (cs : list case) : list nat :=
  match cs with
  | [] => []
  | c :: t => if case_ok c then failing_from (S i) t else i :: failing_from (S i) t
  end.
Definition failing (cs : list case) : list nat := failing_from 0 cs.
