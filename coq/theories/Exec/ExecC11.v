(** C11 correspondence: the composite log-density of real transdimensional steps (both directions)
    recomputed by [td_logpdf] from the component terms, the index-jump term by [bd_logpmf1], and
    the acceptance ratio by the MH kernel. *)
From Coq Require Import ZArith List Bool PrimFloat.
From Epsie Require Import Base FloatLib FloatLib2 Num NumF Dens MH Exec.ExecC02.
Import ListNotations.
Local Open Scope float_scope.

Definition ofl (x : float) : option float := if PrimFloat.eqb x neg_infinity then None else Some x.

Record case := K {
  k_succ : bool; k_lo : Z; k_hi : Z; k_std : float;             (* the index proposal *)
  k_from : Z; k_to : Z;                                        (* index of the current and of the proposed point *)
  k_cur : list bool; k_prop : list bool;                      (* their active sets *)
  k_births_fwd : list float; k_in_fwd : list float;           (* per component: birth / in-model log-density, evaluated at the proposal given current *)
  k_births_rev : list float; k_in_rev : list float;           (* ... and at the current point given the proposal *)
  o_fwd : float; o_rev : float;                               (* what the implementation's logpdf returned *)
  k_stats : float * float * float * float * float;            (* logp', logl', logp, logl, beta *)
  o_ar : float                                                (* recorded acceptance ratio *)
}.

Definition model_fwd (c : case) : option float :=
  @td_logpdf float _ (fbd_logpmf1 (k_succ c) (k_lo c) (k_hi c) (k_std c) (k_from c) (k_to c))
             (k_to c - k_from c) (k_cur c) (k_prop c) (map ofl (k_births_fwd c)) (map ofl (k_in_fwd c)).
Definition model_rev (c : case) : option float :=
  @td_logpdf float _ (fbd_logpmf1 (k_succ c) (k_lo c) (k_hi c) (k_std c) (k_to c) (k_from c))
             (k_from c - k_to c) (k_prop c) (k_cur c) (map ofl (k_births_rev c)) (map ofl (k_in_rev c)).

(** 1 = forward density, 2 = reverse density, 3 = acceptance ratio *)
Definition check (c : case) : nat :=
  if negb (opt_close (model_fwd c) (o_fwd c)) then 1%nat
  else if negb (opt_close (model_rev c) (o_rev c)) then 2%nat
  else
    let '(lp', ll', lp, ll, beta) := k_stats c in
    match model_fwd c, model_rev c with
    | Some f, Some r =>
        let logar := @mh_logar float _ lp' ll' lp ll beta (Some (r, f)) in
        let ar := if PrimFloat.ltb 0 logar then 1 else fexp logar in
        if tol_close ar (o_ar c) then 0%nat else 3%nat
    | _, _ => 0%nat
    end.

Fixpoint failing_from (i : nat) (cs : list case) : list (nat * nat) :=
  match cs with
  | [] => []
  | c :: t => match check c with O => failing_from (S i) t | k => (i, k) :: failing_from (S i) t end
  end.
Definition failing (cs : list case) : list (nat * nat) := failing_from 0 cs.
