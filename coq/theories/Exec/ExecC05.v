(** C05 correspondence, proposal level: what the live classes save/restore against the family table.
    A case = (table entry, keys of the real state dict, attributes that changed while the real
    proposal ran in a chain, attributes of a fresh object that differ from the original after
    set_state(state)).  Machine-level resume cases reuse [Exec.ExecMachine]. *)
From Coq Require Import String List Bool.
From Epsie Require Import PropState.
Import ListNotations.
Open Scope string_scope.

Definition case := (string * list string * list string * list string)%type.

Definition seteq (a b : list string) : bool := subset a b && subset b a.
Definition disjoint (a b : list string) : bool := forallb (fun x => negb (mem x b)) a.

(** 1 = unknown family, 2 = key set differs, 3 = an attribute changes that the table does not know,
    4 = a dynamic attribute is not restored *)
Definition check (c : case) : nat :=
  let '(name, keys, changed, differ) := c in
  match lookup name table with
  | None => 1
  | Some s =>
      if negb (seteq keys (map fst (f_saved s))) then 2
      else if negb (subset changed (f_dynamic s ++ map fst (f_derived s) ++ f_transient s)) then 3
      else if negb (disjoint differ (f_dynamic s ++ map fst (f_derived s))) then 4
      else 0
  end.

Fixpoint failing_from (i : nat) (cs : list case) : list (nat * nat) :=
  match cs with
  | [] => []
  | c :: t => match check c with O => failing_from (S i) t | k => (i, k) :: failing_from (S i) t end
  end.
Definition failing (cs : list case) : list (nat * nat) := failing_from 0 cs.
