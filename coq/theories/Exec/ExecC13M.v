(** Comparator for the matrix-valued and componentwise adaptation updates ([AdaptM]) against real
    [_update] calls: full-covariance and componentwise Andrieu-Thoms, and the covariance/mean
    recursion of the adaptive eigenvector proposals. *)
From Coq Require Import ZArith List PrimFloat.
From Epsie Require Import Base FloatLib Num NumF Adapt AdaptM Exec.ExecC13.
Import ListNotations.

Fixpoint fclose_mat (a b : list (list float)) : bool :=
  match a, b with
  | [], [] => true
  | x :: a', y :: b' => fclose_list x y && fclose_mat a' b'
  | _, _ => false
  end.

Inductive mcase :=
| CATF (mean : list float) (ucov : list (list float)) (loglam : float) (cov : list (list float)) (T : Z) (target : float)
       (start : Z) (decayc : float) (nsteps : Z) (ar : float) (x : list float)
       (mean' : list float) (ucov' : list (list float)) (loglam' : float) (cov' : list (list float))
| CATC (mean ucov loglam std : list float) (T : Z) (target : float) (start : Z) (decayc : float) (nsteps : Z)
       (ars x : list float) (mean' ucov' loglam' std' : list float)
| CATCF (mean : list float) (ucov : list (list float)) (loglam : list float) (cov : list (list float)) (T : Z) (target : float)
        (start : Z) (decayc : float) (nsteps : Z) (ars x : list float)
        (mean' : list float) (ucov' : list (list float)) (loglam' : list float) (cov' : list (list float))
| CSSC (cov : list (list float)) (nacc : Z) (target : float) (start : Z) (cap : option float) (nsteps : Z) (accepted : bool)
       (cov' : list (list float)) (nacc' : Z)
| CEigC (lg : float) (T : Z) (target : float) (start : Z) (decayc : float) (cov : list (list float)) (mu : list float)
        (nsteps : Z) (ar : float) (x : list float) (lg' : float) (cov' : list (list float)) (mu' : list float).

Definition mcase_ok (c : mcase) : bool :=
  match c with
  | CATF mean ucov loglam cov T target start decayc nsteps ar x mean' ucov' loglam' cov' =>
      let p := {| f_mean := mean; f_ucov := ucov; f_loglam := loglam; f_cov := cov; f_T := T; f_target := target;
                  f_start := start; f_decayc := decayc |} in
      let q := atf_update p nsteps ar x in
      fclose_list (f_mean q) mean' && fclose_mat (f_ucov q) ucov' && fclose (f_loglam q) loglam' && fclose_mat (f_cov q) cov'
  | CATC mean ucov loglam std T target start decayc nsteps ars x mean' ucov' loglam' std' =>
      let p := {| c_mean := mean; c_ucov := ucov; c_loglam := loglam; c_std := std; c_T := T; c_target := target;
                  c_start := start; c_decayc := decayc |} in
      let q := atc_update p nsteps ars x in
      fclose_list (c_mean q) mean' && fclose_list (c_ucov q) ucov' && fclose_list (c_loglam q) loglam' && fclose_list (c_std q) std'
  | CATCF mean ucov loglam cov T target start decayc nsteps ars x mean' ucov' loglam' cov' =>
      let p := {| g_mean := mean; g_ucov := ucov; g_loglam := loglam; g_cov := cov; g_T := T; g_target := target;
                  g_start := start; g_decayc := decayc |} in
      let q := atcf_update p nsteps ars x in
      fclose_list (g_mean q) mean' && fclose_mat (g_ucov q) ucov' && fclose_list (g_loglam q) loglam' && fclose_mat (g_cov q) cov'
  | CSSC cov nacc target start cap nsteps acc cov' nacc' =>
      let p := {| q_cov := cov; q_nacc := nacc; q_target := target; q_start := start; q_cap := cap |} in
      let q := ssc_update p nsteps acc in
      fclose_mat (q_cov q) cov' && Z.eqb (q_nacc q) nacc'
  | CEigC lg T target start decayc cov mu nsteps ar x lg' cov' mu' =>
      let p := {| r_log := lg; r_T := T; r_target := target; r_start := start; r_decayc := decayc |} in
      let '((c1, m1), q) := eigc_update p cov mu nsteps ar x in
      fclose (r_log q) lg' && fclose_mat c1 cov' && fclose_list m1 mu'
  end.

Fixpoint mfailing_from (i : nat) (cs : list mcase) : list nat :=
  match cs with
  | [] => []
  | c :: t => if mcase_ok c then mfailing_from (S i) t else i :: mfailing_from (S i) t
  end.
Definition mfailing (cs : list mcase) : list nat := mfailing_from 0 cs.
