(** Proofs over the reals for [AdaptM]: componentwise direction and freezing, and positive
    semidefiniteness of the adapted second moment / recursive covariance (as quadratic forms). *)
From Coq Require Import Reals Lra Lia ZArith List Bool.
From Epsie Require Import Base Num NumR Adapt Adapt_proofs AdaptM.
Import ListNotations.
Local Open Scope R_scope.

(** ** list algebra over R *)
Lemma vdot_nil_l (b : list R) : @vdot R _ [] b = 0.
Proof. reflexivity. Qed.

Lemma fold_add_acc (l : list R) (a : R) : fold_left Rplus l a = a + fold_left Rplus l 0.
Proof.
  revert a; induction l as [|x t IH]; intros a; cbn; [lra|]. rewrite (IH (a + x)), (IH (0 + x)). lra.
Qed.
Lemma vdot_cons (x y : R) (a b : list R) : @vdot R _ (x :: a) (y :: b) = x * y + @vdot R _ a b.
Proof.
  unfold vdot. cbn [map2 fold_left nadd nmul nzero NumReal]. rewrite fold_add_acc. lra.
Qed.

(** sum_i w_i (sum_j (a_i b_j) w_j) = (a.w)(b.w) *)
Lemma quad_outer (a b w : list R) : length a = length w -> length b = length w ->
  @quad R _ (@outer R _ a b) w = @vdot R _ a w * @vdot R _ b w.
Proof.
  intros Ha Hb. unfold quad, mvec, outer.
  assert (E : forall a' w', length a' = length w' ->
            @vdot R _ w' (map (fun row => @vdot R _ row w) (map (fun x => map (fun y => x * y) b) a'))
            = @vdot R _ a' w' * @vdot R _ b w).
  { induction a' as [|x t IH]; intros [|y w'] Hl; cbn in Hl; try lia.
    - cbn. unfold vdot. cbn. lra.
    - cbn [map]. rewrite !vdot_cons. rewrite IH by lia.
      assert (S1 : @vdot R _ (map (fun y0 => x * y0) b) w = x * @vdot R _ b w).
      { clear. revert w. induction b as [|y0 b IHb]; intros [|z w]; cbn [map]; try (unfold vdot; cbn; lra).
        rewrite !vdot_cons, IHb. lra. }
      rewrite S1. lra. }
  apply E. exact Ha.
Qed.

(** quad is linear in the matrix for entrywise combinations of equally shaped matrices *)
Lemma vdot_map2_lin (c1 c2 : R) (r1 r2 w : list R) : length r1 = length w -> length r2 = length w ->
  @vdot R _ (map2 (fun a o => c1 * a + c2 * o) r1 r2) w = c1 * @vdot R _ r1 w + c2 * @vdot R _ r2 w.
Proof.
  revert r2 w; induction r1 as [|x t IH]; intros [|y r2] [|z w] H1 H2; cbn [length] in *; try lia.
  - unfold vdot. cbn. lra.
  - cbn [map2]. rewrite !vdot_cons, IH by lia. lra.
Qed.

Definition shaped (n : nat) (A : list (list R)) : Prop := length A = n /\ Forall (fun r => length r = n) A.

Lemma quad_lin (c1 c2 : R) (A B : list (list R)) (w : list R) : shaped (length w) A -> shaped (length w) B ->
  @quad R _ (@mmap2 R (fun a o => c1 * a + c2 * o) A B) w = c1 * @quad R _ A w + c2 * @quad R _ B w.
Proof.
  intros [HA FA] [HB FB]. unfold quad, mvec, mmap2.
  assert (E : forall A' B' w', length A' = length w' -> length B' = length w' ->
            Forall (fun r => length r = length w) A' -> Forall (fun r => length r = length w) B' ->
            @vdot R _ w' (map (fun row => @vdot R _ row w) (map2 (map2 (fun a o => c1 * a + c2 * o)) A' B'))
            = c1 * @vdot R _ w' (map (fun row => @vdot R _ row w) A') + c2 * @vdot R _ w' (map (fun row => @vdot R _ row w) B')).
  { induction A' as [|ra A' IH]; intros [|rb B'] [|z w'] H1 H2 F1 F2; cbn in H1, H2; try lia.
    - unfold vdot. cbn. lra.
    - inversion F1; subst. inversion F2; subst. cbn [map2 map]. rewrite !vdot_cons, IH by (auto; lia).
      rewrite vdot_map2_lin by assumption. lra. }
  apply E; assumption.
Qed.

Lemma outer_shaped (a : list R) : shaped (length a) (@outer R _ a a).
Proof.
  unfold shaped, outer. split; [apply map_length|]. apply Forall_forall. intros r Hr.
  apply in_map_iff in Hr as (x & <- & _). apply map_length.
Qed.

(** ** the second moment of Andrieu-Thoms stays positive semidefinite:
    w^T U' w = (1 - d) w^T U w + d (df . w)^2 for the step U' = U + d (df df^T - U) *)
Theorem ucov_step_quad (d : R) (U : list (list R)) (df w : list R) :
  length df = length w -> shaped (length w) U ->
  @quad R _ (@ucov_step R _ d U df) w = (1 - d) * @quad R _ U w + d * (@vdot R _ df w) ^ 2.
Proof.
  intros Hd HU. unfold ucov_step.
  cbn [nadd nmul nsub NumReal] in *.
  replace (@mmap2 R (fun u o => u + d * (o - u)) U (@outer R _ df df))
    with (@mmap2 R (fun a o => (1 - d) * a + d * o) U (@outer R _ df df)).
  2:{ unfold mmap2. clear. revert U. generalize (@outer R _ df df). intros O U. revert O.
      induction U as [|r U IH]; intros [|o O]; cbn; auto. f_equal; [|apply IH].
      clear. revert o. induction r as [|x r IHr]; intros [|y o]; cbn; auto. f_equal; [ring|apply IHr]. }
  rewrite quad_lin; [|exact HU|rewrite <- Hd; apply outer_shaped].
  rewrite quad_outer by (auto; lia). simpl. ring.
Qed.

Corollary ucov_step_psd (d : R) (U : list (list R)) (df w : list R) :
  0 <= d <= 1 -> length df = length w -> shaped (length w) U ->
  0 <= @quad R _ U w -> 0 <= @quad R _ (@ucov_step R _ d U df) w.
Proof.
  intros Hd Hl HU Hq. rewrite ucov_step_quad by assumption.
  assert (0 <= (@vdot R _ df w) ^ 2) by (apply pow2_ge_0). nra.
Qed.

(** full Andrieu-Thoms: inside the window the second moment stays PSD, the log-scale moves in the
    documented direction; outside the window nothing changes *)
Section ATF.
  Variable p : @atf_state R.
  Hypothesis Hdecay : f_decayc p = exp (- (6 / 10) * ln (IZR (f_T p))).

  Theorem atf_psd nsteps ar x w :
    length x = length w -> length (f_mean p) = length w -> shaped (length w) (f_ucov p) ->
    0 <= @quad R _ (f_ucov p) w -> 0 <= @quad R _ (f_ucov (atf_update p nsteps ar x)) w.
  Proof.
    intros Hx Hm HU Hq. unfold atf_update. destruct (atf_window p nsteps) eqn:Hw; [|exact Hq].
    cbn [f_ucov]. unfold atf_window in Hw. apply andb_prop in Hw as [H1 H2]. apply Z.ltb_lt in H1, H2.
    rewrite Hdecay. pose proof (rm_factor_R (dkZ nsteps (f_start p)) (f_T p)) as Hf.
    destruct Hf as [Hf0 Hf1]; [lia|lia|].
    apply ucov_step_psd; auto; [lra|]. rewrite map2_length; lia.
  Qed.

  Theorem atf_direction nsteps ar x : atf_window p nsteps = true ->
    (f_target p < ar -> f_loglam p < f_loglam (atf_update p nsteps ar x))
    /\ (ar < f_target p -> f_loglam (atf_update p nsteps ar x) < f_loglam p).
  Proof.
    intros Hw. unfold atf_update. rewrite Hw. cbn [f_loglam nadd nmul nsub NumReal].
    unfold atf_window in Hw. apply andb_prop in Hw as [H1 H2]. apply Z.ltb_lt in H1, H2.
    rewrite Hdecay. pose proof (rm_factor_R (dkZ nsteps (f_start p)) (f_T p)) as Hf.
    destruct Hf as [Hf0 Hf1]; [lia|lia|]. set (d := rm_factor _ _) in *.
    split; intros; nra.
  Qed.

  Theorem atf_frozen nsteps ar x : (f_T p <= dkZ nsteps (f_start p))%Z -> atf_update p nsteps ar x = p.
  Proof.
    intros Hd. unfold atf_update, atf_window.
    replace (dkZ nsteps (f_start p) <? f_T p)%Z with false by (symmetry; apply Z.ltb_ge; exact Hd).
    now rewrite andb_false_r.
  Qed.
End ATF.

(** componentwise scaling: every component's log-scale follows its own virtual acceptance ratio *)
Section ATC.
  Variable p : @atc_state R.
  Hypothesis Hdecay : c_decayc p = exp (- (6 / 10) * ln (IZR (c_T p))).

  Theorem atc_direction nsteps ars x i : atc_window p nsteps = true ->
    (i < length (c_loglam p))%nat -> (i < length ars)%nat ->
    let l := nth i (c_loglam p) 0 in let l' := nth i (c_loglam (atc_update p nsteps ars x)) 0 in let a := nth i ars 0 in
    (c_target p < a -> l < l') /\ (a < c_target p -> l' < l).
  Proof.
    intros Hw Hi Ha. cbn zeta. unfold atc_update. rewrite Hw. cbn [c_loglam].
    unfold atc_window in Hw. apply andb_prop in Hw as [H1 H2]. apply Z.ltb_lt in H1, H2.
    rewrite Hdecay. pose proof (rm_factor_R (dkZ nsteps (c_start p)) (c_T p)) as Hf.
    destruct Hf as [Hf0 Hf1]; [lia|lia|]. set (d := rm_factor _ _) in *.
    assert (E : forall (ls als : list R) k, (k < length ls)%nat -> (k < length als)%nat ->
              nth k (map2 (fun l a => @nadd R _ l (@nmul R _ d (@nsub R _ a (c_target p)))) ls als) 0
              = nth k ls 0 + d * (nth k als 0 - c_target p)).
    { induction ls as [|l ls IH]; intros [|a als] k Hk Hk'; cbn in Hk, Hk'; try lia.
      destruct k; cbn [map2 nth]; [reflexivity|]. apply IH; lia. }
    rewrite E by assumption. split; intros; nra.
  Qed.

  Theorem atc_frozen nsteps ars x : (c_T p <= dkZ nsteps (c_start p))%Z -> atc_update p nsteps ars x = p.
  Proof.
    intros Hd. unfold atc_update, atc_window.
    replace (dkZ nsteps (c_start p) <? c_T p)%Z with false by (symmetry; apply Z.ltb_ge; exact Hd).
    now rewrite andb_false_r.
  Qed.
End ATC.

(** the recursive covariance of the adaptive eigenvector proposal keeps positive semidefiniteness
    (N >= 2 proposal steps): w^T C' w = (N-1)/N (w^T C w + N/(N^2-1) (dx . w)^2) *)
Theorem eig_cov_psd (N : R) (cov : list (list R)) (mu x w : list R) :
  2 <= N -> length x = length w -> length mu = length w -> shaped (length w) cov ->
  0 <= @quad R _ cov w -> 0 <= @quad R _ (fst (@eig_cov_update R _ N cov mu x)) w.
Proof.
  intros HN Hx Hm HC Hq. unfold eig_cov_update. cbn [fst].
  set (dx := map2 (@nsub R _) x mu). cbn [ndiv nsub nmul none NumReal]. set (c := N / (N * N - 1)).
  assert (Hdx : length dx = length w) by (unfold dx; rewrite map2_length; lia).
  assert (Hc : 0 <= c). { unfold c. apply Rmult_le_pos; [lra|]. left. apply Rinv_0_lt_compat. nra. }
  assert (Hs : 0 <= (N - 1) / N). { apply Rmult_le_pos; [lra|]. left. apply Rinv_0_lt_compat. lra. }
  (* the scaled sum as one entrywise combination *)
  assert (E : @mscale R _ ((N - 1) / N) (@mmap2 R (fun a o => @nadd R _ a (@nmul R _ c o)) cov (@outer R _ dx dx))
              = @mmap2 R (fun a o => ((N - 1) / N) * a + ((N - 1) / N * c) * o) cov (@outer R _ dx dx)).
  { unfold mscale, mmap2. generalize (@outer R _ dx dx). intros O. revert O. clear HC Hq.
    induction cov as [|r C IH]; intros [|o O]; cbn; auto. f_equal; [|apply IH].
    clear. revert o. induction r as [|a r IHr]; intros [|y o]; cbn; auto. f_equal; [ring|apply IHr]. }
  change (0 <= @quad R _ (@mscale R _ ((N - 1) / N) (@mmap2 R (fun a o => @nadd R _ a (@nmul R _ c o)) cov (@outer R _ dx dx))) w).
  rewrite E. rewrite quad_lin; [|exact HC|rewrite <- Hdx; apply outer_shaped].
  rewrite quad_outer by (auto; lia).
  assert (0 <= @vdot R _ dx w * @vdot R _ dx w) by nra.
  set (v2 := @vdot R _ dx w * @vdot R _ dx w) in *. set (q := @quad R _ cov w) in *. set (s := (N - 1) / N) in *.
  apply Rplus_le_le_0_compat; [apply Rmult_le_pos; assumption|].
  apply Rmult_le_pos; [apply Rmult_le_pos; assumption|assumption].
Qed.

(** ** positive semidefiniteness as a property of all quadratic forms, and what the proposals draw from *)
Definition psd (n : nat) (A : list (list R)) : Prop := shaped n A /\ forall w, length w = n -> 0 <= @quad R _ A w.

Lemma vdot_scale_l (c : R) (r w : list R) : @vdot R _ (map (fun x => c * x) r) w = c * @vdot R _ r w.
Proof.
  revert w; induction r as [|x r IH]; intros [|z w]; cbn [map]; try (unfold vdot; cbn; lra).
  rewrite !vdot_cons, IH. lra.
Qed.

Lemma quad_scale (c : R) (A : list (list R)) (w : list R) : @quad R _ (@mscale R _ c A) w = c * @quad R _ A w.
Proof.
  unfold quad, mvec, mscale.
  assert (E : forall v : list R, @vdot R _ v (map (fun row => @vdot R _ row w) (map (map (fun x => c * x)) A))
                               = c * @vdot R _ v (map (fun row => @vdot R _ row w) A)).
  { induction A as [|r A IH]; intros [|z v]; cbn [map]; try (unfold vdot; cbn; lra).
    rewrite !vdot_cons, IH, vdot_scale_l. lra. }
  apply E.
Qed.

Lemma mscale_shaped n c A : shaped n A -> shaped n (@mscale R _ c A).
Proof.
  intros [HA FA]. unfold mscale. split; [now rewrite map_length|]. apply Forall_forall. intros r Hr.
  apply in_map_iff in Hr as (r0 & <- & Hr0). rewrite map_length. rewrite Forall_forall in FA. now apply FA.
Qed.

Lemma map2_length_eq {A B C} (f : A -> B -> C) l1 l2 : length l1 = length l2 -> length (map2 f l1 l2) = length l1.
Proof. revert l2; induction l1 as [|a l1 IH]; intros [|b l2] Hl; cbn in *; try lia. f_equal. apply IH. lia. Qed.

Lemma mmap2_shaped n f A B : shaped n A -> shaped n B -> shaped n (@mmap2 R f A B).
Proof.
  intros [HA FA] [HB FB]. unfold mmap2. split; [rewrite map2_length_eq; lia|].
  clear HA HB. revert B FB. induction A as [|ra A IH]; intros [|rb B] FB; cbn; auto.
  inversion FA; subst. inversion FB; subst. constructor; [rewrite map2_length_eq; lia|]. now apply IH.
Qed.

Lemma ucov_step_shaped n d U df : length df = n -> shaped n U -> shaped n (@ucov_step R _ d U df).
Proof. intros Hd HU. unfold ucov_step. apply mmap2_shaped; auto. rewrite <- Hd. apply outer_shaped. Qed.

Theorem ucov_step_psd_all n d U df : 0 <= d <= 1 -> length df = n -> psd n U -> psd n (@ucov_step R _ d U df).
Proof.
  intros Hd Hl [HU HQ]. split; [now apply ucov_step_shaped|]. intros w Hw. subst n.
  apply ucov_step_psd; auto; try lia; now rewrite Hw.
Qed.

(** Lambda^(1/2) U Lambda^(1/2) as a quadratic form is U's at the rescaled vector *)
Lemma vdot_rescale (s r w : list R) (c : R) : length r = length w -> length s = length w ->
  @vdot R _ (map2 (fun u sj => (c * u) * sj) r s) w = c * @vdot R _ r (map2 Rmult s w).
Proof.
  revert s w; induction r as [|u r IH]; intros [|sj s] [|z w] H1 H2; cbn [length] in *; try lia;
    try (unfold vdot; cbn; lra).
  cbn [map2]. rewrite !vdot_cons, IH by lia. lra.
Qed.

Lemma lam_scale_quad (ll : list R) (U : list (list R)) (w : list R) :
  length ll = length w -> shaped (length w) U ->
  @quad R _ (@lam_scale R _ ll U) w
  = @quad R _ U (map2 Rmult (map (fun l => sqrt (exp l)) ll) w).
Proof.
  intros Hl [HU FU]. unfold lam_scale, quad, mvec. cbn [nsqrt nexp nmul NumReal].
  set (s := map (fun l => sqrt (exp l)) ll).
  assert (Hs : length s = length w) by (unfold s; now rewrite map_length).
  assert (E : forall (s' : list R) (U' : list (list R)) (w' : list R), length s' = length w' -> length U' = length w' ->
            Forall (fun r => length r = length w) U' ->
            @vdot R _ w' (map (fun row => @vdot R _ row w) (map2 (fun si row => map2 (fun u sj => si * u * sj) row s) s' U'))
            = @vdot R _ (map2 Rmult s' w') (map (fun row => @vdot R _ row (map2 Rmult s w)) U')).
  { induction s' as [|si s' IH]; intros [|row U'] [|z w'] H1 H2 F; cbn [length] in *; try lia;
      try (unfold vdot; cbn; lra).
    inversion F; subst. cbn [map2 map]. rewrite !vdot_cons, IH by (auto; lia).
    rewrite vdot_rescale by lia. lra. }
  apply E; auto.
Qed.

Theorem lam_scale_psd n ll U : length ll = n -> psd n U -> forall w, length w = n -> 0 <= @quad R _ (@lam_scale R _ ll U) w.
Proof.
  intros Hl [HU HQ] w Hw. subst n. rewrite lam_scale_quad; [|lia|now rewrite Hw].
  apply HQ. rewrite map2_length_eq; rewrite map_length; lia.
Qed.

(** the covariance the full Andrieu-Thoms proposals draw from stays positive semidefinite through
    every update, whatever the acceptance history and the positions *)
Theorem atf_cov_psd (p : @atf_state R) n nsteps ar x :
  f_decayc p = exp (- (6 / 10) * ln (IZR (f_T p))) ->
  length x = n -> length (f_mean p) = n -> psd n (f_ucov p) -> psd n (f_cov p) ->
  psd n (f_ucov (atf_update p nsteps ar x)) /\ psd n (f_cov (atf_update p nsteps ar x)).
Proof.
  intros Hdecay Hx Hm HU HC. unfold atf_update. destruct (atf_window p nsteps) eqn:Hw; [|split; assumption].
  cbn [f_ucov f_cov]. unfold atf_window in Hw. apply andb_prop in Hw as [H1 H2]. apply Z.ltb_lt in H1, H2.
  rewrite Hdecay. pose proof (rm_factor_R (dkZ nsteps (f_start p)) (f_T p)) as Hf.
  destruct Hf as [Hf0 Hf1]; [lia|lia|].
  assert (HU' : psd n (@ucov_step R _ (rm_factor (dkZ nsteps (f_start p)) (exp (- (6 / 10) * ln (IZR (f_T p)))))
                         (f_ucov p) (map2 (@nsub R _) x (f_mean p)))).
  { apply ucov_step_psd_all; auto; [lra|]. rewrite map2_length_eq; lia. }
  split; [exact HU'|]. destruct HU' as [HS HQ]. split; [now apply mscale_shaped|].
  intros w Hw. rewrite quad_scale. apply Rmult_le_pos; [left; apply exp_pos|]. now apply HQ.
Qed.

Theorem atcf_cov_psd (p : @atcf_state R) n nsteps ars x :
  g_decayc p = exp (- (6 / 10) * ln (IZR (g_T p))) ->
  length x = n -> length (g_mean p) = n -> length (g_loglam p) = n -> length ars = n ->
  psd n (g_ucov p) -> (forall w, length w = n -> 0 <= @quad R _ (g_cov p) w) ->
  psd n (g_ucov (atcf_update p nsteps ars x))
  /\ forall w, length w = n -> 0 <= @quad R _ (g_cov (atcf_update p nsteps ars x)) w.
Proof.
  intros Hdecay Hx Hm Hll Ha HU HC. unfold atcf_update. destruct (atcf_window p nsteps) eqn:Hw; [|split; assumption].
  cbn [g_ucov g_cov]. unfold atcf_window in Hw. apply andb_prop in Hw as [H1 H2]. apply Z.ltb_lt in H1, H2.
  rewrite Hdecay. pose proof (rm_factor_R (dkZ nsteps (g_start p)) (g_T p)) as Hf.
  destruct Hf as [Hf0 Hf1]; [lia|lia|].
  assert (HU' : psd n (@ucov_step R _ (rm_factor (dkZ nsteps (g_start p)) (exp (- (6 / 10) * ln (IZR (g_T p)))))
                         (g_ucov p) (map2 (@nsub R _) x (g_mean p)))).
  { apply ucov_step_psd_all; auto; [lra|]. rewrite map2_length_eq; lia. }
  split; [exact HU'|]. apply lam_scale_psd; auto. rewrite map2_length_eq; lia.
Qed.

Theorem atcf_direction (p : @atcf_state R) nsteps ars x i :
  g_decayc p = exp (- (6 / 10) * ln (IZR (g_T p))) -> atcf_window p nsteps = true ->
  (i < length (g_loglam p))%nat -> (i < length ars)%nat ->
  let l := nth i (g_loglam p) 0 in let l' := nth i (g_loglam (atcf_update p nsteps ars x)) 0 in let a := nth i ars 0 in
  (g_target p < a -> l < l') /\ (a < g_target p -> l' < l).
Proof.
  intros Hdecay Hw Hi Ha. cbn zeta. unfold atcf_update. rewrite Hw. cbn [g_loglam].
  unfold atcf_window in Hw. apply andb_prop in Hw as [H1 H2]. apply Z.ltb_lt in H1, H2.
  rewrite Hdecay. pose proof (rm_factor_R (dkZ nsteps (g_start p)) (g_T p)) as Hf.
  destruct Hf as [Hf0 Hf1]; [lia|lia|]. set (d := rm_factor _ _) in *.
  assert (E : forall (ls als : list R) k, (k < length ls)%nat -> (k < length als)%nat ->
            nth k (map2 (fun l a => @nadd R _ l (@nmul R _ d (@nsub R _ a (g_target p)))) ls als) 0
            = nth k ls 0 + d * (nth k als 0 - g_target p)).
  { induction ls as [|l ls IH]; intros [|a als] k Hk Hk'; cbn in Hk, Hk'; try lia.
    destruct k; cbn [map2 nth]; [reflexivity|]. apply IH; lia. }
  rewrite E by assumption. split; intros; nra.
Qed.

Theorem atcf_frozen (p : @atcf_state R) nsteps ars x : (g_T p <= dkZ nsteps (g_start p))%Z -> atcf_update p nsteps ars x = p.
Proof.
  intros Hd. unfold atcf_update, atcf_window.
  replace (dkZ nsteps (g_start p) <? g_T p)%Z with false by (symmetry; apply Z.ltb_ge; exact Hd).
  now rewrite andb_false_r.
Qed.

(** adaptive eigenvector: inside the window the recursion keeps the covariance PSD (so that its
    eigenvalues, the jump scales, stay non-negative); outside nothing changes *)
Lemma eig_cov_shaped n N cov mu x : length x = n -> length mu = n -> shaped n cov ->
  shaped n (fst (@eig_cov_update R _ N cov mu x)).
Proof.
  intros Hx Hm HC. unfold eig_cov_update. cbn [fst]. apply mscale_shaped. apply mmap2_shaped; auto.
  replace n with (length (map2 (@nsub R _) x mu)) by (rewrite map2_length_eq; lia). apply outer_shaped.
Qed.

Theorem eigc_psd (p : @rm_state R) n cov mu nsteps ar x :
  (1 <= r_start p)%Z -> length x = n -> length mu = n -> psd n cov ->
  psd n (fst (fst (eigc_update p cov mu nsteps ar x))) /\ length (snd (fst (eigc_update p cov mu nsteps ar x))) = n.
Proof.
  intros Hs Hx Hm [HC HQ]. unfold eigc_update. destruct (rm_window p nsteps) eqn:Hw; [|cbn [fst snd]; split; [split; assumption|assumption]].
  cbn [fst snd]. unfold rm_window in Hw. apply andb_prop in Hw as [H1 H2]. apply Z.ltb_lt in H1, H2. unfold dkZ in *.
  split; [split|].
  - now apply eig_cov_shaped.
  - intros w Hw. subst n. apply eig_cov_psd; auto; try lia; try (now rewrite Hw).
    cbn [nofZ NumReal]. apply IZR_le with (n := 2%Z). lia.
  - unfold eig_cov_update. cbn [snd]. rewrite map2_length_eq; lia.
Qed.

Theorem eigc_frozen (p : @rm_state R) cov mu nsteps ar x :
  (r_T p <= dkZ nsteps (r_start p))%Z -> eigc_update p cov mu nsteps ar x = ((cov, mu), p).
Proof.
  intros Hd. unfold eigc_update, rm_window.
  replace (dkZ nsteps (r_start p) <? r_T p)%Z with false by (symmetry; apply Z.ltb_ge; exact Hd).
  now rewrite andb_false_r.
Qed.

(** ** every reachable adaptation state: the invariants above along whole histories *)
Definition atf_ok (n : nat) (p : @atf_state R) : Prop :=
  f_decayc p = exp (- (6 / 10) * ln (IZR (f_T p))) /\ length (f_mean p) = n /\ psd n (f_ucov p) /\ psd n (f_cov p).

Lemma atf_update_static (p : @atf_state R) nsteps ar x :
  f_T (atf_update p nsteps ar x) = f_T p /\ f_decayc (atf_update p nsteps ar x) = f_decayc p
  /\ f_target (atf_update p nsteps ar x) = f_target p /\ f_start (atf_update p nsteps ar x) = f_start p.
Proof. unfold atf_update. destruct (atf_window p nsteps); cbn; auto. Qed.

Lemma atf_ok_step n p nsteps ar x : length x = n -> atf_ok n p -> atf_ok n (atf_update p nsteps ar x).
Proof.
  intros Hx (Hd & Hm & HU & HC). destruct (atf_update_static p nsteps ar x) as (ET & ED & _ & _).
  destruct (atf_cov_psd p n nsteps ar x Hd Hx Hm HU HC) as [HU' HC'].
  repeat split; try (apply HU' || apply HC').
  - now rewrite ET, ED.
  - unfold atf_update. destruct (atf_window p nsteps); [|exact Hm]. cbn [f_mean].
    rewrite map2_length_eq; [exact Hm|]. rewrite map2_length_eq; lia.
Qed.

Theorem atf_ok_forever n p (hist : list (Z * R * list R)) :
  Forall (fun h => length (snd h) = n) hist -> atf_ok n p ->
  atf_ok n (fold_left (fun q h => atf_update q (fst (fst h)) (snd (fst h)) (snd h)) hist p).
Proof.
  revert p. induction hist as [|h t IH]; intros p HF Hp; cbn [fold_left]; [exact Hp|].
  inversion HF; subst. apply IH; [assumption|]. now apply atf_ok_step.
Qed.

Theorem atf_frozen_forever (p : @atf_state R) (hist : list (Z * R * list R)) :
  Forall (fun h => (f_T p <= dkZ (fst (fst h)) (f_start p))%Z) hist ->
  fold_left (fun q h => atf_update q (fst (fst h)) (snd (fst h)) (snd h)) hist p = p.
Proof.
  induction hist as [|h t IH]; intros HF; cbn [fold_left]; [reflexivity|].
  inversion HF; subst. rewrite atf_frozen by assumption. now apply IH.
Qed.

Theorem atc_frozen_forever (p : @atc_state R) (hist : list (Z * list R * list R)) :
  Forall (fun h => (c_T p <= dkZ (fst (fst h)) (c_start p))%Z) hist ->
  fold_left (fun q h => atc_update q (fst (fst h)) (snd (fst h)) (snd h)) hist p = p.
Proof.
  induction hist as [|h t IH]; intros HF; cbn [fold_left]; [reflexivity|].
  inversion HF; subst. rewrite atc_frozen by assumption. now apply IH.
Qed.

Theorem atcf_frozen_forever (p : @atcf_state R) (hist : list (Z * list R * list R)) :
  Forall (fun h => (g_T p <= dkZ (fst (fst h)) (g_start p))%Z) hist ->
  fold_left (fun q h => atcf_update q (fst (fst h)) (snd (fst h)) (snd h)) hist p = p.
Proof.
  induction hist as [|h t IH]; intros HF; cbn [fold_left]; [reflexivity|].
  inversion HF; subst. rewrite atcf_frozen by assumption. now apply IH.
Qed.

(** eigenvector: covariance PSD and mean of the right length along whole histories *)
Definition eigc_run (p : @rm_state R) (cm : list (list R) * list R) (hist : list (Z * R * list R)) :=
  fold_left (fun (s : (list (list R) * list R) * rm_state) h =>
               eigc_update (snd s) (fst (fst s)) (snd (fst s)) (fst (fst h)) (snd (fst h)) (snd h)) hist (cm, p).

Lemma eigc_start_static (p : @rm_state R) cov mu nsteps ar x : r_start (snd (eigc_update p cov mu nsteps ar x)) = r_start p.
Proof. unfold eigc_update, eig_update. destruct (rm_window p nsteps); reflexivity. Qed.

Theorem eigc_psd_forever n (p : @rm_state R) cov mu (hist : list (Z * R * list R)) :
  (1 <= r_start p)%Z -> Forall (fun h => length (snd h) = n) hist -> length mu = n -> psd n cov ->
  psd n (fst (fst (eigc_run p (cov, mu) hist))) /\ length (snd (fst (eigc_run p (cov, mu) hist))) = n.
Proof.
  unfold eigc_run. revert p cov mu. induction hist as [|h t IH]; intros p cov mu Hs HF Hm HC; cbn [fold_left fst snd]; [split; assumption|].
  inversion HF; subst.
  destruct (eigc_psd p (length mu) cov mu (fst (fst h)) (snd (fst h)) (snd h) Hs ltac:(assumption) eq_refl HC) as [HC' Hm'].
  pose proof (eigc_start_static p cov mu (fst (fst h)) (snd (fst h)) (snd h)) as Hst.
  destruct (eigc_update p cov mu (fst (fst h)) (snd (fst h)) (snd h)) as [[c1 m1] q]. cbn [fst snd] in *.
  apply IH; auto. lia.
Qed.

(** ** Sivia-Skilling with a full covariance: the covariance is rescaled by a positive factor, > 1
    when the cumulative acceptance rate is above the target and < 1 when below: the proposal
    widens (narrows) in EVERY direction, as a quadratic form, and stays positive semidefinite *)
Lemma map_scale_r (c : R) (A : list (list R)) : map (map (fun x => x * c)) A = @mscale R _ c A.
Proof.
  unfold mscale. apply map_ext. intros r. apply map_ext. intros x. cbn. ring.
Qed.

Theorem ssc_direction_psd (p : @ssc R) (n : nat) nsteps (acc : bool) :
  0 < q_target p < 1 ->
  let nacc := (q_nacc p + (if acc then 1 else 0))%Z in
  let niter := (nsteps - (q_start p - 1) + 1)%Z in
  (0 <= nacc <= niter)%Z -> (0 < niter)%Z -> psd n (q_cov p) ->
  psd n (q_cov (ssc_update p nsteps acc))
  /\ (q_target p < IZR nacc / IZR niter ->
      forall w, length w = n -> @quad R _ (q_cov p) w <= @quad R _ (q_cov (ssc_update p nsteps acc)) w)
  /\ (IZR nacc / IZR niter < q_target p ->
      forall w, length w = n -> @quad R _ (q_cov (ssc_update p nsteps acc)) w <= @quad R _ (q_cov p) w).
Proof.
  intros Ht nacc niter Hn Hi [HS HQ]. unfold ssc_update. fold nacc. fold niter. cbn [q_cov].
  set (dummy := {| s_std := []; s_nacc := 0; s_target := q_target p; s_start := 0; s_cap := None |} : @ss R).
  destruct (ss_alpha_cases dummy Ht nacc niter Hn Hi) as (Hup & Hdown & Hp). cbn [s_target dummy] in *.
  set (al := ss_alpha nacc niter (q_target p)) in *.
  match goal with |- context [if ?b then _ else _] => destruct b end.
  - rewrite map_scale_r. split; [|split].
    + split; [now apply mscale_shaped|]. intros w Hw. rewrite quad_scale. apply Rmult_le_pos; [lra|auto].
    + intros Hr w Hw. rewrite quad_scale. specialize (Hup Hr). specialize (HQ w Hw). nra.
    + intros Hr w Hw. rewrite quad_scale. specialize (Hdown Hr). specialize (HQ w Hw). nra.
  - split; [split; assumption|]. split; intros; lra.
Qed.
