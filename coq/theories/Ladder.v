(** The temperature ladder: the [betas] setter of [ParallelTemperedChain]
    (ptchain.py:255-274), [make_betas_ladder] (epsie/__init__.py:150-153) and the
    [DynamicalAnnealer] (ptchain.py:598-664, with the repair that writes the new betas into
    the levels), over the numeric signature. *)
From Coq Require Import List ZArith.
From Epsie Require Import Base Num.
Import ListNotations.
Local Open Scope num_scope.

Section Ladder.
  Context {T : Type} `{Num T}.

  (** numpy.sort(betas)[::-1]: non-increasing order *)
  Fixpoint insert_desc (x : T) (l : list T) : list T :=
    match l with
    | [] => [x]
    | y :: t => if nleb y x then x :: y :: t else y :: insert_desc x t
    end.
  Fixpoint sort_desc (l : list T) : list T :=
    match l with [] => [] | x :: t => insert_desc x (sort_desc t) end.

  Definition in01 (b : T) : bool := nleb nzero b && nleb b none.

  (** the setter: ValueError unless every beta is in [0,1]; stores a sorted copy *)
  Definition set_betas (bs : list T) : option (list T) :=
    if forallb in01 bs then Some (sort_desc bs) else None.

  (** ** DynamicalAnnealer *)
  (** setup_annealing: S = log(diff(1/betas[:-1])); the hottest beta becomes 0 when Tmax_prior *)
  Fixpoint diffs_inv (bs : list T) : list T :=          (* over betas[:-1]: 1/b[i+1] - 1/b[i] *)
    match bs with
    | b0 :: ((b1 :: _ :: _) as t) => (none / b1 - none / b0) :: diffs_inv t
    | _ => []
    end.
  Definition setup_S (bs : list T) : list T := map nln (diffs_inv bs).
  Fixpoint set_last_beta (bs : list T) (v : T) : list T :=
    match bs with
    | [] => []
    | [_] => [v]
    | b :: t => b :: set_last_beta t v
    end.
  Definition setup_betas (tmax_prior : bool) (bs : list T) : list T :=
    if tmax_prior then set_last_beta bs nzero else bs.

  (** _decay(iteration) = 1/nu * 1/(1 + iteration/tau) *)
  Definition decay (nu tau t : T) : T := (none / nu) * (none / (none + t / tau)).

  Definition clip1 (a : T) : T := if nltb none a then none else a.       (* ars[ars > 1] = 1. *)

  (** S[i] += decay * (ars[i] - ars[i+1]) for i < ntemps-2 *)
  Fixpoint update_S (d : T) (S ars : list T) : list T :=
    match S, ars with
    | s :: S', a0 :: ((a1 :: _) as ars') => (s + d * (a0 - a1)) :: update_S d S' ars'
    | _, _ => S
    end.

  (** betas[i] = 1/(1/betas[i-1] + exp(S[i-1])) for i = 1 .. ntemps-2, the two ends kept *)
  Fixpoint rebuild (prev : T) (rest : list T) (S : list T) : list T :=
    match rest, S with
    | [last], _ => [last]                                  (* the hottest level is kept *)
    | _ :: rest', s :: S' => let b := none / (none / prev + nexp s) in b :: rebuild b rest' S'
    | _, _ => rest
    end.

  Definition anneal (nu tau t : T) (bs S ars : list T) : list T * list T :=
    let S' := update_S (decay nu tau t) S (map clip1 ars) in
    match bs with
    | [] => ([], S')
    | b0 :: rest => (b0 :: rebuild b0 rest S', S')
    end.

  (** ** the ladder as the chain holds it: the betas used for swaps ([betas]) and the beta of
      every level ([Chain.beta]); the annealer rewrites [betas] and (repaired code) assigns
      the intermediate ones to the levels: [chain.chains[i].beta = chain.betas[i]], 1 <= i <= n-2 *)
  Record lstate := { sw_betas : list T; lv_betas : list T; annS : list T }.

  Fixpoint assign_tail (lv new : list T) : list T :=       (* all but the last position are assigned *)
    match lv, new with
    | [l], _ => [l]
    | _ :: lt, b :: bt => b :: assign_tail lt bt
    | _, _ => lv
    end.
  Definition assign_mid (lv new : list T) : list T :=
    match lv, new with
    | l0 :: lt, _ :: bt => l0 :: assign_tail lt bt
    | _, _ => lv
    end.

  Definition construct (tmax_prior : bool) (bs : list T) : option lstate :=
    match set_betas bs with
    | None => None
    | Some sorted =>
        let S := setup_S sorted in
        let b := setup_betas tmax_prior sorted in
        Some {| sw_betas := b; lv_betas := b; annS := S |}
    end.

  Definition lcall (nu tau t : T) (st : lstate) (ars : list T) : lstate :=
    let '(b', S') := anneal nu tau t (sw_betas st) (annS st) ars in
    {| sw_betas := b'; lv_betas := assign_mid (lv_betas st) b'; annS := S' |}.

  (** ** make_betas_ladder: numpy.geomspace(1/maxtemp, 1, num=ntemps) *)
  Definition geom_elem (a : T) (i n : nat) : T :=
    a * npow (none / a) (nofZ (Z.of_nat i) / nofZ (Z.of_nat (n - 1))).
  Definition make_betas_ladder (ntemps : nat) (maxtemp : T) : list T :=
    map (fun i => geom_elem (none / maxtemp) i ntemps) (seq 0 ntemps).
End Ladder.
