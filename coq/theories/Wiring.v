(** The object graph of a sampler and the semantics of [map] (C07, C04).

    Mutable objects (bit generators, proposals with their adaptation state, annealers, chain
    scratch) are cells of a heap.  What a chain does in [_evolve_chain] is a program: a list of
    primitive operations, each of which reads and writes one cell it holds a reference to; the
    chain's *output* is a digest of everything it read, so that any influence of a foreign write
    is visible.  [BaseSampler.run] evaluates [map(_evolve_chain, chains)]: serially in some order
    on the shared heap, or on copies of the chains (deep-copying map, pickling process pool),
    whose cells then replace the chain's cells.

    [construct] is the allocation done by the sampler constructors: per chain one generator
    (spawned from the seed with the chain's index), one annealer copy, and per level and
    constituent one deep copy of the proposal; every drawing site of chain [i] refers to chain
    [i]'s generator. *)
From Coq Require Import ZArith.
From Epsie Require Import Base.
Local Open Scope Z_scope.

Definition loc := nat.
Definition heap := loc -> Z.
Definition hupd (h : heap) (l : loc) (v : Z) : heap := fun l' => if Nat.eqb l' l then v else h l'.

(** one primitive: cell [l] := f(cell l, k, everything read so far); the digest accumulates *)
Record prim := { p_loc : loc; p_k : Z }.
Definition exec_prim (st : heap * Z) (p : prim) : heap * Z :=
  let '(h, acc) := st in
  let v := h (p_loc p) * 31 + p_k p + acc in
  (hupd h (p_loc p) v, acc * 17 + v).
Definition exec_prog (h : heap) (prog : list prim) : heap * Z := fold_left exec_prim prog (h, 0).
Definition locs (prog : list prim) : list loc := map p_loc prog.

(** ** map semantics *)
(** serial (the built-in [map], or a pool of workers sharing memory) in a given order:
    chain [i] runs on the heap left by the chains before it *)
Fixpoint run_serial (progs : list (list prim)) (order : list nat) (h : heap) (outs : list (nat * Z)) : heap * list (nat * Z) :=
  match order with
  | [] => (h, outs)
  | i :: t => let '(h', o) := exec_prog h (nth i progs []) in run_serial progs t h' (outs ++ [(i, o)])
  end.

(** copying map (deepcopy / pickle to a worker): every chain runs on its own copy of the initial
    heap; the cells of its footprint are then installed in the sampler's heap *)
Definition install (fp : list loc) (from to : heap) : heap :=
  fun l => if existsb (Nat.eqb l) fp then from l else to l.
Fixpoint run_copy (progs : list (list prim)) (fps : list (list loc)) (order : list nat) (h0 h : heap) (outs : list (nat * Z))
  : heap * list (nat * Z) :=
  match order with
  | [] => (h, outs)
  | i :: t => let '(hi, o) := exec_prog h0 (nth i progs []) in
              run_copy progs fps t h0 (install (nth i fps []) hi h) (outs ++ [(i, o)])
  end.

Fixpoint out_of (i : nat) (outs : list (nat * Z)) : option Z :=
  match outs with [] => None | (j, o) :: t => if Nat.eqb i j then Some o else out_of i t end.

(** ** construction *)
Record spec := { nchains : nat; nlevels : nat; nprops : nat }.
Definition chain_size (s : spec) : nat := 2 + nlevels s * nprops s.
(** cells of chain i: generator, annealer, then the proposal copies of every level *)
Definition gen_loc (s : spec) (i : nat) : loc := (i * chain_size s)%nat.
Definition ann_loc (s : spec) (i : nat) : loc := (i * chain_size s + 1)%nat.
Definition prop_loc (s : spec) (i t q : nat) : loc := (i * chain_size s + 2 + t * nprops s + q)%nat.
Definition footprint (s : spec) (i : nat) : list loc := seq (i * chain_size s) (chain_size s).

(** the code as it was: one annealer object handed to every chain *)
Definition ann_loc_shared (s : spec) (i : nat) : loc := 1%nat.
Definition footprint_shared (s : spec) (i : nat) : list loc :=
  gen_loc s i :: ann_loc_shared s i :: seq (i * chain_size s + 2) (nlevels s * nprops s).

(** random streams: label of the generator a drawing site of chain i uses *)
Inductive genlabel := Spawn (seed : Z) (i : nat) | Entropy (n : nat).
Inductive site := SAccept (t : nat) | SSwap | SJump (t q : nat) | SBirth (t q : nat) | SSub (t q : nat).
Definition site_gen (s : spec) (i : nat) (x : site) : loc := gen_loc s i.
Definition gen_label (seed : Z) (s : spec) (l : loc) : genlabel := Spawn seed (l / chain_size s)%nat.

(** default proposal for the parameters without one: the sampler's parameters, in the sampler's
    order, minus those covered *)
Fixpoint missing (params given : list nat) : list nat :=
  match params with
  | [] => []
  | p :: t => if existsb (Nat.eqb p) given then missing t given else p :: missing t given
  end.
