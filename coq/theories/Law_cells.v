(** Rounding a real draw to an integer: the preimage cells of [floorceil] and of rounding
    half to even, and the series lemma that makes "first accepted draw" a conditional law. *)
From Coq Require Import Reals Lra Lia ZArith.
From Flocq Require Import Core.Raux Core.Generic_fmt Core.Round_NE.
From Coquelicot Require Import Coquelicot.
Local Open Scope R_scope.

(** numpy: sign(z) * ceil(|z|) *)
Definition sgnZ (x : R) : Z := if Rlt_dec 0 x then 1%Z else if Rlt_dec x 0 then (-1)%Z else 0%Z.
Definition floorceilR (x : R) : Z := (sgnZ x * Zceil (Rabs x))%Z.
(** python round(z, 0) / numpy.round: nearest integer, ties to even *)
Definition rnd_evenR (x : R) : Z := ZnearestE x.

Lemma floorceil_cell_pos (z : R) (k : Z) : (1 <= k)%Z -> (floorceilR z = k <-> IZR k - 1 < z <= IZR k).
Proof.
  intros Hk. unfold floorceilR, sgnZ. split.
  - destruct (Rlt_dec 0 z) as [Hz|Hz].
    + rewrite Rabs_pos_eq by lra. rewrite Z.mul_1_l. intros <-.
      pose proof (Zceil_ub z). pose proof (Zceil_lb z). lra.
    + destruct (Rlt_dec z 0) as [Hz'|Hz'].
      * intros H. exfalso.
        assert (0 <= Zceil (Rabs z))%Z.
        { apply le_IZR. pose proof (Zceil_ub (Rabs z)). pose proof (Rabs_pos z). simpl. lra. }
        lia.
      * intros H. lia.
  - intros [H1 H2].
    assert (0 < z). { apply IZR_le in Hk. lra. }
    destruct (Rlt_dec 0 z); [|lra]. rewrite Rabs_pos_eq by lra. rewrite Z.mul_1_l.
    apply Zceil_imp. rewrite minus_IZR. lra.
Qed.

Lemma floorceil_opp (z : R) : floorceilR (- z) = (- floorceilR z)%Z.
Proof.
  unfold floorceilR, sgnZ. rewrite Rabs_Ropp.
  destruct (Rlt_dec 0 z), (Rlt_dec z 0), (Rlt_dec 0 (- z)), (Rlt_dec (- z) 0); try lra; lia.
Qed.

Lemma floorceil_cell_neg (z : R) (k : Z) : (k <= -1)%Z -> (floorceilR z = k <-> IZR k <= z < IZR k + 1).
Proof.
  intros Hk.
  assert (E : floorceilR z = k <-> floorceilR (- z) = (- k)%Z) by (rewrite floorceil_opp; lia).
  rewrite E, (floorceil_cell_pos (- z) (- k)) by lia. rewrite opp_IZR. lra.
Qed.

Lemma floorceil_zero (z : R) : floorceilR z = 0%Z <-> z = 0.
Proof.
  unfold floorceilR, sgnZ. split.
  - destruct (Rlt_dec 0 z) as [Hz|Hz].
    + rewrite Rabs_pos_eq by lra. rewrite Z.mul_1_l. intros H.
      pose proof (Zceil_ub z). rewrite H in *. simpl in *. lra.
    + destruct (Rlt_dec z 0) as [Hz'|Hz']; [|lra].
      intros H. assert (Hc : Zceil (Rabs z) = 0%Z) by lia.
      pose proof (Zceil_ub (Rabs z)). rewrite Hc in *. simpl in *.
      pose proof (Rabs_pos_lt z). lra.
  - intros ->. destruct (Rlt_dec 0 0); [lra|]. destruct (Rlt_dec 0 0); [lra|]. reflexivity.
Qed.

(** rounding: the open cell maps to k, and whatever maps to k lies in the closed cell
    (the two half-integer end points are a set of measure zero) *)
Lemma rnd_even_cell_in (z : R) (k : Z) : IZR k - /2 < z < IZR k + /2 -> rnd_evenR z = k.
Proof. intros H. apply Znearest_imp. apply Rabs_def1; lra. Qed.
Lemma rnd_even_cell_out (z : R) (k : Z) : rnd_evenR z = k -> IZR k - /2 <= z <= IZR k + /2.
Proof.
  unfold rnd_evenR. intros E. pose proof (Znearest_half (fun x => negb (Z.even x)) z) as H.
  change (Znearest (fun x => negb (Z.even x)) z) with (ZnearestE z) in H. rewrite E in H.
  unfold Rabs in H. destruct (Rcase_abs (z - IZR k)); lra.
Qed.

(** rejection sampling: draws are retried until one is accepted (probability p each time); the
    probability that the first accepted draw falls into a set of mass m inside the acceptance
    region is  sum_n (1-p)^n m = m / p *)
Lemma rejection_series (p m : R) : 0 < p <= 1 -> Series (fun n => (1 - p) ^ n * m) = m / p.
Proof.
  intros Hp. rewrite Series_scal_r, Series_geom; [field; lra|]. rewrite Rabs_pos_eq; lra.
Qed.
