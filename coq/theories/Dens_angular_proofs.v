(** Angular proposal over the reals: the reported density is an even function of the signed
    circular distance between the two angles, hence symmetric; the jump moves by the drawn amount. *)
From Coq Require Import Reals Lra Lia ZArith List Bool.
From Flocq Require Import Core.Raux.
From Epsie Require Import Num NumR Dens Dens_cont_proofs.
Local Open Scope R_scope.

(** python's float modulo over the reals *)
Definition pymodR (x m : R) : R := x - IZR (Zfloor (x / m)) * m.

Lemma pymod2_shift (y : R) (k : Z) : IZR k * 2 <= y < IZR k * 2 + 2 -> pymodR y 2 = y - IZR k * 2.
Proof.
  intros [H1 H2]. unfold pymodR. replace (Zfloor (y / 2)) with k; [reflexivity|].
  symmetry. apply Zfloor_imp. rewrite plus_IZR. simpl. lra.
Qed.
Lemma pymod2_range (y : R) : 0 <= pymodR y 2 < 2.
Proof.
  unfold pymodR. pose proof (Zfloor_lb (y / 2)). pose proof (Zfloor_ub (y / 2)). lra.
Qed.

Section Angular.
  Variable Phi : R -> R.
  Variable l2p : R.
  Notation massA := (massC Phi).

  (** the wrapped, re-centred coordinate of [_logpdf]: forward and backward differ only in sign *)
  Theorem ang_shift_abs (x y : R) :
    Rabs (ang_shift PI pymodR x y - 1) = Rabs (ang_shift PI pymodR y x - 1).
  Proof.
    unfold ang_shift, ntwo. cbn [nadd nsub nmul ndiv none NumReal].
    replace (1 + 1) with 2 by lra.
    set (u := pymodR (x * (1 / PI)) 2). set (g := pymodR (y * (1 / PI)) 2).
    pose proof (pymod2_range (x * (1 / PI))) as Hu. pose proof (pymod2_range (y * (1 / PI))) as Hg.
    fold u in Hu. fold g in Hg.
    destruct (Rlt_dec (u - g) (-1)) as [C1|C1].
    - rewrite (pymod2_shift (u + (1 - g)) (-1)) by (simpl; lra).
      rewrite (pymod2_shift (g + (1 - u)) 1) by (simpl; lra). simpl.
      replace (u + (1 - g) - -1 * 2 - 1) with (u - g + 2) by lra.
      replace (g + (1 - u) - 1 * 2 - 1) with (- (u - g + 2)) by lra. now rewrite Rabs_Ropp.
    - destruct (Rlt_dec (u - g) 1) as [C2|C2].
      + destruct (Req_dec (u - g) (-1)) as [E|E].
        * rewrite (pymod2_shift (u + (1 - g)) 0) by (simpl; lra).
          rewrite (pymod2_shift (g + (1 - u)) 1) by (simpl; lra). simpl.
          replace (u + (1 - g) - 0 * 2 - 1) with (-1) by lra.
          replace (g + (1 - u) - 1 * 2 - 1) with (-1) by lra. reflexivity.
        * rewrite (pymod2_shift (u + (1 - g)) 0) by (simpl; lra).
          rewrite (pymod2_shift (g + (1 - u)) 0) by (simpl; lra). simpl.
          replace (u + (1 - g) - 0 * 2 - 1) with (u - g) by lra.
          replace (g + (1 - u) - 0 * 2 - 1) with (- (u - g)) by lra. now rewrite Rabs_Ropp.
      + destruct (Req_dec (u - g) 1) as [E|E].
        * rewrite (pymod2_shift (u + (1 - g)) 1) by (simpl; lra).
          rewrite (pymod2_shift (g + (1 - u)) 0) by (simpl; lra). simpl.
          replace (u + (1 - g) - 1 * 2 - 1) with (-1) by lra.
          replace (g + (1 - u) - 0 * 2 - 1) with (-1) by lra. reflexivity.
        * rewrite (pymod2_shift (u + (1 - g)) 1) by (simpl; lra).
          rewrite (pymod2_shift (g + (1 - u)) (-1)) by (simpl; lra). simpl.
          replace (u + (1 - g) - 1 * 2 - 1) with (u - g - 2) by lra.
          replace (g + (1 - u) - -1 * 2 - 1) with (- (u - g - 2)) by lra. now rewrite Rabs_Ropp.
  Qed.

  (** a truncated normal centred in a symmetric interval is even *)
  Lemma tlogpdf_even (b s z : R) :
    tlogpdf massA l2p (- b) b s (- z) = tlogpdf massA l2p (- b) b s z.
  Proof.
    unfold tlogpdf. cbn [nltb nsub nln nopp NumReal]. rewrite (lnphi_even l2p).
    assert (E1 : Rltb (- z) (- b) = Rltb b z).
    { destruct (Rltb b z) eqn:E; [apply Rltb_true in E; apply Rltb_true; lra|apply Rltb_false in E; apply Rltb_false; lra]. }
    assert (E2 : Rltb b (- z) = Rltb z (- b)).
    { destruct (Rltb z (- b)) eqn:E; [apply Rltb_true in E; apply Rltb_true; lra|apply Rltb_false in E; apply Rltb_false; lra]. }
    rewrite E1, E2. rewrite orb_comm. reflexivity.
  Qed.

  (** symmetric, as the class declares: q(x | y) = q(y | x) for all angles and widths *)
  Theorem ang_symmetric (std x y : R) :
    ang_logpdf1 massA l2p PI pymodR std x y = ang_logpdf1 massA l2p PI pymodR std y x.
  Proof.
    unfold ang_logpdf1. cbn [nmul ndiv nsub nopp none NumReal].
    pose proof (ang_shift_abs x y) as H.
    set (a := ang_shift PI pymodR x y - 1) in *. set (c := ang_shift PI pymodR y x - 1) in *.
    assert (E : a = c \/ a = - c).
    { unfold Rabs in H. destruct (Rcase_abs a), (Rcase_abs c); lra. }
    destruct E as [-> | ->]; [reflexivity|].
    replace (- c / (std * (1 / PI))) with (- (c / (std * (1 / PI)))) by (unfold Rdiv; ring).
    apply tlogpdf_even.
  Qed.

  (** the jump moves the angle by the accepted draw (in units of pi): wrapped distance = z *)
  Theorem ang_jump_distance (x z : R) : 0 < PI -> -1 < z < 1 ->
    ang_shift PI pymodR (ang_jump1 PI pymodR x z) x - 1 = z.
  Proof.
    intros Hpi Hz. unfold ang_shift, ang_jump1, ntwo. cbn [nadd nsub nmul ndiv none NumReal].
    replace (1 + 1) with 2 by lra.
    set (g := pymodR (x * (1 / PI)) 2).
    pose proof (pymod2_range (x * (1 / PI))) as Hg. fold g in Hg.
    assert (Ex : x * (1 / PI) = g + IZR (Zfloor (x * (1 / PI) / 2)) * 2) by (unfold g, pymodR; lra).
    set (k := Zfloor (x * (1 / PI) / 2)) in *.
    replace (pymodR (z + x * (1 / PI)) 2 * PI * (1 / PI)) with (pymodR (z + x * (1 / PI)) 2) by (field; lra).
    set (w := pymodR (z + x * (1 / PI)) 2).
    pose proof (pymod2_range (z + x * (1 / PI))) as Hw. fold w in Hw.
    (* w = z + g modulo 2 *)
    assert (Ew : exists j : Z, w = z + g - IZR j * 2).
    { unfold w, pymodR. exists (Zfloor ((z + x * (1 / PI)) / 2) - k)%Z. rewrite minus_IZR, Ex. ring. }
    destruct Ew as [j Ej].
    rewrite (pymod2_shift w 0) by (simpl; lra). simpl.
    assert (Hj : (j = -1 \/ j = 0 \/ j = 1)%Z).
    { assert (-3 < IZR j * 2 < 3) by lra.
      assert (-2 < IZR j < 2) by lra. destruct H0 as [A B].
      apply (lt_IZR (-2)) in A. apply (lt_IZR j 2) in B. lia. }
    destruct Hj as [-> | [-> | ->]]; simpl in Ej.
    - rewrite (pymod2_shift (w - 0 * 2 + (1 - g)) 1) by (simpl; lra). simpl. lra.
    - rewrite (pymod2_shift (w - 0 * 2 + (1 - g)) 0) by (simpl; lra). simpl. lra.
    - rewrite (pymod2_shift (w - 0 * 2 + (1 - g)) (-1)) by (simpl; lra). simpl. lra.
  Qed.
End Angular.
