(** The generated rendering of the source's integer decision logic ([Gen/Src.v], written by
    tools/py2coq.py from the current /repo on every run) equals the hand-written model, for ALL
    inputs.  When the source changes one of these decisions, the corresponding lemma stops
    compiling.  This file: the proposal clock (C15). *)
From Coq Require Import ZArith Bool Lia List.
From Coq Require Import ZifyBool ZifyNat.
From Epsie Require Import Base Clock Gen.Src.
Ltac Zify.zify_post_hook ::= Z.to_euclidean_division_equations.
Local Open Scope Z_scope.

Lemma of_nat_div (n k : nat) : Z.of_nat (n / k) = Z.of_nat n / Z.of_nat k.
Proof. apply Nat2Z.inj_div. Qed.
Lemma of_nat_mod (n k : nat) : (0 < k)%nat -> Z.of_nat (n mod k) = Z.of_nat n mod Z.of_nat k.
Proof. intros. apply Nat2Z.inj_mod. Qed.

(** ** the proposal clock (C15) *)
Lemma src_nsteps_tie (p : pclock) : src_nsteps (Z.of_nat (pk p)) (Z.of_nat (pn p)) = nsteps p.
Proof. unfold src_nsteps, nsteps. now rewrite of_nat_div. Qed.

Lemma src_call_jump_tie (p : pclock) : (1 <= pk p)%nat ->
  src_call_jump (Z.of_nat (pk p)) (pD p) (Z.of_nat (pn p)) (pstart p) = call_jump p.
Proof.
  intros Hk. unfold src_call_jump, call_jump, dk, nsteps. rewrite of_nat_div.
  assert (Em : (pn p mod pk p =? 0)%nat = (Z.of_nat (pn p) mod Z.of_nat (pk p) =? 0)).
  { rewrite <- of_nat_mod by lia. destruct (Nat.eqb_spec (pn p mod pk p) 0); destruct (Z.eqb_spec (Z.of_nat (pn p mod pk p)) 0); lia. }
  assert (Ek : (pk p =? 1)%nat = (Z.of_nat (pk p) =? 1)).
  { destruct (Nat.eqb_spec (pk p) 1); destruct (Z.eqb_spec (Z.of_nat (pk p)) 1); lia. }
  rewrite Em, Ek. clear Em Ek.
  destruct (pstart p) as [s|]; cbv zeta;
    repeat (match goal with |- context [if ?b then _ else _] => destruct b eqn:? end); lia.
Qed.

Lemma src_update_tie (p : pclock) : (1 <= pk p)%nat ->
  src_update (Z.of_nat (pk p)) (pD p) (Z.of_nat (pn p)) (pstart p) = (call_jump p, Z.of_nat (pn (tick p))).
Proof.
  intros Hk. unfold src_update. f_equal; [apply (src_call_jump_tie p Hk)|]. cbn [tick pn]. lia.
Qed.

