(** The scalar float kernels as written in /repo today ([Gen/SrcNum.v], regenerated on every run by
    tools/py2coq_num.py) equal the hand-written kernels of the model over the reals, for all
    inputs: the Metropolis-Hastings log-ratio and decision, the forced reject of [Chain.step], and
    the per-pair exchange kernel of [swap_temperatures].  (The float instance of the hand-written
    kernels is what the correspondence runs against the implementation; this file ties the
    theorems' instance to the source text.) *)
From Coq Require Import Reals Lra Bool List.
From Epsie Require Import Base Num NumR SweepNum SrcSupport Gen.SrcNum.
Local Open Scope R_scope.

(** case analysis on every comparison in the goal, then real arithmetic *)
Ltac rcases :=
  repeat match goal with
         | |- context [Rltb ?a ?b] => let H := fresh in destruct (Rltb a b) eqn:H;
                                       [apply Rltb_true in H|apply Rltb_false in H]
         | |- context [Rleb ?a ?b] => let H := fresh in destruct (Rleb a b) eqn:H;
                                       [apply Rleb_true in H|apply Rleb_false in H]
         end.
Ltac rfin := try reflexivity; try (exfalso; lra); try (f_equal; lra).

Lemma src_swap_logar_tie (betas : list R) (tj : nat) (loglj loglk : R) :
  src_swap_logar (nth (S tj) betas 0 - nth tj betas 0) loglj loglk = pair_logar betas tj loglj loglk.
Proof. unfold src_swap_logar, pair_logar. cbn. ring. Qed.

Lemma src_swap_decide_tie (logar u : R) :
  src_swap_decide logar u = let '(s, ar, d) := swap_decide logar u in SRet s ar d.
Proof.
  unfold src_swap_decide, swap_decide. cbn [nltb nleb nexp nzero none nofZ NumReal negb]. cbv zeta.
  rcases; rfin.
Qed.
