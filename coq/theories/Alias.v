(** Aliasing model for state snapshots and adaptation resets (C16, C19):
    numpy arrays are heap cells; an adaptive proposal holds references to cells
    ([_std], [_mean], [_unit_cov], ...).  Its [_update] either writes through a
    reference ([x *= a], [x += a]: Sivia-Skilling, Andrieu-Thoms) or rebinds the
    attribute to a fresh array (Veitch, eigenvector).  [state] hands out references
    or copies, [set_state] keeps the given references or copies them, depending on
    [copies] (true = the repaired code: copy.deepcopy in Chain.state/set_state).
    Cells carry a ghost owner tag used only by the proofs. *)
From Coq Require Import ZArith List Bool.
From Epsie Require Import Base.
Import ListNotations.

Definition loc := nat.
Definition arr := list Z.
Inductive owner := OSampler (s : nat) | OState (k : nat) | OInitial (s : nat).
Definition heap := list (owner * arr).

Definition hread (h : heap) (l : loc) : arr := snd (nth l h (OState 0, [])).
Definition htag (h : heap) (l : loc) : option owner := option_map fst (nth_error h l).
Definition hwrite (h : heap) (l : loc) (a : arr) : heap :=
  match nth_error h l with Some (o, _) => upd h l (o, a) | None => h end.
Definition halloc (h : heap) (o : owner) (a : arr) : heap * loc := (h ++ [(o, a)], length h).

(** allocate a copy of every referenced cell, tagged [o] *)
Fixpoint copy_all (h : heap) (o : owner) (ls : list loc) : heap * list loc :=
  match ls with
  | [] => (h, [])
  | l :: t => let '(h1, l') := halloc h o (hread h l) in
              let '(h2, t') := copy_all h1 o t in (h2, l' :: t')
  end.

Record world := {
  hp : heap;
  regs : list (list loc);        (* per sampler: the cells its adaptive attributes refer to *)
  inits : list (list loc);       (* per sampler: the cells stored as initial values for reset *)
  states : list (list loc)       (* state objects handed out so far *)
}.

Inductive op :=
| InPlace (s f : nat) (a : arr)          (* sampler s: attribute f is updated in place to contents a *)
| Rebind (s f : nat) (a : arr)           (* sampler s: attribute f is rebound to a new array a *)
| GetState (s : nat)                     (* read sampler s's state *)
| SetState (s k : nat)                   (* load state object k into sampler s *)
| Reset (s : nat).                       (* _reset_adaptation of sampler s *)

Section Exec.
  Variable copies : bool.                (* state/set_state deep-copy (repaired) *)
  Variable reset_copies : bool.          (* reset installs copies of the stored initial values (repaired) *)

  Definition set_regs (w : world) (s : nat) (r : list loc) : list (list loc) := upd (regs w) s r.

  Definition exec (w : world) (o : op) : world :=
    match o with
    | InPlace s f a =>
        let l := nth f (nth s (regs w) []) 0 in
        if (s <? length (regs w)) && (f <? length (nth s (regs w) []))
        then {| hp := hwrite (hp w) l a; regs := regs w; inits := inits w; states := states w |} else w
    | Rebind s f a =>
        if (s <? length (regs w)) && (f <? length (nth s (regs w) []))
        then let '(h, l) := halloc (hp w) (OSampler s) a in
             {| hp := h; regs := set_regs w s (upd (nth s (regs w) []) f l); inits := inits w; states := states w |}
        else w
    | GetState s =>
        if s <? length (regs w) then
          if copies
          then let '(h, ls) := copy_all (hp w) (OState (length (states w))) (nth s (regs w) []) in
               {| hp := h; regs := regs w; inits := inits w; states := states w ++ [ls] |}
          else {| hp := hp w; regs := regs w; inits := inits w; states := states w ++ [nth s (regs w) []] |}
        else w
    | SetState s k =>
        if (s <? length (regs w)) && (k <? length (states w)) then
          if copies
          then let '(h, ls) := copy_all (hp w) (OSampler s) (nth k (states w) []) in
               {| hp := h; regs := set_regs w s ls; inits := inits w; states := states w |}
          else {| hp := hp w; regs := set_regs w s (nth k (states w) []); inits := inits w; states := states w |}
        else w
    | Reset s =>
        if s <? length (regs w) then
          if reset_copies
          then let '(h, ls) := copy_all (hp w) (OSampler s) (nth s (inits w) []) in
               {| hp := h; regs := set_regs w s ls; inits := inits w; states := states w |}
          else {| hp := hp w; regs := set_regs w s (nth s (inits w) []); inits := inits w; states := states w |}
        else w
    end.

  Definition execs (w : world) (ops : list op) : world := fold_left exec ops w.
End Exec.

(** contents of a state object / of a sampler's attributes / of its stored initial values *)
Definition state_contents (w : world) (k : nat) : list arr := map (hread (hp w)) (nth k (states w) []).
Definition sampler_contents (w : world) (s : nat) : list arr := map (hread (hp w)) (nth s (regs w) []).
Definition init_contents (w : world) (s : nat) : list arr := map (hread (hp w)) (nth s (inits w) []).

(** construction: sampler s gets fresh cells for its attributes and, separately, for the stored initial values *)
Definition construct (vals : list (list arr)) : world :=
  fst (fold_left (fun '(w, s) v =>
         let '(h1, r) := fold_left (fun '(h, acc) a => let '(h', l) := halloc h (OSampler s) a in (h', acc ++ [l])) v (hp w, []) in
         let '(h2, i) := fold_left (fun '(h, acc) a => let '(h', l) := halloc h (OInitial s) a in (h', acc ++ [l])) v (h1, []) in
         ({| hp := h2; regs := regs w ++ [r]; inits := inits w ++ [i]; states := states w |}, S s))
       vals ({| hp := []; regs := []; inits := []; states := [] |}, 0)).
