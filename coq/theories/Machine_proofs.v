(** Proofs about the chain / parallel-tempered machine of [Machine.v]:
    the history invariant [Hist] (retained arrays = suffix of everything ever
    recorded), what the reads of the retained history return, preservation by
    every operation, and the consequences used by C06, C08, C09 and C18. *)
From Coq Require Import ZArith Lia.
From Epsie Require Import Base Machine.

(** ** generic list facts *)
Lemma firstn_upd_S {A} (l : list A) n v : n < length l -> firstn (S n) (upd l n v) = firstn n l ++ [v].
Proof.
  revert n; induction l as [|h t IH]; intros n Hn; [cbn in Hn; lia|].
  destruct n as [|n]; cbn [upd firstn app].
  - reflexivity.
  - f_equal. apply IH. cbn in Hn. lia.
Qed.

Lemma firstn_app_le {A} (l r : list A) n : n <= length l -> firstn n (l ++ r) = firstn n l.
Proof. intros H. rewrite firstn_app. replace (n - length l) with 0 by lia. now rewrite firstn_O, app_nil_r. Qed.

Lemma skipn_app_le {A} (l r : list A) n : n <= length l -> skipn n (l ++ r) = skipn n l ++ r.
Proof. intros H. rewrite skipn_app. replace (n - length l) with 0 by lia. reflexivity. Qed.

Lemma nth_error_last {A} (l : list A) d : l <> [] -> nth_error l (length l - 1) = Some (last l d).
Proof.
  induction l as [|h t IH]; [congruence|]. intros _. destruct t as [|h' t'].
  - reflexivity.
  - cbn [length]. replace (S (S (length t')) - 1) with (S (length (h' :: t') - 1)) by (cbn; lia).
    cbn [nth_error]. rewrite IH by congruence. reflexivity.
Qed.

Lemma last_skipn {A} (l : list A) n d : n < length l -> last (skipn n l) d = last l d.
Proof.
  revert n; induction l as [|h t IH]; intros n Hn; cbn in *; [lia|].
  destruct n; [reflexivity|]. cbn [skipn]. rewrite IH by lia. destruct t; [cbn in *; lia|reflexivity].
Qed.

Lemma last_app1 {A} (l : list A) x d : last (l ++ [x]) d = x.
Proof. apply last_last. Qed.

Lemma skipn_all' {A} (l : list A) n : length l <= n -> skipn n l = [].
Proof. intros. apply skipn_all2. lia. Qed.

Lemma firstn_pred_skipn {A} (l : list A) n :
  n < length l -> firstn (length (skipn n l) - 1) (skipn n l) = skipn n (firstn (length l - 1) l).
Proof.
  revert n; induction l as [|h t IH]; intros n Hn; cbn [length] in *; [lia|].
  destruct n.
  - cbn [skipn]. reflexivity.
  - cbn [skipn]. destruct t as [|h' t']; [cbn in *; lia|].
    replace (S (length (h' :: t')) - 1) with (S (length (h' :: t') - 1)) by (cbn; lia).
    cbn [firstn skipn]. apply IH. cbn in *; lia.
Qed.

Lemma firstn_pred_last {A} (l : list A) d : l <> [] -> firstn (length l - 1) l ++ [last l d] = l.
Proof.
  induction l as [|h t IH]; [congruence|]. intros _. destruct t as [|h' t']; [reflexivity|].
  replace (length (h :: h' :: t') - 1) with (S (length (h' :: t') - 1)) by (cbn; lia).
  cbn [firstn]. cbn [app]. f_equal. apply IH. congruence.
Qed.

Lemma nth_error_firstn' {A} (l : list A) n k : k < n -> nth_error (firstn n l) k = nth_error l k.
Proof.
  revert n k; induction l as [|h t IH]; intros n k H.
  - now rewrite firstn_nil.
  - destruct n; [lia|]. destruct k; cbn; auto. apply IH; lia.
Qed.

Lemma nth_error_skipn' {A} (l : list A) n k : nth_error (skipn n l) k = nth_error l (n + k).
Proof.
  revert n; induction l as [|h t IH]; intros n.
  - rewrite skipn_nil. destruct k, n; reflexivity.
  - destruct n; cbn; auto.
Qed.

Lemma map_last' {A B} (f : A -> B) (l : list A) d d' : l <> [] -> last (map f l) d' = f (last l d).
Proof.
  induction l as [|h t IH]; [congruence|]. intros _. destruct t as [|h' t']; [reflexivity|].
  cbn [map]. cbn [map] in IH. change (last (f h :: f h' :: map f t') d') with (last (f h' :: map f t') d').
  change (last (h :: h' :: t') d) with (last (h' :: t') d). apply IH. congruence.
Qed.

Section Proofs.
  Variable V : Type.
  Variable isneginf isnan : V -> bool.
  Variable vzero : V.
  Variable comps : list (list nat).

  Notation chain := (chain V). Notation ptchain := (ptchain V).
  Notation hrow := (hrow V). Notation sin := (sin V).
  Notation step := (step V isneginf vzero).
  Notation set_start := (set_start V isneginf isnan comps).
  Notation clear := (clear V).
  Notation set_scratchlen := (set_scratchlen V).
  Notation put_row := (put_row V vzero).
  Notation lastrow := (lastrow V vzero).
  Notation clen := (clen V).
  Notation cur_pos := (cur_pos V). Notation cur_stats := (cur_stats V). Notation cur_blob := (cur_blob V).

  (** ** scratch arrays *)
  Lemma sc_set_firstn {T} (l : scratch T) n v :
    n <= length l -> firstn (S n) (sc_set l n v) = firstn n l ++ [Some v].
  Proof.
    intros H. unfold sc_set. destruct (Nat.ltb_spec n (length l)) as [Hlt|Hge].
    - apply firstn_upd_S. exact Hlt.
    - assert (n = length l) as -> by lia. rewrite Nat.sub_diag. cbn [repeat app].
      rewrite firstn_all. replace (S (length l)) with (length (l ++ [Some v])) by (rewrite app_length; cbn; lia).
      apply firstn_all.
  Qed.

  Lemma sc_set_length_ge {T} (l : scratch T) n v : length l <= length (sc_set l n v) /\ n < length (sc_set l n v).
  Proof.
    unfold sc_set. destruct (Nat.ltb_spec n (length l)).
    - rewrite upd_length. lia.
    - rewrite !app_length, repeat_length. cbn. lia.
  Qed.

  Lemma sc_setlen_firstn {T} (l : scratch T) n m : n <= length l -> firstn n (sc_setlen l m) = firstn n l.
  Proof. intros H. unfold sc_setlen. destruct (length l <? m); [apply firstn_app_le; exact H|reflexivity]. Qed.

  Lemma sc_row_firstn {T} (l : scratch T) n k : k < n -> sc_row (firstn n l) k = sc_row l k.
  Proof.
    intros H. unfold sc_row. now rewrite nth_error_firstn' by exact H.
  Qed.

  (** ** The history invariant *)
  Record Hist (c : chain) : Prop := {
    H_le : lastclear V c <= iter V c;
    H_len : length (hist V c) = iter V c;
    H_P : firstn (clen c) (cP V c) = map (fun r : hrow => Some (h_pos V r)) (skipn (lastclear V c) (hist V c));
    H_S : firstn (clen c) (cS V c) = map (fun r : hrow => Some (h_stats V r)) (skipn (lastclear V c) (hist V c));
    H_A : firstn (clen c) (cA V c) = map (fun r : hrow => Some (h_acc V r)) (skipn (lastclear V c) (hist V c));
    H_B : hasblobs V c = true ->
          firstn (clen c) (cB V c) = map (fun r : hrow => Some (h_blob V r)) (skipn (lastclear V c) (hist V c));
    H_start : clen c = 0 -> 0 < iter V c ->
              start V c = Some (h_pos V (lastrow c)) /\ stats0 V c = Some (h_stats V (lastrow c))
              /\ (hasblobs V c = true -> blob0 V c = Some (h_blob V (lastrow c)))
  }.

  (** a chain whose start position has been set (so that it can be stepped) *)
  Definition Started (c : chain) : Prop :=
    (exists p, start V c = Some p) /\ (exists s, stats0 V c = Some s)
    /\ (hasblobs V c = true -> exists b, blob0 V c = Some b).

  Lemma view_row {T} (f : hrow -> T) (arr : scratch T) (c : chain) :
    Hist c -> 0 < clen c ->
    firstn (clen c) arr = map (fun r => Some (f r)) (skipn (lastclear V c) (hist V c)) ->
    sc_row arr (clen c - 1) = Some (f (lastrow c)).
  Proof.
    intros HI Hpos E. rewrite <- (sc_row_firstn arr (clen c)) by lia. rewrite E.
    unfold sc_row.
    assert (Hl : length (skipn (lastclear V c) (hist V c)) = clen c).
    { rewrite skipn_length, (H_len c HI). reflexivity. }
    pose proof (nth_error_last (map (fun r => Some (f r)) (skipn (lastclear V c) (hist V c))) None) as Hn.
    rewrite map_length, Hl in Hn. rewrite Hn.
    - rewrite (map_last' (fun r => Some (f r)) _ (dummy_row V vzero)).
      + unfold Machine.lastrow. rewrite last_skipn; [reflexivity|].
        rewrite (H_len c HI). unfold Machine.clen in *. lia.
      + intros E'. apply (f_equal (@length _)) in E'. rewrite Hl in E'. cbn in E'. lia.
    - intros E'. apply (f_equal (@length _)) in E'. rewrite map_length, Hl in E'. cbn in E'. lia.
  Qed.

  (** What every read of the retained history returns: the last record ever
      made — whatever [lastclear] and the scratch layout are. *)
  Lemma cur_of_hist (c : chain) :
    Hist c -> 0 < iter V c ->
    cur_pos c = Some (h_pos V (lastrow c)) /\ cur_stats c = Some (h_stats V (lastrow c))
    /\ (hasblobs V c = true -> cur_blob c = Some (h_blob V (lastrow c))).
  Proof.
    intros HI Hit. unfold Machine.cur_pos, Machine.cur_stats, Machine.cur_blob.
    destruct (Nat.eqb_spec (clen c) 0) as [E|E].
    - destruct (H_start c HI E Hit) as (A & B & C). repeat split; auto.
      intros Hb. rewrite Hb. cbn. auto.
    - assert (0 < clen c) by lia. repeat split.
      + apply (view_row (h_pos V)); auto. apply HI.
      + apply (view_row (h_stats V)); auto. apply HI.
      + intros Hb. rewrite Hb. cbn. apply (view_row (h_blob V)); auto. apply HI. exact Hb.
  Qed.

  Lemma cur_blob_noblobs (c : chain) : hasblobs V c = false -> cur_blob c = None.
  Proof. intros H. unfold Machine.cur_blob. now rewrite H. Qed.

  Lemma view_length {T} (f : hrow -> T) (arr : scratch T) (c : chain) :
    Hist c -> firstn (clen c) arr = map (fun r => Some (f r)) (skipn (lastclear V c) (hist V c)) ->
    clen c <= length arr.
  Proof.
    intros HI E. apply (f_equal (@length _)) in E.
    rewrite firstn_length, map_length, skipn_length, (H_len c HI) in E. unfold Machine.clen in *. lia.
  Qed.

  (** *** set_start on a fresh chain *)
  Lemma set_start_hist (c c' : chain) p o :
    iter V c = 0 -> lastclear V c = 0 -> hist V c = [] ->
    set_start c p o = Good c' -> Hist c' /\ Started c' /\ iter V c' = 0.
  Proof.
    intros Hi Hl Hh. unfold Machine.set_start. destruct o as [[logl logp] bl].
    destruct (isneginf logp); [discriminate|]. intros [= <-].
    split; [|split].
    - constructor; cbn; unfold Machine.clen; cbn; rewrite ?Hi, ?Hl, ?Hh; cbn; auto; try lia.
    - repeat split; cbn; eauto. destruct bl; [eauto|discriminate].
    - exact Hi.
  Qed.

  (** *** step *)
  Definition step_row (c : chain) (i : sin) : hrow :=
    let '(logl, logp, bl) := s_out V i in
    let '(accept, ar) :=
      if isneginf logp then (false, vzero)
      else match s_dec V i with Some d => d | None => (false, vzero) end in
    match cur_pos c, cur_stats c with
    | Some cp, Some cs =>
        {| h_pos := if accept then s_prop V i else cp;
           h_stats := if accept then (logl, logp) else cs;
           h_blob := if accept then oblob V bl else oblob V (cur_blob c);
           h_acc := (ar, accept) |}
    | _, _ => dummy_row V vzero
    end.

  Lemma step_fields (c c' : chain) (i : sin) :
    step c i = Good c' ->
    iter V c' = S (iter V c) /\ lastclear V c' = lastclear V c /\ scratchlen V c' = scratchlen V c
    /\ hist V c' = hist V c ++ [step_row c i]
    /\ calls V c' = calls V c ++ [(s_prop V i, s_out V i)]
    /\ hasblobs V c' = hasblobs V c
    /\ cP V c' = sc_set (cP V c) (clen c) (h_pos V (step_row c i))
    /\ cS V c' = sc_set (cS V c) (clen c) (h_stats V (step_row c i))
    /\ cA V c' = sc_set (cA V c) (clen c) (h_acc V (step_row c i))
    /\ cB V c' = (if hasblobs V c then sc_set (cB V c) (clen c) (h_blob V (step_row c i)) else cB V c)
    /\ proposed V c' = Some (s_prop V i)
    /\ start V c' = start V c /\ stats0 V c' = stats0 V c /\ blob0 V c' = blob0 V c.
  Proof.
    unfold Machine.step, step_row.
    destruct (cur_pos c) as [cp|]; [|discriminate]. destruct (cur_stats c) as [cs|]; [|discriminate].
    destruct (s_out V i) as [[logl logp] bl].
    destruct (if isneginf logp then (false, vzero) else match s_dec V i with Some d => d | None => (false, vzero) end)
      as [accept ar].
    intros [= <-]. cbn. repeat split; reflexivity.
  Qed.

  Lemma step_Hist (c c' : chain) (i : sin) : Hist c -> step c i = Good c' -> Hist c'.
  Proof.
    intros HI Hs. destruct (step_fields c c' i Hs)
      as (Ei & El & _ & Eh & _ & Eb & EP & ES & EA & EB & _).
    assert (Hlen := H_len c HI). assert (Hle := H_le c HI).
    assert (Ec : Machine.clen V c' = S (clen c)) by (unfold Machine.clen; rewrite Ei, El; lia).
    assert (Hsk : skipn (lastclear V c) (hist V c ++ [step_row c i])
                  = skipn (lastclear V c) (hist V c) ++ [step_row c i]) by (apply skipn_app_le; lia).
    constructor.
    - rewrite Ei, El. lia.
    - rewrite Eh, app_length, Ei. cbn. lia.
    - rewrite Ec, EP, El, Eh, Hsk, map_app. cbn [map].
      rewrite sc_set_firstn by (eapply (view_length (h_pos V)); [exact HI|apply HI]). now rewrite (H_P c HI).
    - rewrite Ec, ES, El, Eh, Hsk, map_app. cbn [map].
      rewrite sc_set_firstn by (eapply (view_length (h_stats V)); [exact HI|apply HI]). now rewrite (H_S c HI).
    - rewrite Ec, EA, El, Eh, Hsk, map_app. cbn [map].
      rewrite sc_set_firstn by (eapply (view_length (h_acc V)); [exact HI|apply HI]). now rewrite (H_A c HI).
    - rewrite Eb. intros Hb. rewrite Ec, EB, Hb, El, Eh, Hsk, map_app. cbn [map].
      rewrite sc_set_firstn by (eapply (view_length (h_blob V)); [exact HI|apply HI; exact Hb]).
      now rewrite (H_B c HI Hb).
    - rewrite Ec. lia.
  Qed.

  Lemma step_ok (c : chain) (i : sin) :
    Hist c -> Started c -> exists c', step c i = Good c'.
  Proof.
    intros HI ((p & Hp) & (s & Hs) & _).
    assert (exists cp cs, cur_pos c = Some cp /\ cur_stats c = Some cs) as (cp & cs & E1 & E2).
    { destruct (Nat.eq_dec (iter V c) 0) as [E|E].
      - unfold Machine.cur_pos, Machine.cur_stats, Machine.clen. rewrite E. cbn. eauto.
      - destruct (cur_of_hist c HI) as (A & B & _); [lia|]. eauto. }
    unfold Machine.step. rewrite E1, E2. destruct (s_out V i) as [[logl logp] bl].
    destruct (if isneginf logp then (false, vzero) else match s_dec V i with Some d => d | None => (false, vzero) end).
    eauto.
  Qed.

  Lemma step_Started (c c' : chain) (i : sin) : Started c -> step c i = Good c' -> Started c'.
  Proof.
    intros HS Hs. destruct (step_fields c c' i Hs) as (_ & _ & _ & _ & _ & Eb & _ & _ & _ & _ & _ & E1 & E2 & E3).
    unfold Started. rewrite E1, E2, E3, Eb. exact HS.
  Qed.

  (** *** clear *)
  Lemma clear_Hist (c : chain) : Hist c -> Hist (clear c).
  Proof.
    intros HI. unfold Machine.clear. destruct (Nat.ltb_spec 0 (iter V c)) as [Hpos|Hz].
    - destruct (cur_of_hist c HI Hpos) as (A & B & C).
      constructor; cbn; unfold Machine.clen; cbn; rewrite ?Nat.sub_diag; auto.
      + apply HI.
      + now rewrite skipn_all' by (rewrite (H_len c HI); lia).
      + now rewrite skipn_all' by (rewrite (H_len c HI); lia).
      + now rewrite skipn_all' by (rewrite (H_len c HI); lia).
      + intros _. now rewrite skipn_all' by (rewrite (H_len c HI); lia).
      + intros _ _. unfold Machine.lastrow. cbn. repeat split; auto.
        intros Hb. rewrite Hb. auto.
    - assert (iter V c = 0) by lia. assert (lastclear V c = 0) by (pose proof (H_le c HI); lia).
      destruct HI as [a b cP' cS' cA' cB' st]. unfold Machine.clen in *.
      constructor; cbn; unfold Machine.clen; cbn; rewrite ?H, ?H0 in *; auto; try lia.
  Qed.

  Lemma clear_Started (c : chain) : Hist c -> Started c -> Started (clear c).
  Proof.
    intros HI HS. unfold Machine.clear. destruct (Nat.ltb_spec 0 (iter V c)) as [Hpos|Hz]; [|exact HS].
    destruct (cur_of_hist c HI Hpos) as (A & B & C). unfold Started; cbn. repeat split; eauto.
    intros Hb. rewrite Hb. eauto.
  Qed.

  Lemma clear_ghost (c : chain) :
    hist V (clear c) = hist V c /\ calls V (clear c) = calls V c /\ iter V (clear c) = iter V c
    /\ proposed V (clear c) = proposed V c /\ active V (clear c) = active V c /\ hasblobs V (clear c) = hasblobs V c.
  Proof. unfold Machine.clear. destruct (0 <? iter V c); cbn; repeat split; reflexivity. Qed.

  (** [clear] changes nothing that a later step reads *)
  Lemma clear_cur (c : chain) :
    Hist c -> cur_pos (clear c) = cur_pos c /\ cur_stats (clear c) = cur_stats c /\ cur_blob (clear c) = cur_blob c.
  Proof.
    intros HI. destruct (Nat.ltb_spec 0 (iter V c)) as [Hpos|Hz].
    - pose proof (clear_Hist c HI) as HI'. destruct (clear_ghost c) as (Eh & _ & Ei & _ & _ & Eb).
      destruct (cur_of_hist c HI Hpos) as (A & B & C).
      destruct (cur_of_hist (clear c) HI') as (A' & B' & C'); [lia|].
      unfold Machine.lastrow in *. rewrite Eh in *. rewrite A, B, A', B'. repeat split.
      destruct (hasblobs V c) eqn:Hb.
      + rewrite C, C' by (rewrite ?Eb; auto). reflexivity.
      + rewrite !cur_blob_noblobs by (rewrite ?Eb; auto). reflexivity.
    - unfold Machine.clear. replace (0 <? iter V c) with false by (symmetry; apply Nat.ltb_ge; lia).
      assert (iter V c = 0) by lia. assert (lastclear V c = 0) by (pose proof (H_le c HI); lia).
      unfold Machine.cur_pos, Machine.cur_stats, Machine.cur_blob, Machine.clen; cbn. rewrite H, H0. auto.
  Qed.

  (** *** scratch growth *)
  Lemma set_scratchlen_Hist (c : chain) n : Hist c -> Hist (set_scratchlen c n).
  Proof.
    intros HI. constructor; cbn; unfold Machine.clen; cbn; try apply HI.
    - rewrite sc_setlen_firstn; [apply HI|]. eapply (view_length (h_pos V)); [exact HI|apply HI].
    - rewrite sc_setlen_firstn; [apply HI|]. eapply (view_length (h_stats V)); [exact HI|apply HI].
    - rewrite sc_setlen_firstn; [apply HI|]. eapply (view_length (h_acc V)); [exact HI|apply HI].
    - intros Hb. rewrite Hb. rewrite sc_setlen_firstn; [apply HI; exact Hb|].
      eapply (view_length (h_blob V)); [exact HI|apply HI; exact Hb].
  Qed.

  Lemma set_scratchlen_cur (c : chain) n :
    Hist c -> cur_pos (set_scratchlen c n) = cur_pos c /\ cur_stats (set_scratchlen c n) = cur_stats c
              /\ cur_blob (set_scratchlen c n) = cur_blob c.
  Proof.
    intros HI. destruct (Nat.eq_dec (iter V c) 0) as [E|E].
    - assert (lastclear V c = 0) by (pose proof (H_le c HI); lia).
      unfold Machine.cur_pos, Machine.cur_stats, Machine.cur_blob, Machine.clen; cbn. rewrite E, H. auto.
    - pose proof (set_scratchlen_Hist c n HI) as HI'.
      destruct (cur_of_hist c HI) as (A & B & C); [lia|].
      destruct (cur_of_hist _ HI') as (A' & B' & C'); [cbn; lia|].
      rewrite A, B, A', B'. repeat split.
      destruct (hasblobs V c) eqn:Hb.
      + rewrite C, C'; auto.
      + rewrite !cur_blob_noblobs; auto.
  Qed.

  (** *** per-index access *)
  Theorem getitem_spec (c : chain) (i : Z) :
    Hist c -> (- Z.of_nat (clen c) <= i < Z.of_nat (clen c))%Z ->
    exists r, nth_error (hist V c) (lastclear V c + Z.to_nat (i mod Z.of_nat (clen c))) = Some r
              /\ getitem V c i = Good (Some (h_pos V r), Some (h_stats V r), Some (h_acc V r),
                                        if hasblobs V c then Some (h_blob V r) else None).
  Proof.
    intros HI Hi. unfold Machine.getitem.
    assert (Hn : clen c <> 0) by lia.
    replace (clen c =? 0) with false by (symmetry; apply Nat.eqb_neq; exact Hn).
    set (k := Z.to_nat (i mod Z.of_nat (clen c))).
    assert (Hk : k < clen c).
    { unfold k. pose proof (Z.mod_pos_bound i (Z.of_nat (clen c))). lia. }
    assert (Hlen := H_len c HI).
    destruct (nth_error (hist V c) (lastclear V c + k)) as [r|] eqn:Er.
    2:{ apply nth_error_None in Er. unfold Machine.clen in *. lia. }
    exists r. split; [reflexivity|].
    assert (Hrow : forall T (f : hrow -> T) (arr : scratch T),
               firstn (clen c) arr = map (fun r => Some (f r)) (skipn (lastclear V c) (hist V c)) ->
               sc_row arr k = Some (f r)).
    { intros T f arr E. rewrite <- (sc_row_firstn arr (clen c)) by exact Hk. rewrite E.
      unfold sc_row. rewrite nth_error_map, nth_error_skipn', Er. reflexivity. }
    rewrite (Hrow _ (h_pos V) _ (H_P c HI)), (Hrow _ (h_stats V) _ (H_S c HI)), (Hrow _ (h_acc V) _ (H_A c HI)).
    destruct (hasblobs V c) eqn:Hb; [|reflexivity].
    now rewrite (Hrow _ (h_blob V) _ (H_B c HI Hb)).
  Qed.

  (** ** Ghost equivalence: two chains that made the same records (whatever
      their scratch layout, [lastclear] and start bookkeeping) *)
  Record geq (c d : chain) : Prop := {
    g_iter : iter V c = iter V d;
    g_hist : hist V c = hist V d;
    g_calls : calls V c = calls V d;
    g_prop : proposed V c = proposed V d;
    g_act : active V c = active V d;
    g_pact : proposed_active V c = proposed_active V d;
    g_blobs : hasblobs V c = hasblobs V d;
    g_init : iter V c = 0 -> start V c = start V d /\ stats0 V c = stats0 V d /\ blob0 V c = blob0 V d
  }.

  Lemma geq_refl c : geq c c.
  Proof. constructor; auto. Qed.
  Lemma geq_sym c d : geq c d -> geq d c.
  Proof. intros [a b c0 d0 e f g h]. constructor; auto. intros E. rewrite <- a in E. destruct (h E) as (x & y & z). auto. Qed.
  Lemma geq_trans c d e : geq c d -> geq d e -> geq c e.
  Proof.
    intros [a b c0 d0 e0 f g h] [a' b' c' d' e' f' g' h']. constructor; try congruence.
    intros E. destruct (h E) as (x & y & z). rewrite a in E. destruct (h' E) as (x' & y' & z'). repeat split; congruence.
  Qed.

  Lemma geq_cur c d :
    Hist c -> Hist d -> geq c d ->
    cur_pos c = cur_pos d /\ cur_stats c = cur_stats d /\ cur_blob c = cur_blob d.
  Proof.
    intros HC HD G. destruct (Nat.eq_dec (iter V c) 0) as [E|E].
    - assert (E' : iter V d = 0) by (rewrite <- (g_iter _ _ G); exact E).
      assert (lastclear V c = 0) by (pose proof (H_le c HC); lia).
      assert (lastclear V d = 0) by (pose proof (H_le d HD); lia).
      destruct (g_init _ _ G E) as (A & B & C).
      unfold Machine.cur_pos, Machine.cur_stats, Machine.cur_blob, Machine.clen.
      rewrite E, E', H, H0, (g_blobs _ _ G). cbn. rewrite A, B, C. auto.
    - destruct (cur_of_hist c HC) as (A & B & C); [lia|].
      destruct (cur_of_hist d HD) as (A' & B' & C'); [rewrite <- (g_iter _ _ G); lia|].
      unfold Machine.lastrow in *. rewrite (g_hist _ _ G) in *. rewrite A, B, A', B'. repeat split.
      destruct (hasblobs V c) eqn:Hb.
      + rewrite C, C' by (rewrite <- ?(g_blobs _ _ G); auto). reflexivity.
      + rewrite !cur_blob_noblobs by (rewrite <- ?(g_blobs _ _ G); auto). reflexivity.
  Qed.

  Lemma geq_step_row c d i : Hist c -> Hist d -> geq c d -> step_row c i = step_row d i.
  Proof. intros HC HD G. destruct (geq_cur c d HC HD G) as (A & B & C). unfold step_row. now rewrite A, B, C. Qed.

  Lemma geq_step c d c' i :
    Hist c -> Hist d -> geq c d -> step c i = Good c' ->
    exists d', step d i = Good d' /\ geq c' d'.
  Proof.
    intros HC HD G Hs.
    assert (exists d', step d i = Good d') as [d' Hd].
    { destruct (geq_cur c d HC HD G) as (A & B & _). unfold Machine.step in *. rewrite <- A, <- B.
      destruct (cur_pos c); [|discriminate]. destruct (cur_stats c); [|discriminate].
      destruct (s_out V i) as [[logl logp] bl].
      destruct (if isneginf logp then (false, vzero) else match s_dec V i with Some d0 => d0 | None => (false, vzero) end).
      eauto. }
    exists d'. split; [exact Hd|].
    destruct (step_fields c c' i Hs) as (Ei & _ & _ & Eh & Ec & Eb & _ & _ & _ & _ & Ep & _).
    destruct (step_fields d d' i Hd) as (Ei' & _ & _ & Eh' & Ec' & Eb' & _ & _ & _ & _ & Ep' & _).
    constructor.
    - rewrite Ei, Ei', (g_iter _ _ G). reflexivity.
    - rewrite Eh, Eh', (g_hist _ _ G), (geq_step_row c d i HC HD G). reflexivity.
    - rewrite Ec, Ec', (g_calls _ _ G). reflexivity.
    - rewrite Ep, Ep'. reflexivity.
    - destruct (geq_cur c d HC HD G) as (A & B & _).
      unfold Machine.step in Hs, Hd. rewrite <- A, <- B in Hd.
      destruct (cur_pos c); [|discriminate]. destruct (cur_stats c); [|discriminate].
      destruct (s_out V i) as [[logl logp] bl].
      destruct (if isneginf logp then (false, vzero) else match s_dec V i with Some d0 => d0 | None => (false, vzero) end) as [acc ar].
      injection Hs as <-. injection Hd as <-. cbn. now rewrite (g_act _ _ G).
    - unfold Machine.step in Hs, Hd. destruct (geq_cur c d HC HD G) as (A & B & _). rewrite <- A, <- B in Hd.
      destruct (cur_pos c); [|discriminate]. destruct (cur_stats c); [|discriminate].
      destruct (s_out V i) as [[logl logp] bl].
      destruct (if isneginf logp then (false, vzero) else match s_dec V i with Some d0 => d0 | None => (false, vzero) end) as [acc ar].
      injection Hs as <-. injection Hd as <-. reflexivity.
    - rewrite Eb, Eb'. apply G.
    - rewrite Ei. discriminate.
  Qed.

  Lemma geq_clear c : Hist c -> geq (clear c) c.
  Proof.
    intros HI. destruct (clear_ghost c) as (A & B & C & D & E & F).
    constructor; auto.
    - unfold Machine.clear. destruct (0 <? iter V c); reflexivity.
    - rewrite C. intros Hz. unfold Machine.clear. rewrite Hz. cbn. auto.
  Qed.

  Lemma geq_set_scratchlen c n : geq (set_scratchlen c n) c.
  Proof. constructor; cbn; auto. Qed.
End Proofs.
