(** The annealed ladder does not depend on how a run is split or when memory is cleared: it is a
    function of the sweeps made, and every schedule of runs and clears makes the sweeps of the
    uninterrupted run ([PT_proofs.schedule_independent]). *)
From Coq Require Import ZArith List.
From Epsie Require Import Base Num Ladder Machine Machine_proofs PT_proofs Anneal_machine.
Import ListNotations.

Section AMP.
  Context {T : Type} `{Num T}.
  Variable isneginf isnan : T -> bool.
  Variable vzero : T.
  Variable comps : list (list nat).

  Lemma ladder_of_geq (nu tau : T) (st0 : @lstate T) (p q : ptchain T) :
    PTgeq T p q -> ladder_of nu tau st0 p = ladder_of nu tau st0 q.
  Proof. intros G. unfold ladder_of. now rewrite (G_si T p q G), (G_sw T p q G). Qed.

  Theorem ladder_schedule_independent (nu tau : T) (st0 : @lstate T) (ops : list (op T)) (p p' : ptchain T) :
    PTInv T vzero p -> Forall (run_or_clear T) ops ->
    execs T isneginf isnan vzero comps p ops = Good p' ->
    exists q', run_steps T isneginf vzero p (all_steps T ops) = Good q'
               /\ ladder_of nu tau st0 p' = ladder_of nu tau st0 q'.
  Proof.
    intros HI HF He.
    destruct (schedule_independent T isneginf isnan vzero comps ops p p p' HI HI (PTgeq_refl T p) HF He) as (q' & Hq & G & _).
    exists q'. split; [exact Hq|]. apply ladder_of_geq. exact G.
  Qed.
End AMP.
