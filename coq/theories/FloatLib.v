(** Elementary functions over Coq's primitive binary64 floats, for the EXECUTION
    layer only (no theorem mentions them).  They let the float instance of the
    numeric kernels run under [vm_compute] against numpy/scipy.  Accuracy is about
    1e-15 relative (validated against the libraries on every run by the
    correspondence checks, which compare with tolerance 1e-9); +,-,*,/ and sqrt
    are the IEEE primitives and are bit-exact. *)
From Coq Require Import ZArith List.
From Coq Require Import PrimFloat.
From Coq Require Uint63 FloatOps.
Import ListNotations.
Local Open Scope float_scope.

Definition fzero : float := 0.
Definition fone : float := 1.
Definition ftwo : float := 2.
Definition fhalf : float := 0.5.
Definition fnan : float := nan.
Definition finf : float := infinity.
Definition fninf : float := neg_infinity.
Definition is_nanb (x : float) : bool := negb (PrimFloat.eqb x x).
Definition fmax (x y : float) := if PrimFloat.ltb x y then y else x.
Definition fmin (x y : float) := if PrimFloat.ltb y x then y else x.

(** integer part helpers *)
Definition float_of_Z (z : Z) : float :=
  match z with
  | Z0 => 0
  | Zpos _ => of_uint63 (Uint63.of_Z z)
  | Zneg p => - of_uint63 (Uint63.of_Z (Zpos p))
  end.

(** floor of a finite float, as an integer (0 for nan/inf) *)
Definition Zfloor (x : float) : Z :=
  match FloatOps.Prim2SF x with
  | SpecFloat.S754_finite s m e =>
      let v := match e with
               | Z0 => Zpos m
               | Zpos p => (Zpos m * 2 ^ Zpos p)%Z
               | Zneg p => if s then (- ((- Zpos m) / 2 ^ Zpos p))%Z      (* keep sign handling below *)
                           else (Zpos m / 2 ^ Zpos p)%Z
               end in
      match e with
      | Zneg p => if s then ((- Zpos m) / 2 ^ Zpos p)%Z else v
      | _ => if s then (- v)%Z else v
      end
  | _ => 0%Z
  end.

Definition ffloor (x : float) : float :=
  if is_nanb x then x
  else if PrimFloat.leb 0x1p+52 (abs x) then x
  else let f := float_of_Z (Zfloor x) in
       (* keep the sign of zero results of negative inputs irrelevant: numpy.floor(-0.5) = -1 *)
       f.
Definition fceil (x : float) : float := - ffloor (- x).
(** round half to even, as numpy.round / python round(x) *)
Definition fround (x : float) : float :=
  if is_nanb x then x
  else if PrimFloat.leb 0x1p+52 (abs x) then x
  else let f := ffloor x in
       let d := x - f in
       if PrimFloat.ltb d 0.5 then f
       else if PrimFloat.ltb 0.5 d then f + 1
       else if Z.even (Zfloor x) then f else f + 1.
Definition fsign (x : float) : float :=
  if PrimFloat.ltb 0 x then 1 else if PrimFloat.ltb x 0 then -1 else if is_nanb x then x else 0.

Definition pow2 (k : Z) : float := ldshiftexp 1 (Uint63.of_Z (k + FloatOps.shift)).

(** ** exp *)
Definition ln2_hi : float := 0x1.62e42fee00000p-1.
Definition ln2_lo : float := 0x1.a39ef35793c76p-33.
Definition inv_ln2 : float := 0x1.71547652b82fep+0.

Fixpoint horner (cs : list float) (x : float) : float :=
  match cs with
  | [] => 0
  | c :: t => c + x * horner t x
  end.

(** 1/n! for n = 0..17 *)
Definition inv_fact : list float :=
  [1; 1; 0.5; 0x1.5555555555555p-3; 0x1.5555555555555p-5; 0x1.1111111111111p-7; 0x1.6c16c16c16c17p-10;
   0x1.a01a01a01a01ap-13; 0x1.a01a01a01a01ap-16; 0x1.71de3a556c734p-19; 0x1.27e4fb7789f5cp-22;
   0x1.ae64567f544e4p-26; 0x1.1eed8eff8d898p-29; 0x1.6124613a86d09p-33; 0x1.93974a8c07c9dp-37;
   0x1.ae7f3e733b81fp-41; 0x1.ae7f3e733b81fp-45; 0x1.952c77030ad4ap-49].

Definition fexp (x : float) : float :=
  if is_nanb x then x
  else if PrimFloat.ltb 709.782712893384 x then infinity
  else if PrimFloat.ltb x (-745.2) then 0
  else
    let k := Zfloor (x * inv_ln2 + 0.5) in
    let kf := float_of_Z k in
    let r := (x - kf * ln2_hi) - kf * ln2_lo in
    let e := horner inv_fact r in
    (* split the scaling so that subnormal results are reached without overflow of 2^k *)
    let k1 := (k / 2)%Z in
    e * pow2 k1 * pow2 (k - k1).

(** ** ln *)
Definition ln2 : float := 0x1.62e42fefa39efp-1.
Definition sqrt_half : float := 0x1.6a09e667f3bcdp-1.

(** 2*atanh(s) = 2 (s + s^3/3 + s^5/5 + ...) *)
Definition atanh_coeffs : list float :=
  [1; 0x1.5555555555555p-2; 0x1.999999999999ap-3; 0x1.2492492492492p-3; 0x1.c71c71c71c71cp-4;
   0x1.745d1745d1746p-4; 0x1.3b13b13b13b14p-4; 0x1.1111111111111p-4; 0x1.e1e1e1e1e1e1ep-5;
   0x1.af286bca1af28p-5; 0x1.8618618618618p-5; 0x1.642c8590b2164p-5; 0x1.47ae147ae147bp-5].

Definition fln (x : float) : float :=
  if is_nanb x then x
  else if PrimFloat.ltb x 0 then nan
  else if PrimFloat.eqb x 0 then neg_infinity
  else if PrimFloat.eqb x infinity then infinity
  else
    let '(m0, e0) := frshiftexp x in
    let e := (Uint63.to_Z e0 - FloatOps.shift)%Z in
    let '(m, e) := if PrimFloat.ltb m0 sqrt_half then (m0 * 2, (e - 1)%Z) else (m0, e) in
    let s := (m - 1) / (m + 1) in
    let s2 := s * s in
    float_of_Z e * ln2 + 2 * s * horner atanh_coeffs s2.

Definition ln10 : float := 0x1.26bb1bbb55516p+1.
Definition flog10 (x : float) : float := fln x / ln10.

(** x ** y for the uses in the code (positive bases; 0 and 1 handled) *)
Definition fpow (x y : float) : float :=
  if PrimFloat.eqb y 0 then 1
  else if PrimFloat.eqb x 1 then 1
  else if PrimFloat.eqb y 1 then x
  else if PrimFloat.eqb y 2 then x * x
  else if PrimFloat.eqb y 0.5 then sqrt x
  else if PrimFloat.eqb x 0 then (if PrimFloat.ltb 0 y then 0 else infinity)
  else fexp (y * fln x).

Definition fsinh (x : float) : float :=
  if PrimFloat.ltb (abs x) 0.3
  then let x2 := x * x in
       x * horner [1; 0x1.5555555555555p-3; 0x1.1111111111111p-7; 0x1.a01a01a01a01ap-13; 0x1.71de3a556c734p-19;
                   0x1.ae64567f544e4p-26; 0x1.6124613a86d09p-33] x2
  else (fexp x - fexp (- x)) / 2.
