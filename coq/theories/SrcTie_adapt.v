(** The scalar arithmetic inside the guarded block of each adaptive [_update] as written in /repo
    today ([Gen/SrcAdapt.v], regenerated on every run by tools/py2coq_num.py) equals the
    hand-written update kernels over the reals, for all inputs: the decaying gain, the sign and
    size of the Robbins-Monro step of every log-scale (global, componentwise, eigenvector,
    solid-angle concentration), the Veitch increment, and the ratio 0 of a virtual move that leaves
    the prior.  Decimal literals of the source are read as exact rationals. *)
From Coq Require Import Reals Lra ZArith List Bool.
From Epsie Require Import Base Num NumR Adapt AdaptM Gen.SrcAdapt.
Local Open Scope R_scope.

Ltac num_unfold := cbn [nadd nsub nmul ndiv nopp nexp nln nofZ nzero none nltb nisneginf NumReal].

(** equalities of real expressions that differ by how constants are written (3/5 vs 6/10, /10 vs 1/10):
    descend through the shared structure, then linear / field arithmetic *)
Ltac rsolve :=
  first [ reflexivity | lra | (field; lra) | (f_equal; rsolve) ].

(** ** gains *)
Lemma src_veitch_factor_tie (p : @veitch R) nsteps :
  src_veitch_factor (IZR (dkZ nsteps (v_start p))) (v_decay p) = veitch_factor p nsteps.
Proof. unfold src_veitch_factor, veitch_factor, ntenth, nten, npow. num_unfold. rsolve. Qed.

Lemma src_rm_factor_tie (dk : Z) (c : R) :
  src_at_factor (IZR dk) c = rm_factor dk c /\ src_eig_factor (IZR dk) c = rm_factor dk c
  /\ src_kappa_factor (IZR dk) c = rm_factor dk c.
Proof.
  unfold src_at_factor, src_eig_factor, src_kappa_factor, rm_factor, n06, nten, npow. num_unfold.
  repeat split; rsolve.
Qed.

(** ** log-scale steps *)
Lemma src_at_log_tie (p : @at_state R) nsteps ar x : at_window p nsteps = true ->
  a_loglam (at_update p nsteps ar x)
  = src_at_log (a_loglam p) (src_at_factor (IZR (dkZ nsteps (a_start p))) (a_decayc p)) ar (a_target p).
Proof.
  intros Hw. unfold at_update. rewrite Hw. cbn [a_loglam]. destruct (src_rm_factor_tie (dkZ nsteps (a_start p)) (a_decayc p)) as (E & _).
  rewrite E. unfold src_at_log. num_unfold. ring.
Qed.

Lemma src_atf_log_tie (p : @atf_state R) nsteps ar x : atf_window p nsteps = true ->
  f_loglam (atf_update p nsteps ar x)
  = src_at_log (f_loglam p) (src_at_factor (IZR (dkZ nsteps (f_start p))) (f_decayc p)) ar (f_target p).
Proof.
  intros Hw. unfold atf_update. rewrite Hw. cbn [f_loglam]. destruct (src_rm_factor_tie (dkZ nsteps (f_start p)) (f_decayc p)) as (E & _).
  rewrite E. unfold src_at_log. num_unfold. ring.
Qed.

Lemma nth_map2_loglam (d t : R) : forall (ls als : list R) k, (k < length ls)%nat -> (k < length als)%nat ->
  nth k (map2 (fun l a => l + d * (a - t)) ls als) 0 = nth k ls 0 + src_cw_dlog d (nth k als 0) t.
Proof.
  induction ls as [|l ls IH]; intros [|a als] k Hk Hk'; cbn in Hk, Hk'; try (exfalso; inversion Hk; fail); try (exfalso; inversion Hk'; fail).
  destruct k; cbn [map2 nth]; [unfold src_cw_dlog; num_unfold; ring|]. apply IH; auto with arith.
Qed.

Lemma src_cw_log_tie (p : @atc_state R) nsteps ars x i : atc_window p nsteps = true ->
  (i < length (c_loglam p))%nat -> (i < length ars)%nat ->
  nth i (c_loglam (atc_update p nsteps ars x)) 0
  = nth i (c_loglam p) 0 + src_cw_dlog (src_at_factor (IZR (dkZ nsteps (c_start p))) (c_decayc p)) (nth i ars 0) (c_target p).
Proof.
  intros Hw Hi Ha. unfold atc_update. rewrite Hw. cbn [c_loglam].
  destruct (src_rm_factor_tie (dkZ nsteps (c_start p)) (c_decayc p)) as (E & _). rewrite E.
  apply (nth_map2_loglam (rm_factor (dkZ nsteps (c_start p)) (c_decayc p)) (c_target p)); assumption.
Qed.

Lemma src_cwf_log_tie (p : @atcf_state R) nsteps ars x i : atcf_window p nsteps = true ->
  (i < length (g_loglam p))%nat -> (i < length ars)%nat ->
  nth i (g_loglam (atcf_update p nsteps ars x)) 0
  = nth i (g_loglam p) 0 + src_cw_dlog (src_at_factor (IZR (dkZ nsteps (g_start p))) (g_decayc p)) (nth i ars 0) (g_target p).
Proof.
  intros Hw Hi Ha. unfold atcf_update. rewrite Hw. cbn [g_loglam].
  destruct (src_rm_factor_tie (dkZ nsteps (g_start p)) (g_decayc p)) as (E & _). rewrite E.
  apply (nth_map2_loglam (rm_factor (dkZ nsteps (g_start p)) (g_decayc p)) (g_target p)); assumption.
Qed.

(** a virtual move that leaves the prior counts with ratio 0 (there is no -inf among the reals: the
    statement is about the numeric class's recogniser, instantiated) *)
Lemma src_cw_forced_tie (logp inner : R) : src_cw_dlog_ar logp inner = inner.
Proof. unfold src_cw_dlog_ar. num_unfold. reflexivity. Qed.

Lemma src_eig_log_tie (p : @rm_state R) nsteps ar : rm_window p nsteps = true ->
  r_log (eig_update p nsteps ar)
  = src_eig_log (r_log p) (src_eig_factor (IZR (dkZ nsteps (r_start p))) (r_decayc p)) ar (r_target p).
Proof.
  intros Hw. unfold eig_update. rewrite Hw. cbn [r_log]. destruct (src_rm_factor_tie (dkZ nsteps (r_start p)) (r_decayc p)) as (_ & E & _).
  rewrite E. unfold src_eig_log. num_unfold. ring.
Qed.

Lemma src_kappa_log_tie (p : @rm_state R) nsteps ar : rm_window p nsteps = true ->
  r_log (kappa_update p nsteps ar)
  = src_kappa_log (r_log p) (src_kappa_factor (IZR (dkZ nsteps (r_start p))) (r_decayc p)) ar (r_target p).
Proof.
  intros Hw. unfold kappa_update. rewrite Hw. cbn [r_log]. destruct (src_rm_factor_tie (dkZ nsteps (r_start p)) (r_decayc p)) as (_ & _ & E).
  rewrite E. unfold src_kappa_log. num_unfold. ring.
Qed.

(** ** Veitch increment *)
Lemma src_veitch_step_tie (accepted : bool) (target d s delta : R) :
  veitch_new_std (if accepted then 1 - target else - target) d s delta
  = (let n := s + src_veitch_dsigma (src_veitch_alpha accepted target) d delta in if Rltb n 0 then s else n).
Proof.
  unfold veitch_new_std, src_veitch_dsigma, src_veitch_alpha, nten. num_unfold. cbv zeta.
  match goal with
  | |- (if Rltb ?a 0 then _ else _) = (if Rltb ?b 0 then _ else _) => replace b with a by (destruct accepted; field)
  end. reflexivity.
Qed.
