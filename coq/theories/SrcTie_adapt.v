(** The scalar arithmetic inside the guarded block of each adaptive [_update] as written in /repo
    today ([Gen/SrcAdapt.v], regenerated on every run by tools/py2coq_num.py, which follows the
    temporaries of the block symbolically) equals the hand-written update kernels over the reals,
    for all inputs: the new value of every log-scale (global, componentwise, eigenvector,
    solid-angle concentration) as a function of the old one, the step count, the acceptance ratio
    and the proposal's settings - decaying gain, sign and size of the Robbins-Monro step - the Veitch
    increment, and the ratio 0 of a virtual move that leaves the prior.  Decimal literals of the
    source are read as exact rationals. *)
From Coq Require Import Reals Lra ZArith List Bool.
From Epsie Require Import Base Num NumR Adapt AdaptM Gen.SrcAdapt.
Local Open Scope R_scope.

Ltac num_unfold := cbn [nadd nsub nmul ndiv nopp nexp nln nofZ nzero none nltb nisneginf NumReal].

(** equalities of real expressions that differ by how constants are written (3/5 vs 6/10, /10 vs 1/10)
    and by the order of factors: descend through the shared structure, then ring / field arithmetic *)
Ltac rsolve :=
  first [ reflexivity | lra | ring | (field; lra) | (f_equal; rsolve) ].

(** the gain dk^(-0.6) - c written with 3/5 or 6/10 *)
Lemma gain_35 (dk : Z) (c : R) : @npow R _ (IZR dk) (- (3 / 5)) - c = rm_factor dk c.
Proof. unfold rm_factor, n06, nten, npow. num_unfold. rsolve. Qed.

(** ** log-scale steps *)
Lemma src_at_log_val (cur ar c t : R) (dk : Z) : src_at_log cur (IZR dk) ar c t = cur + rm_factor dk c * (ar - t).
Proof.
  rewrite <- gain_35. unfold src_at_log, npow. num_unfold.
  set (g := exp (- (3 / 5) * ln (IZR dk))).
  replace (exp (- (IZR 3 / IZR 5) * ln (IZR dk))) with g by (unfold g; f_equal; f_equal; lra). ring.
Qed.
Lemma src_eig_log_val (cur ar c t : R) (dk : Z) : src_eig_log cur (IZR dk) ar c t = cur + rm_factor dk c * (ar - t).
Proof.
  rewrite <- gain_35. unfold src_eig_log, npow. num_unfold.
  set (g := exp (- (3 / 5) * ln (IZR dk))).
  replace (exp (- (IZR 3 / IZR 5) * ln (IZR dk))) with g by (unfold g; f_equal; f_equal; lra). ring.
Qed.
Lemma src_kappa_log_val (cur ar c t : R) (dk : Z) : src_kappa_log cur (IZR dk) ar c t = cur + rm_factor dk c * (t - ar).
Proof.
  rewrite <- gain_35. unfold src_kappa_log, npow. num_unfold.
  set (g := exp (- (3 / 5) * ln (IZR dk))).
  replace (exp (- (IZR 3 / IZR 5) * ln (IZR dk))) with g by (unfold g; f_equal; f_equal; lra). ring.
Qed.

Lemma src_at_log_tie (p : @at_state R) nsteps ar x : at_window p nsteps = true ->
  a_loglam (at_update p nsteps ar x) = src_at_log (a_loglam p) (IZR (dkZ nsteps (a_start p))) ar (a_decayc p) (a_target p).
Proof. intros Hw. rewrite src_at_log_val. unfold at_update. rewrite Hw. cbn [a_loglam]. num_unfold. reflexivity. Qed.

Lemma src_atf_log_tie (p : @atf_state R) nsteps ar x : atf_window p nsteps = true ->
  f_loglam (atf_update p nsteps ar x) = src_at_log (f_loglam p) (IZR (dkZ nsteps (f_start p))) ar (f_decayc p) (f_target p).
Proof. intros Hw. rewrite src_at_log_val. unfold atf_update. rewrite Hw. cbn [f_loglam]. num_unfold. reflexivity. Qed.

Lemma src_cw_dlog_val (d ar t : R) : src_cw_dlog d ar t = d * (ar - t).
Proof. unfold src_cw_dlog. num_unfold. ring. Qed.

Lemma nth_map2_loglam (d t : R) : forall (ls als : list R) k, (k < length ls)%nat -> (k < length als)%nat ->
  nth k (map2 (fun l a => l + d * (a - t)) ls als) 0 = nth k ls 0 + src_cw_dlog d (nth k als 0) t.
Proof.
  induction ls as [|l ls IH]; intros [|a als] k Hk Hk'; cbn in Hk, Hk'; try (exfalso; inversion Hk; fail); try (exfalso; inversion Hk'; fail).
  destruct k; cbn [map2 nth]; [now rewrite src_cw_dlog_val|]. apply IH; auto with arith.
Qed.

Lemma src_cw_log_tie (p : @atc_state R) nsteps ars x i : atc_window p nsteps = true ->
  (i < length (c_loglam p))%nat -> (i < length ars)%nat ->
  nth i (c_loglam (atc_update p nsteps ars x)) 0
  = nth i (c_loglam p) 0 + src_cw_dlog (rm_factor (dkZ nsteps (c_start p)) (c_decayc p)) (nth i ars 0) (c_target p).
Proof.
  intros Hw Hi Ha. unfold atc_update. rewrite Hw. cbn [c_loglam].
  apply (nth_map2_loglam (rm_factor (dkZ nsteps (c_start p)) (c_decayc p)) (c_target p)); assumption.
Qed.

Lemma src_cwf_log_tie (p : @atcf_state R) nsteps ars x i : atcf_window p nsteps = true ->
  (i < length (g_loglam p))%nat -> (i < length ars)%nat ->
  nth i (g_loglam (atcf_update p nsteps ars x)) 0
  = nth i (g_loglam p) 0 + src_cw_dlog (rm_factor (dkZ nsteps (g_start p)) (g_decayc p)) (nth i ars 0) (g_target p).
Proof.
  intros Hw Hi Ha. unfold atcf_update. rewrite Hw. cbn [g_loglam].
  apply (nth_map2_loglam (rm_factor (dkZ nsteps (g_start p)) (g_decayc p)) (g_target p)); assumption.
Qed.

(** a virtual move that leaves the prior counts with ratio 0 (there is no -inf among the reals: the
    statement is about the numeric class's recogniser, instantiated) *)
Lemma src_cw_forced_tie (logp inner : R) : src_cw_dlog_ar logp inner = inner.
Proof. unfold src_cw_dlog_ar. num_unfold. reflexivity. Qed.

Lemma src_eig_log_tie (p : @rm_state R) nsteps ar : rm_window p nsteps = true ->
  r_log (eig_update p nsteps ar) = src_eig_log (r_log p) (IZR (dkZ nsteps (r_start p))) ar (r_decayc p) (r_target p).
Proof. intros Hw. rewrite src_eig_log_val. unfold eig_update. rewrite Hw. cbn [r_log]. num_unfold. reflexivity. Qed.

Lemma src_kappa_log_tie (p : @rm_state R) nsteps ar : rm_window p nsteps = true ->
  r_log (kappa_update p nsteps ar) = src_kappa_log (r_log p) (IZR (dkZ nsteps (r_start p))) ar (r_decayc p) (r_target p).
Proof. intros Hw. rewrite src_kappa_log_val. unfold kappa_update. rewrite Hw. cbn [r_log]. num_unfold. reflexivity. Qed.

(** ** Veitch increment *)
Lemma src_veitch_inc_val (p : @veitch R) nsteps (accepted : bool) (delta : R) :
  src_veitch_inc (IZR (dkZ nsteps (v_start p))) accepted (v_decay p) delta (v_target p)
  = (if accepted then 1 - v_target p else - v_target p) * veitch_factor p nsteps * delta / 10.
Proof.
  unfold src_veitch_inc, veitch_factor, ntenth, nten, npow. num_unfold.
  set (g := exp (- v_decay p * ln (IZR (dkZ nsteps (v_start p))))).
  destruct accepted; unfold Rdiv; try rewrite Rinv_1; ring_simplify; try reflexivity; field.
Qed.

Lemma src_veitch_step_tie (p : @veitch R) nsteps (accepted : bool) (s delta : R) :
  veitch_new_std (if accepted then 1 - v_target p else - v_target p) (veitch_factor p nsteps) s delta
  = (let n := s + src_veitch_inc (IZR (dkZ nsteps (v_start p))) accepted (v_decay p) delta (v_target p) in if Rltb n 0 then s else n).
Proof.
  rewrite src_veitch_inc_val. unfold veitch_new_std, nten. num_unfold. cbv zeta.
  match goal with
  | |- (if Rltb ?a 0 then _ else _) = (if Rltb ?b 0 then _ else _) => replace b with a by (destruct accepted; field)
  end. reflexivity.
Qed.
