(** The scalar arithmetic of [DynamicalAnnealer] as written in /repo today ([Gen/SrcLadder.v],
    regenerated on every run by tools/py2coq_num.py, which also checks the loop headers
    `range(chain.ntemps - 2)` / `range(1, chain.ntemps - 1)` and that every rebuilt beta is assigned
    to its level at once) equals the model's ([Ladder.v]) over the reals, for all inputs. *)
From Coq Require Import Reals Lra List.
From Epsie Require Import Base Num NumR Ladder Gen.SrcLadder.
Import ListNotations.
Local Open Scope R_scope.

Ltac num_unfold := cbn [nadd nsub nmul ndiv nopp nexp nln nofZ nzero none nltb NumReal].

Lemma src_ann_decay_tie (nu tau t : R) : src_ann_decay t nu tau = decay nu tau t.
Proof. unfold src_ann_decay, decay. num_unfold. unfold Rdiv. ring. Qed.

Lemma src_ann_clip_tie (a : R) : src_ann_clip a = clip1 a.
Proof.
  unfold src_ann_clip, clip1. num_unfold.
  repeat match goal with |- context [Rltb ?x ?y] => let H := fresh in destruct (Rltb x y) eqn:H; [apply Rltb_true in H|apply Rltb_false in H] end;
    try reflexivity; try lra.
Qed.

Lemma src_ann_S_step_val (d a0 a1 : R) : src_ann_S_step d a0 a1 = d * (a0 - a1).
Proof. unfold src_ann_S_step. num_unfold. unfold Rdiv. ring. Qed.

Lemma src_ann_S_step_tie (d s a0 a1 : R) (S' r : list R) :
  update_S d (s :: S') (a0 :: a1 :: r) = (s + src_ann_S_step d a0 a1) :: update_S d S' (a1 :: r).
Proof. rewrite src_ann_S_step_val. reflexivity. Qed.

Lemma src_ann_beta_val (prev s : R) : src_ann_beta prev s = 1 / (1 / prev + exp s).
Proof. unfold src_ann_beta. num_unfold. first [reflexivity | (unfold Rdiv; f_equal; ring) | (f_equal; unfold Rdiv; ring)]. Qed.

Lemma src_ann_beta_tie (prev x y s : R) (rest S' : list R) :
  rebuild prev (x :: y :: rest) (s :: S') = src_ann_beta prev s :: rebuild (src_ann_beta prev s) (y :: rest) S'.
Proof. rewrite src_ann_beta_val. reflexivity. Qed.
