(** Matrix-valued and componentwise adaptation updates, over the numeric signature:
    Andrieu-Thoms with a full second moment and with componentwise scaling
    ([ATAdaptiveSupport._update] / [_componentwise_scaling], normal.py:662-729) and the recursive
    covariance of the adaptive eigenvector proposal ([recursive_covariance], eigenvector.py:271-281).
    Matrices are lists of rows.  The per-component acceptance ratios of the virtual moves (one
    model evaluation each) enter as an oracle list. *)
From Coq Require Import ZArith List Bool.
From Epsie Require Import Base Num Adapt.
Import ListNotations.
Local Open Scope num_scope.

Section AdaptM.
  Context {T : Type} `{Num T}.

  Definition vdot (a b : list T) : T := fold_left nadd (map2 nmul a b) nzero.
  Definition outer (a b : list T) : list (list T) := map (fun x => map (fun y => x * y) b) a.
  Definition mmap2 (f : T -> T -> T) (A B : list (list T)) : list (list T) := map2 (map2 f) A B.
  Definition mscale (c : T) (A : list (list T)) : list (list T) := map (map (fun x => c * x)) A.
  Definition mvec (A : list (list T)) (w : list T) : list T := map (fun row => vdot row w) A.
  Definition quad (A : list (list T)) (w : list T) : T := vdot w (mvec A w).

  (** ** Andrieu-Thoms, full second moment, global scaling *)
  Record atf_state := { f_mean : list T; f_ucov : list (list T); f_loglam : T; f_cov : list (list T);
                        f_T : Z; f_target : T; f_start : Z; f_decayc : T }.
  Definition atf_window (p : atf_state) (nsteps : Z) : bool :=
    let dk := dkZ nsteps (f_start p) in (1 <? dk)%Z && (dk <? f_T p)%Z.
  (** unit_cov += d (df df^T - unit_cov) *)
  Definition ucov_step (d : T) (U : list (list T)) (df : list T) : list (list T) :=
    mmap2 (fun u o => u + d * (o - u)) U (outer df df).
  Definition atf_update (p : atf_state) (nsteps : Z) (ar : T) (x : list T) : atf_state :=
    if atf_window p nsteps then
      let d := rm_factor (dkZ nsteps (f_start p)) (f_decayc p) in
      let ll := f_loglam p + d * (ar - f_target p) in
      let df := map2 nsub x (f_mean p) in
      let U := ucov_step d (f_ucov p) df in
      {| f_mean := map2 (fun m f => m + d * f) (f_mean p) df; f_ucov := U; f_loglam := ll;
         f_cov := mscale (nexp ll) U;
         f_T := f_T p; f_target := f_target p; f_start := f_start p; f_decayc := f_decayc p |}
    else p.

  (** ** Andrieu-Thoms, componentwise scaling, diagonal second moment *)
  Record atc_state := { c_mean : list T; c_ucov : list T; c_loglam : list T; c_std : list T;
                        c_T : Z; c_target : T; c_start : Z; c_decayc : T }.
  Definition atc_window (p : atc_state) (nsteps : Z) : bool :=
    let dk := dkZ nsteps (c_start p) in (1 <? dk)%Z && (dk <? c_T p)%Z.
  Definition atc_update (p : atc_state) (nsteps : Z) (ars : list T) (x : list T) : atc_state :=
    if atc_window p nsteps then
      let d := rm_factor (dkZ nsteps (c_start p)) (c_decayc p) in
      let ll := map2 (fun l a => l + d * (a - c_target p)) (c_loglam p) ars in
      let df := map2 nsub x (c_mean p) in
      let ucov := map2 (fun u f => u + d * (f * f - u)) (c_ucov p) df in
      {| c_mean := map2 (fun m f => m + d * f) (c_mean p) df; c_ucov := ucov; c_loglam := ll;
         c_std := map2 (fun l u => nsqrt (nexp l * u)) ll ucov;
         c_T := c_T p; c_target := c_target p; c_start := c_start p; c_decayc := c_decayc p |}
    else p.

  (** ** Andrieu-Thoms, componentwise scaling, full second moment:
      cov = Lambda^(1/2) unit_cov Lambda^(1/2), Lambda = diag (exp log_lambda) *)
  Definition lam_scale (ll : list T) (U : list (list T)) : list (list T) :=
    let s := map (fun l => nsqrt (nexp l)) ll in
    map2 (fun si row => map2 (fun u sj => (si * u) * sj) row s) s U.
  Record atcf_state := { g_mean : list T; g_ucov : list (list T); g_loglam : list T; g_cov : list (list T);
                         g_T : Z; g_target : T; g_start : Z; g_decayc : T }.
  Definition atcf_window (p : atcf_state) (nsteps : Z) : bool :=
    let dk := dkZ nsteps (g_start p) in (1 <? dk)%Z && (dk <? g_T p)%Z.
  Definition atcf_update (p : atcf_state) (nsteps : Z) (ars : list T) (x : list T) : atcf_state :=
    if atcf_window p nsteps then
      let d := rm_factor (dkZ nsteps (g_start p)) (g_decayc p) in
      let ll := map2 (fun l a => l + d * (a - g_target p)) (g_loglam p) ars in
      let df := map2 nsub x (g_mean p) in
      let U := ucov_step d (g_ucov p) df in
      {| g_mean := map2 (fun m f => m + d * f) (g_mean p) df; g_ucov := U; g_loglam := ll;
         g_cov := lam_scale ll U;
         g_T := g_T p; g_target := g_target p; g_start := g_start p; g_decayc := g_decayc p |}
    else p.

  (** ** Sivia-Skilling with a full covariance: cov *= alpha unless alpha * cov.max() exceeds max_std**2 *)
  Record ssc := { q_cov : list (list T); q_nacc : Z; q_target : T; q_start : Z; q_cap : option T }.
  Definition mat_max (A : list (list T)) : T := list_max (concat A).
  Definition ssc_update (p : ssc) (nsteps : Z) (accepted : bool) : ssc :=
    let nacc := (q_nacc p + (if accepted then 1 else 0))%Z in
    let niter := (nsteps - (q_start p - 1) + 1)%Z in
    let alpha := ss_alpha nacc niter (q_target p) in
    let mx := alpha * mat_max (q_cov p) in
    let ok := match q_cap p with None => true | Some cap => nleb mx (cap * cap) end in
    {| q_cov := if ok then map (map (fun c => c * alpha)) (q_cov p) else q_cov p;
       q_nacc := nacc; q_target := q_target p; q_start := q_start p; q_cap := q_cap p |}.

  (** ** adaptive eigenvector: recursive covariance, N = proposal steps so far *)
  Definition eig_cov_update (N : T) (cov : list (list T)) (mu x : list T) : list (list T) * list T :=
    let dx := map2 nsub x mu in
    let c := N / (N * N - none) in
    (mscale ((N - none) / N) (mmap2 (fun a o => a + c * o) cov (outer dx dx)),
     map2 (fun m xi => (N * m + xi) / (N + none)) mu x).
  (** the whole [_update] of the adaptive eigenvector proposal except the eigendecomposition: the
      covariance and mean recursion, then the Robbins-Monro step of the log-scale *)
  Definition eigc_update (p : rm_state) (cov : list (list T)) (mu : list T) (nsteps : Z) (ar : T) (x : list T)
    : (list (list T) * list T) * rm_state :=
    if rm_window p nsteps then (eig_cov_update (nofZ nsteps) cov mu x, eig_update p nsteps ar)
    else ((cov, mu), p).
End AdaptM.
