(** Source tie for the counters of the dynamical annealer (C06, C05): from /repo today ([Gen/Src.v]) the
    clock of its vanishing decay is [iteration // swap_interval] of the chain's GLOBAL iteration counter -
    a function of the iteration and the swap interval only, so neither a clear nor a resume can restart
    it - and the row of acceptance ratios it reads is the row the sweep of that iteration wrote. *)
From Coq Require Import ZArith List Lia.
From Epsie Require Import Base Num Ladder Machine Anneal_machine Gen.Src SrcTie_clock.
Import ListNotations.

Lemma src_ann_clock_tie (it si : nat) : src_ann_clock (Z.of_nat it) (Z.of_nat si) = Z.of_nat (it / si).
Proof. unfold src_ann_clock. now rewrite of_nat_div. Qed.

Lemma src_ann_row_is_sweep_row (it lc si : Z) : src_ann_row it lc si = src_swap_row (src_swap_ii it lc) si.
Proof. reflexivity. Qed.

Section L.
  Context {T : Type} `{Num T}.
  Lemma src_ladder_after (nu tau : T) (si : nat) (sweeps : list (nat * list nat * list T)) : forall st0 : @lstate T,
    fold_left (fun st '(it, _, ars) => lcall nu tau (nofZ (src_ann_clock (Z.of_nat it) (Z.of_nat si))) st ars) sweeps st0
    = ladder_after nu tau si st0 sweeps.
  Proof.
    unfold ladder_after. induction sweeps as [|[[it idx] ars] r IH]; intros st0; [reflexivity|].
    cbn [fold_left]. rewrite src_ann_clock_tie. apply IH.
  Qed.
End L.
