(** Proposed points lie in the proposal's declared domain (C12): bounds of the rejection loops,
    integrality and "never the current integer", the cyclic wrap of angles, the ranges of the
    spherical coordinates, the support of the birth distributions, refusal outside the bounds. *)
From Coq Require Import Reals Lra Lia ZArith List Bool.
From Epsie Require Import Num NumR Dens Law_cells Dens_angular_proofs.
Import ListNotations.
Local Open Scope R_scope.

(** ** rejection loops: whatever the draws, whatever the scale, the result is within the bounds *)
Theorem bd_jump_in_bounds {T} (rnd fc : T -> Z) (succ : bool) (lo hi x : Z) (draws : list T) y n :
  bd_jump1 rnd fc succ lo hi x draws = Some (y, n) ->
  (lo <= y <= hi)%Z /\ (succ = false -> y <> x) /\ (1 <= n <= length draws)%nat.
Proof.
  revert n; induction draws as [|z r IH]; intros n; cbn [bd_jump1]; [discriminate|].
  destruct ((lo <=? nd_jump1 rnd fc succ x z)%Z && (nd_jump1 rnd fc succ x z <=? hi)%Z && nd_ok succ x (nd_jump1 rnd fc succ x z)) eqn:E.
  - intros [= <- <-]. apply andb_prop in E as [E C]. apply andb_prop in E as [A B]. apply Z.leb_le in A. apply Z.leb_le in B.
    split; [lia|]. split; [|cbn; lia]. intros ->. unfold nd_ok in C. cbn in C. apply negb_true_iff, Z.eqb_neq in C. exact C.
  - destruct (bd_jump1 rnd fc succ lo hi x r) as [[v k]|]; [|discriminate]. intros [= <- <-].
    destruct (IH k eq_refl) as (A & B & C). cbn. repeat split; auto; lia.
Qed.

(** the value returned is an integer by construction (it lives in Z); without successive jumps it is
    never the current integer: the only draw mapped to displacement 0 is 0.0, and it is redrawn *)
Theorem nd_jump_moves {T} (rnd fc : T -> Z) (x : Z) (draws : list T) y n :
  nd_jump rnd fc false x draws = Some (y, n) -> y <> x.
Proof.
  revert n; induction draws as [|z r IH]; intros n; cbn [nd_jump]; [discriminate|].
  destruct (nd_ok false x (nd_jump1 rnd fc false x z)) eqn:E.
  - intros [= <- <-]. unfold nd_ok in E. cbn in E. apply negb_true_iff, Z.eqb_neq in E. exact E.
  - destruct (nd_jump rnd fc false x r) as [[v k]|]; [|discriminate]. intros [= <- <-]. apply (IH k eq_refl).
Qed.
Theorem nd_single_draw_moves (x : Z) (z : R) : z <> 0 -> nd_jump1 rnd_evenR floorceilR false x z <> x.
Proof.
  intros Hz. unfold nd_jump1. intros E. assert (F : floorceilR z = 0%Z) by lia. apply floorceil_zero in F. contradiction.
Qed.
Theorem nd_jump_zero_draw (x : Z) : nd_jump1 rnd_evenR floorceilR false x 0 = x.
Proof. unfold nd_jump1. replace (floorceilR 0) with 0%Z; [lia|]. symmetry. now apply floorceil_zero. Qed.

Theorem bn_jump_in_bounds (lo hi : R) (draws : list R) y n :
  @bn_jump1 R _ lo hi draws = Some (y, n) -> lo <= y <= hi /\ In y draws.
Proof.
  revert n; induction draws as [|z r IH]; intros n; cbn [bn_jump1]; [discriminate|]. cbn [nleb NumReal].
  destruct (Rleb lo z && Rleb z hi) eqn:E.
  - intros [= <- <-]. apply andb_prop in E as [A B]. apply Rleb_true in A. apply Rleb_true in B. split; [lra|now left].
  - destruct (bn_jump1 lo hi r) as [[v k]|]; [|discriminate]. intros [= <- <-].
    destruct (IH k eq_refl) as (A & B). split; [exact A|now right].
Qed.

(** refusal: from outside the bounds no point is proposed; from inside, only points within *)
Theorem bn_refuses_outside (lo hi x : R) draws : x < lo \/ hi < x -> @bn_jump_from R _ lo hi x draws = Refused.
Proof.
  intros H. unfold bn_jump_from. cbn [nleb NumReal].
  destruct (Rleb lo x) eqn:A; [|reflexivity]. destruct (Rleb x hi) eqn:B; [|reflexivity].
  apply Rleb_true in A. apply Rleb_true in B. lra.
Qed.
Theorem bn_from_in_bounds (lo hi x : R) draws y n : @bn_jump_from R _ lo hi x draws = Jumped y n -> lo <= y <= hi.
Proof.
  unfold bn_jump_from. destruct (nleb lo x && nleb x hi); [|discriminate].
  destruct (bn_jump1 lo hi draws) as [[v k]|] eqn:E; [|discriminate]. intros [= <- <-].
  apply (bn_jump_in_bounds lo hi draws v k E).
Qed.
Theorem bd_refuses_outside {T} (rnd fc : T -> Z) succ (lo hi x : Z) draws :
  (x < lo \/ hi < x)%Z -> bd_jump_from rnd fc succ lo hi x draws = Refused.
Proof.
  intros H. unfold bd_jump_from. destruct (Z.leb_spec lo x), (Z.leb_spec x hi); cbn; try reflexivity. lia.
Qed.
Theorem bd_from_in_bounds {T} (rnd fc : T -> Z) succ (lo hi x : Z) draws y n :
  bd_jump_from rnd fc succ lo hi x draws = Jumped y n -> (lo <= y <= hi)%Z.
Proof.
  unfold bd_jump_from. destruct ((lo <=? x)%Z && (x <=? hi)%Z); [|discriminate].
  destruct (bd_jump1 rnd fc succ lo hi x draws) as [[v k]|] eqn:E; [|discriminate]. intros [= <- <-].
  apply (bd_jump_in_bounds rnd fc succ lo hi x draws v k E).
Qed.

(** ** angles: the wrap puts every proposed angle into [0, 2 pi) *)
Theorem ang_jump_range (x z : R) : 0 < PI -> 0 <= ang_jump1 PI pymodR x z < 2 * PI.
Proof.
  intros Hpi. unfold ang_jump1, ntwo. cbn [nadd nmul ndiv none NumReal]. replace (1 + 1) with 2 by lra.
  pose proof (pymod2_range (z + x * (1 / PI))) as [A B]. nra.
Qed.
(** the draw that is used has modulus at most 1 (in units of pi) *)
Theorem ang_draw_bounded (draws : list R) z n : @ang_draw R _ draws = Some (z, n) -> -1 <= z <= 1.
Proof.
  revert n; induction draws as [|w r IH]; intros n; cbn [ang_draw]; [discriminate|]. unfold nmax. cbn [nltb nopp none NumReal].
  destruct (Rltb 1 (if Rltb w (- w) then - w else w)) eqn:E.
  - destruct (ang_draw r) as [[v k]|]; [|discriminate]. intros [= <- <-]. apply (IH k eq_refl).
  - intros [= -> <-]. apply Rltb_false in E. destruct (Rltb z (- z)) eqn:F; [apply Rltb_true in F|apply Rltb_false in F]; lra.
Qed.

(** ** solid angle: azimuth in [0, 2 pi), polar angle in [0, pi] *)
Section Sphere.
  Variable atan2R : R -> R -> R.
  Hypothesis atan2_range : forall y x, - PI < atan2R y x <= PI.
  Theorem c2s_range (v : R * R * R) :
    let '(p, t) := c2s PI acos atan2R v in 0 <= p < 2 * PI /\ 0 <= t <= PI.
  Proof.
    destruct v as [[x y] z]. unfold c2s, ntwo. cbn [nltb nadd nmul none nzero NumReal].
    pose proof (atan2_range y x) as [A B]. pose proof (acos_bound z) as C. pose proof PI_RGT_0.
    destruct (Rltb (atan2R y x) 0) eqn:E; [apply Rltb_true in E|apply Rltb_false in E]; split; try exact C; lra.
  Qed.
End Sphere.

(** ** birth distributions propose points where their own density is positive *)
Theorem ubirth_in_support (lo hi u : R) : lo < hi -> 0 <= u <= 1 ->
  @ubirth_logpdf1 R _ lo hi (lo + (hi - lo) * u) <> None.
Proof.
  intros H [U0 U1]. unfold ubirth_logpdf1. cbn [nltb NumReal].
  destruct (Rltb (lo + (hi - lo) * u) lo) eqn:A; [apply Rltb_true in A; nra|].
  destruct (Rltb hi (lo + (hi - lo) * u)) eqn:B; [apply Rltb_true in B; nra|]. discriminate.
Qed.
Theorem lnbirth_in_support (l2p m s y : R) : lnbirth_logpdf1 l2p m s (exp y) <> None.
Proof.
  unfold lnbirth_logpdf1. cbn [nleb nzero NumReal]. pose proof (exp_pos y).
  destruct (Rleb (exp y) 0) eqn:A; [apply Rleb_true in A; lra|discriminate].
Qed.
