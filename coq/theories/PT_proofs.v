(** Parallel-tempered level of the machine: the sweep writes whole states along
    the index array, every operation preserves the history invariant on all
    levels, and any schedule of runs and clears makes the same records as one
    uninterrupted run (ghost equivalence). *)
From Coq Require Import ZArith Lia Permutation.
From Epsie Require Import Base Machine Machine_proofs Sweep_proofs.

Lemma Forall2_nth {A B} (R : A -> B -> Prop) l l' t d d' :
  Forall2 R l l' -> t < length l -> R (nth t l d) (nth t l' d').
Proof.
  intros H; revert t; induction H as [|x y l l' Hxy H IH]; intros t Ht; cbn in *; [lia|].
  destruct t; auto. apply IH. lia.
Qed.

Lemma last_In {A} (l : list A) d : l <> [] -> In (last l d) l.
Proof.
  induction l as [|h t IH]; [congruence|]. intros _. destruct t as [|h' t']; [now left|].
  right. apply IH. congruence.
Qed.

Lemma Forall2_length' {A B} (R : A -> B -> Prop) l l' : Forall2 R l l' -> length l = length l'.
Proof. induction 1; cbn; auto. Qed.

Lemma Forall_nth' {A} (P : A -> Prop) l t d : Forall P l -> t < length l -> P (nth t l d).
Proof. intros H Ht. rewrite Forall_forall in H. apply H, nth_In, Ht. Qed.

(** indexed map, as used by the apply block of [swap_temperatures] *)
Section Imap.
  Context {A B : Type} (g : nat -> A -> B).
  Lemma imap_length s (l : list A) : length (map (fun '(k, c) => g k c) (combine (seq s (length l)) l)) = length l.
  Proof. rewrite map_length, combine_length, seq_length. lia. Qed.
  Lemma imap_nth (l : list A) : forall s t d d', t < length l ->
    nth t (map (fun '(k, c) => g k c) (combine (seq s (length l)) l)) d' = g (s + t) (nth t l d).
  Proof.
    induction l as [|h tl IH]; intros s t d d' Ht; cbn in *; [lia|].
    destruct t; [now rewrite Nat.add_0_r|]. rewrite (IH (S s) t d d') by lia. f_equal. lia.
  Qed.
  Lemma imap_Forall (Q : B -> Prop) (l : list A) d : forall s,
    (forall t, t < length l -> Q (g (s + t) (nth t l d))) ->
    Forall Q (map (fun '(k, c) => g k c) (combine (seq s (length l)) l)).
  Proof.
    induction l as [|h tl IH]; intros s H; cbn; constructor.
    - specialize (H 0). cbn in H. rewrite Nat.add_0_r in H. apply H. lia.
    - apply IH. intros t Ht. specialize (H (S t)). cbn in H. replace (S s + t) with (s + S t) by lia. apply H. lia.
  Qed.
End Imap.

Lemma imap_Forall2 {A B A' B'} (g : nat -> A -> B) (g' : nat -> A' -> B') (R : B -> B' -> Prop)
      (l : list A) (l' : list A') d d' : forall s,
  length l = length l' ->
  (forall t, t < length l -> R (g (s + t) (nth t l d)) (g' (s + t) (nth t l' d'))) ->
  Forall2 R (map (fun '(k, c) => g k c) (combine (seq s (length l)) l))
            (map (fun '(k, c) => g' k c) (combine (seq s (length l')) l')).
Proof.
  revert l'; induction l as [|h tl IH]; intros [|h' tl'] s Hl H; cbn in *; try lia; constructor.
  - specialize (H 0). cbn in H. rewrite Nat.add_0_r in H. apply H. lia.
  - apply IH; [lia|]. intros t Ht. specialize (H (S t)). cbn in H. replace (S s + t) with (s + S t) by lia. apply H. lia.
Qed.

Section PT.
  Variable V : Type.
  Variable isneginf isnan : V -> bool.
  Variable vzero : V.
  Variable comps : list (list nat).

  Notation chain := (chain V). Notation ptchain := (ptchain V).
  Notation hrow := (hrow V). Notation sin := (sin V).
  Notation step := (step V isneginf vzero).
  Notation put_row := (put_row V vzero).
  Notation lastrow := (lastrow V vzero).
  Notation clen := (clen V).
  Notation cur_pos := (cur_pos V). Notation cur_stats := (cur_stats V). Notation cur_blob := (cur_blob V).
  Notation Hist := (Hist V vzero). Notation Started := (Started V). Notation geq := (geq V).
  Notation swap_temperatures := (swap_temperatures V vzero).
  Notation pt_step := (pt_step V isneginf vzero).
  Notation step_levels := (step_levels V isneginf vzero).
  Notation run_steps := (run_steps V isneginf vzero).
  Notation pt_clear := (pt_clear V). Notation pt_grow := (pt_grow V).
  Notation pt_iter := (pt_iter V). Notation lvl0 := (lvl0 V). Notation ntemps := (ntemps V).
  Notation new_chain := (new_chain V).

  (** ** replacing the last record *)
  Lemma set_last_length {T} (l : list T) v : length (set_last l v) = length l.
  Proof.
    destruct l as [|h t]; [reflexivity|]. unfold set_last.
    rewrite app_length, firstn_length. cbn [length]. lia.
  Qed.

  Lemma set_last_last {T} (l : list T) v d : l <> [] -> last (set_last l v) d = v.
  Proof. destruct l; [congruence|]. intros _. unfold set_last. apply last_last. Qed.

  Lemma set_last_nonempty {T} (l : list T) v : l <> [] -> set_last l v = firstn (length l - 1) l ++ [v].
  Proof. destruct l; [congruence|reflexivity]. Qed.

  Lemma skipn_set_last {T} (l : list T) n v : n < length l -> skipn n (set_last l v) = set_last (skipn n l) v.
  Proof.
    intros Hn.
    assert (Hl : l <> []) by (intros ->; cbn in Hn; lia).
    assert (Hs : skipn n l <> []).
    { intros E; apply (f_equal (@length _)) in E; rewrite skipn_length in E; cbn in E; lia. }
    rewrite (set_last_nonempty l v Hl), (set_last_nonempty _ v Hs).
    rewrite skipn_app_le by (rewrite firstn_length; lia).
    now rewrite firstn_pred_skipn by exact Hn.
  Qed.

  Lemma map_set_last {T U} (f : T -> U) (l : list T) v : map f (set_last l v) = set_last (map f l) (f v).
  Proof.
    destruct l as [|h t] eqn:E; [reflexivity|]. rewrite <- E.
    assert (l <> []) by (rewrite E; congruence).
    assert (map f l <> []) by (rewrite E; cbn; congruence).
    rewrite !set_last_nonempty by assumption. rewrite map_app, map_length, firstn_map. reflexivity.
  Qed.

  Lemma set_last_same {T} (l : list T) d : l <> [] -> set_last l (last l d) = l.
  Proof. intros H. destruct l; [congruence|]. unfold set_last. apply firstn_pred_last. congruence. Qed.

  (** writing [f row'] at the last retained index = replacing the last ghost record *)
  Lemma view_put {T} (f : hrow -> T) (arr : scratch T) (c : chain) (row' : hrow) :
    Hist c -> 0 < clen c ->
    firstn (clen c) arr = map (fun r => Some (f r)) (skipn (lastclear V c) (hist V c)) ->
    firstn (clen c) (sc_set arr (clen c - 1) (f row'))
    = map (fun r => Some (f r)) (skipn (lastclear V c) (set_last (hist V c) row')).
  Proof.
    intros HI Hpos E. assert (Hlen := H_len V vzero c HI).
    rewrite skipn_set_last by (unfold Machine.clen in *; lia).
    rewrite map_set_last, <- E.
    assert (Hle : clen c <= length arr).
    { apply (f_equal (@length _)) in E. rewrite firstn_length, map_length, skipn_length, Hlen in E.
      unfold Machine.clen in *. lia. }
    replace (clen c) with (S (clen c - 1)) at 1 by lia.
    rewrite sc_set_firstn by lia.
    unfold set_last. destruct (firstn (clen c) arr) as [|h t] eqn:Ef.
    { apply (f_equal (@length _)) in Ef. rewrite firstn_length in Ef. cbn in Ef. lia. }
    rewrite <- Ef. rewrite firstn_length. replace (Nat.min (clen c) (length arr)) with (clen c) by lia.
    rewrite firstn_firstn. replace (Nat.min (clen c - 1) (clen c)) with (clen c - 1) by lia. reflexivity.
  Qed.

  Lemma view_keep {T} (f : hrow -> T) (c : chain) (row' : hrow) :
    Hist c -> 0 < clen c -> f row' = f (lastrow c) ->
    map (fun r => Some (f r)) (skipn (lastclear V c) (set_last (hist V c) row'))
    = map (fun r => Some (f r)) (skipn (lastclear V c) (hist V c)).
  Proof.
    intros HI Hpos E. assert (Hlen := H_len V vzero c HI).
    rewrite skipn_set_last by (unfold Machine.clen in *; lia).
    rewrite map_set_last, E.
    assert (Hs : skipn (lastclear V c) (hist V c) <> []).
    { intros E'. apply (f_equal (@length _)) in E'. rewrite skipn_length, Hlen in E'. cbn in E'.
      unfold Machine.clen in *. lia. }
    unfold Machine.lastrow. rewrite <- (last_skipn (hist V c) (lastclear V c)) by (unfold Machine.clen in *; lia).
    rewrite <- (map_last' (fun r => Some (f r)) _ (dummy_row V vzero) None) by exact Hs.
    apply set_last_same. intros E'. apply map_eq_nil in E'. contradiction.
  Qed.

  Definition put_ghost (c src : chain) : hrow :=
    match cur_pos src, cur_stats src with
    | Some p, Some s => {| h_pos := p; h_stats := s; h_blob := oblob V (cur_blob src); h_acc := h_acc V (lastrow c) |}
    | _, _ => lastrow c
    end.

  Lemma put_row_spec (c src : chain) :
    Hist c -> 0 < clen c -> (exists p, cur_pos src = Some p) -> (exists s, cur_stats src = Some s) ->
    let c' := put_row c src (clen c - 1) in
    Hist c' /\ hist V c' = set_last (hist V c) (put_ghost c src)
    /\ iter V c' = iter V c /\ lastclear V c' = lastclear V c /\ calls V c' = calls V c
    /\ proposed V c' = proposed V c /\ proposed_active V c' = proposed_active V c
    /\ active V c' = active V src /\ hasblobs V c' = hasblobs V c
    /\ start V c' = start V c /\ stats0 V c' = stats0 V c /\ blob0 V c' = blob0 V c
    /\ cA V c' = cA V c.
  Proof.
    intros HI Hpos [p Ep] [s Es]. cbn zeta. unfold Machine.put_row, put_ghost. rewrite Ep, Es.
    set (row' := {| h_pos := p; h_stats := s; h_blob := oblob V (cur_blob src); h_acc := h_acc V (lastrow c) |}).
    split; [|cbn; repeat split; reflexivity].
    assert (Hlen := H_len V vzero c HI).
    constructor; cbn; unfold Machine.clen; cbn; fold (clen c).
    - apply HI.
    - now rewrite set_last_length.
    - apply (view_put (h_pos V) _ c row' HI Hpos). apply HI.
    - apply (view_put (h_stats V) _ c row' HI Hpos). apply HI.
    - rewrite (view_keep (h_acc V) c row' HI Hpos); [apply HI|reflexivity].
    - intros Hb. rewrite Hb. apply (view_put (h_blob V) _ c row' HI Hpos). apply HI. exact Hb.
    - intros Hz. lia.
  Qed.

  (** ** invariant of a parallel-tempered chain *)
  Definition Sync (p : ptchain) : Prop :=
    forall c, In c (levels V p) -> iter V c = pt_iter p /\ lastclear V c = lastclear V (lvl0 p).

  Record PTInv (p : ptchain) : Prop := {
    I_hist : Forall Hist (levels V p);
    I_started : Forall Started (levels V p);
    I_sync : Sync p;
    I_nonempty : levels V p <> []
  }.

  Lemma lvl0_in p : levels V p <> [] -> In (lvl0 p) (levels V p).
  Proof. unfold Machine.lvl0. destruct (levels V p); [congruence|]. intros _. now left. Qed.

  (** stepping all levels *)
  Lemma step_levels_spec cs : forall ins cs',
    Forall Hist cs -> Forall Started cs -> step_levels cs ins = Good cs' ->
    Forall Hist cs' /\ Forall Started cs'
    /\ Forall2 (fun c c' => iter V c' = S (iter V c) /\ lastclear V c' = lastclear V c
                            /\ scratchlen V c' = scratchlen V c /\ length (calls V c') = S (length (calls V c))) cs cs'.
  Proof.
    induction cs as [|c cs IH]; intros ins cs' HH HS Hs; cbn in Hs.
    - injection Hs as <-. auto.
    - destruct ins as [|i ins]; [discriminate|].
      destruct (step c i) as [c1|] eqn:E1; [|discriminate].
      destruct (step_levels cs ins) as [r|] eqn:E2; [|discriminate]. injection Hs as <-.
      inversion HH; subst. inversion HS; subst.
      destruct (IH ins r) as (A & B & C); auto.
      destruct (step_fields V isneginf vzero c c1 i E1) as (Ei & El & Esl & _ & Ec & _).
      repeat split; try constructor; auto.
      + eapply step_Hist; eauto.
      + eapply step_Started; eauto.
      + repeat split; auto. rewrite Ec, app_length. cbn. lia.
  Qed.

  Lemma geq_step_levels cs : forall ds ins cs',
    Forall Hist cs -> Forall Hist ds -> Forall2 geq cs ds -> step_levels cs ins = Good cs' ->
    exists ds', step_levels ds ins = Good ds' /\ Forall2 geq cs' ds'.
  Proof.
    induction cs as [|c cs IH]; intros ds ins cs' HC HD G Hs; inversion G; subst; cbn in Hs.
    - injection Hs as <-. exists []. split; constructor.
    - destruct ins as [|i ins]; [discriminate|].
      destruct (step c i) as [c1|] eqn:E1; [|discriminate].
      destruct (step_levels cs ins) as [r|] eqn:E2; [|discriminate]. injection Hs as <-.
      inversion HC; subst. inversion HD; subst.
      destruct (geq_step V isneginf vzero c y c1 i) as (d1 & Hd1 & G1); auto.
      destruct (IH l' ins r) as (ds' & Hds & G'); auto.
      exists (d1 :: ds'). cbn. rewrite Hd1, Hds. split; [reflexivity|]. constructor; auto.
  Qed.

  (** ** the sweep *)
  Definition sweep_index (p : ptchain) (sw : list (V * bool)) : list nat :=
    sweep_idx (ntemps p - 1) (seq 0 (ntemps p)) (map snd sw).

  Lemma swap_levels p sw :
    levels V (swap_temperatures p sw)
    = map (fun '(tk, c) => put_row c (nth (nth tk (sweep_index p sw) 0) (levels V p) new_chain)
                                   (pt_iter p - lastclear V (lvl0 p) - 1))
          (combine (seq 0 (length (levels V p))) (levels V p)).
  Proof. reflexivity. Qed.

  (** after the sweep level [t] holds what level [swap_index[t]] held before;
      acceptance records and everything else of the level stay *)
  Theorem swap_permutes p sw t :
    PTInv p -> 0 < pt_iter p - lastclear V (lvl0 p) -> t < ntemps p ->
    let idx := sweep_index p sw in
    let src := nth (nth t idx 0) (levels V p) new_chain in
    let old := nth t (levels V p) new_chain in
    let new := nth t (levels V (swap_temperatures p sw)) new_chain in
    nth t idx 0 < ntemps p
    /\ cur_pos new = cur_pos src /\ cur_stats new = cur_stats src
    /\ (hasblobs V old = true -> hasblobs V src = true -> cur_blob new = cur_blob src)
    /\ active V new = active V src
    /\ h_acc V (lastrow new) = h_acc V (lastrow old)
    /\ cA V new = cA V old /\ calls V new = calls V old /\ iter V new = iter V old.
  Proof.
    intros HI Hpos Ht. cbn zeta.
    assert (Hn : 0 < ntemps p) by lia.
    assert (Hidx : nth t (sweep_index p sw) 0 < ntemps p) by (apply sweep_idx_lt; auto).
    split; [exact Hidx|].
    set (src := nth (nth t (sweep_index p sw) 0) (levels V p) new_chain).
    set (old := nth t (levels V p) new_chain).
    assert (Hold : In old (levels V p)) by (apply nth_In; exact Ht).
    assert (Hsrc : In src (levels V p)) by (apply nth_In; exact Hidx).
    pose proof (I_hist p HI) as HH. rewrite Forall_forall in HH.
    destruct (I_sync p HI old Hold) as (Ei & El). destruct (I_sync p HI src Hsrc) as (Ei' & El').
    assert (Hc : 0 < clen old) by (unfold Machine.clen; rewrite Ei, El; exact Hpos).
    assert (Hits : 0 < iter V src) by (rewrite Ei'; lia).
    destruct (cur_of_hist V vzero src (HH _ Hsrc) Hits) as (Sp & Ss & Sb).
    rewrite swap_levels. rewrite (imap_nth _ (levels V p) 0 t new_chain new_chain) by exact Ht.
    cbn [plus]. fold old. fold src.
    replace (pt_iter p - lastclear V (lvl0 p) - 1) with (clen old - 1) by (unfold Machine.clen; rewrite Ei, El; reflexivity).
    destruct (put_row_spec old src (HH _ Hold) Hc) as (HI' & Eh & Eit & Elc & Eca & _ & _ & Eact & Ehb & _ & _ & _ & EA); eauto.
    set (new := put_row old src (clen old - 1)) in *.
    assert (Hitn : 0 < iter V new) by (rewrite Eit, Ei; lia).
    destruct (cur_of_hist V vzero new HI' Hitn) as (Np & Ns & Nb).
    assert (Hl : lastrow new = put_ghost old src).
    { unfold Machine.lastrow. rewrite Eh. apply set_last_last.
      intros E. apply (f_equal (@length _)) in E. rewrite (H_len V vzero old (HH _ Hold)) in E. cbn in E. lia. }
    unfold put_ghost in Hl. rewrite Sp, Ss in Hl.
    rewrite Np, Ns, Hl, Sp, Ss. cbn. repeat split; auto.
    intros Hb1 Hb2. rewrite Nb by (rewrite Ehb; exact Hb1). rewrite Hl. cbn. rewrite Sb by exact Hb2. reflexivity.
  Qed.

  Lemma swap_inv p sw :
    PTInv p -> 0 < pt_iter p - lastclear V (lvl0 p) -> PTInv (swap_temperatures p sw)
    /\ pt_iter (swap_temperatures p sw) = pt_iter p
    /\ lastclear V (lvl0 (swap_temperatures p sw)) = lastclear V (lvl0 p).
  Proof.
    intros HI Hpos.
    assert (Hne := I_nonempty p HI).
    assert (Hn : 0 < ntemps p). { unfold Machine.ntemps. destruct (levels V p); [congruence|cbn; lia]. }
    pose proof (I_hist p HI) as HH. rewrite Forall_forall in HH.
    pose proof (I_started p HI) as HS. rewrite Forall_forall in HS.
    assert (Hlev : forall t, t < ntemps p ->
              let old := nth t (levels V p) new_chain in
              let src := nth (nth t (sweep_index p sw) 0) (levels V p) new_chain in
              let new := put_row old src (pt_iter p - lastclear V (lvl0 p) - 1) in
              Hist new /\ Started new /\ iter V new = pt_iter p /\ lastclear V new = lastclear V (lvl0 p)).
    { intros t Ht old src new.
      assert (Hidx : nth t (sweep_index p sw) 0 < ntemps p) by (apply sweep_idx_lt; auto).
      assert (Hold : In old (levels V p)) by (apply nth_In; exact Ht).
      assert (Hsrc : In src (levels V p)) by (apply nth_In; exact Hidx).
      destruct (I_sync p HI old Hold) as (Ei & El). destruct (I_sync p HI src Hsrc) as (Ei' & El').
      assert (Hc : 0 < clen old) by (unfold Machine.clen; rewrite Ei, El; exact Hpos).
      assert (Hits : 0 < iter V src) by (rewrite Ei'; lia).
      destruct (cur_of_hist V vzero src (HH _ Hsrc) Hits) as (Sp & Ss & _).
      unfold new. replace (pt_iter p - lastclear V (lvl0 p) - 1) with (clen old - 1)
        by (unfold Machine.clen; rewrite Ei, El; reflexivity).
      destruct (put_row_spec old src (HH _ Hold) Hc) as (HI' & _ & Eit & Elc & _ & _ & _ & _ & Ehb & E1 & E2 & E3 & _); eauto.
      split; [exact HI'|]. split; [|split; congruence].
      unfold Machine_proofs.Started. rewrite E1, E2, E3, Ehb. apply (HS _ Hold). }
    assert (Hfa : Forall (fun c => Hist c /\ Started c /\ iter V c = pt_iter p /\ lastclear V c = lastclear V (lvl0 p))
                         (levels V (swap_temperatures p sw))).
    { rewrite swap_levels. apply (imap_Forall _ _ (levels V p) new_chain 0). intros t Ht. cbn [plus]. apply Hlev. exact Ht. }
    rewrite Forall_forall in Hfa.
    assert (Hne' : levels V (swap_temperatures p sw) <> []).
    { intros E. apply (f_equal (@length _)) in E. rewrite swap_levels, imap_length in E.
      unfold Machine.ntemps in Hn. cbn in E. lia. }
    destruct (Hfa _ (lvl0_in _ Hne')) as (_ & _ & E0 & L0).
    split; [|split; [exact E0|exact L0]].
    constructor; auto.
    - apply Forall_forall. intros c Hc. apply (Hfa c Hc).
    - apply Forall_forall. intros c Hc. apply (Hfa c Hc).
    - intros c Hc. destruct (Hfa c Hc) as (_ & _ & A & B). unfold Machine.pt_iter at 1. rewrite E0, L0. auto.
  Qed.

  (** ** one iteration of the parallel-tempered chain *)
  Lemma Forall2_In_r {A B} (R : A -> B -> Prop) l l' y : Forall2 R l l' -> In y l' -> exists x, In x l /\ R x y.
  Proof.
    induction 1 as [|a b l l' Hab H IH]; cbn; [tauto|]. intros [<-|Hy]; [eauto|].
    destruct (IH Hy) as (x & Hx & Rx). eauto.
  Qed.

  Lemma hd_map {A B} (f : A -> B) l d d' : l <> [] -> hd d' (map f l) = f (hd d l).
  Proof. destruct l; [congruence|reflexivity]. Qed.

  Definition stepped (c c' : chain) : Prop :=
    iter V c' = S (iter V c) /\ lastclear V c' = lastclear V c
    /\ scratchlen V c' = scratchlen V c /\ length (calls V c') = S (length (calls V c)).

  Lemma levels_stepped_inv p ls :
    PTInv p -> Forall Hist ls -> Forall Started ls -> Forall2 stepped (levels V p) ls ->
    let p1 := {| levels := ls; si := si V p; tS := tS V p; tA := tA V p; sweeps := sweeps V p |} in
    PTInv p1 /\ pt_iter p1 = S (pt_iter p) /\ lastclear V (lvl0 p1) = lastclear V (lvl0 p).
  Proof.
    intros HI HH HS HF. cbn zeta.
    assert (Hne := I_nonempty p HI).
    assert (Hne' : ls <> []).
    { intros ->. apply Forall2_length' in HF. destruct (levels V p); [congruence|cbn in HF; lia]. }
    assert (H0 : stepped (lvl0 p) (hd new_chain ls)).
    { unfold Machine.lvl0. destruct HF; [congruence|]. cbn. assumption. }
    destruct H0 as (A0 & B0 & _).
    split; [|split].
    - constructor; cbn; auto.
      intros c' Hc'. destruct (Forall2_In_r _ _ _ _ HF Hc') as (c & Hc & (A & B & _)).
      destruct (I_sync p HI c Hc) as (Ei & El).
      unfold Machine.pt_iter, Machine.lvl0; cbn. rewrite A0, B0, A, B, Ei, El. auto.
    - unfold Machine.pt_iter, Machine.lvl0; cbn. exact A0.
    - unfold Machine.lvl0 at 1; cbn. exact B0.
  Qed.

  Lemma pt_step_inv p ins sw p' :
    PTInv p -> pt_step p ins sw = Good p' ->
    PTInv p' /\ pt_iter p' = S (pt_iter p) /\ lastclear V (lvl0 p') = lastclear V (lvl0 p) /\ si V p' = si V p
    /\ length (levels V p') = length (levels V p).
  Proof.
    intros HI Hs. unfold Machine.pt_step in Hs.
    destruct (step_levels (levels V p) ins) as [ls|] eqn:E; [|discriminate].
    destruct (step_levels_spec _ _ _ (I_hist p HI) (I_started p HI) E) as (HH & HS & HF).
    destruct (levels_stepped_inv p ls HI HH HS HF) as (HI1 & Ei1 & El1).
    set (p1 := {| levels := ls; si := si V p; tS := tS V p; tA := tA V p; sweeps := sweeps V p |}) in *.
    assert (Hlen : length ls = length (levels V p)) by (symmetry; eapply Forall2_length'; eauto).
    destruct ((1 <? ntemps p1) && (pt_iter p1 mod si V p =? 0)); injection Hs as <-.
    - assert (Hpos : 0 < pt_iter p1 - lastclear V (lvl0 p1)).
      { rewrite Ei1, El1. pose proof (I_hist p HI) as H. rewrite Forall_forall in H.
        pose proof (H_le V vzero _ (H _ (lvl0_in p (I_nonempty p HI)))). unfold Machine.pt_iter. lia. }
      destruct (swap_inv p1 sw HI1 Hpos) as (HI2 & Ei2 & El2).
      split; [exact HI2|]. split; [congruence|]. split; [congruence|]. split; [reflexivity|].
      rewrite swap_levels. rewrite (imap_length _ 0 (levels V p1)). exact Hlen.
    - split; [exact HI1|]. split; [exact Ei1|]. split; [exact El1|]. split; [reflexivity|exact Hlen].
  Qed.

  (** ** ghost equivalence of parallel-tempered chains *)
  Record PTgeq (p q : ptchain) : Prop := {
    G_lv : Forall2 geq (levels V p) (levels V q);
    G_si : si V p = si V q;
    G_sw : sweeps V p = sweeps V q
  }.

  Lemma PTgeq_iter p q : PTInv p -> PTInv q -> PTgeq p q -> pt_iter p = pt_iter q /\ ntemps p = ntemps q.
  Proof.
    intros HP HQ G. split; [|apply (Forall2_length' _ _ _ (G_lv _ _ G))].
    unfold Machine.pt_iter, Machine.lvl0. destruct (G_lv _ _ G); [reflexivity|]. cbn. apply g_iter. assumption.
  Qed.

  Lemma swap_geq p q sw :
    PTInv p -> PTInv q -> PTgeq p q ->
    0 < pt_iter p - lastclear V (lvl0 p) -> 0 < pt_iter q - lastclear V (lvl0 q) ->
    PTgeq (swap_temperatures p sw) (swap_temperatures q sw).
  Proof.
    intros HP HQ G Hp Hq.
    destruct (PTgeq_iter p q HP HQ G) as (Eit & En).
    assert (Eidx : sweep_index p sw = sweep_index q sw) by (unfold sweep_index; now rewrite En).
    constructor.
    - rewrite !swap_levels.
      apply (imap_Forall2 _ _ geq (levels V p) (levels V q) new_chain new_chain 0); [exact En|].
      intros t Ht. cbn [plus]. rewrite <- Eidx.
      assert (Hn : 0 < ntemps p) by (unfold Machine.ntemps; lia).
      assert (Hidx : nth t (sweep_index p sw) 0 < ntemps p) by (apply sweep_idx_lt; auto).
      set (oldp := nth t (levels V p) new_chain). set (oldq := nth t (levels V q) new_chain).
      set (srcp := nth (nth t (sweep_index p sw) 0) (levels V p) new_chain).
      set (srcq := nth (nth t (sweep_index p sw) 0) (levels V q) new_chain).
      assert (Go : geq oldp oldq) by (apply Forall2_nth; [apply G|exact Ht]).
      assert (Gs : geq srcp srcq) by (apply Forall2_nth; [apply G|exact Hidx]).
      pose proof (I_hist p HP) as HHp. pose proof (I_hist q HQ) as HHq.
      assert (Hop : Hist oldp) by (apply Forall_nth'; auto).
      assert (Hoq : Hist oldq) by (apply Forall_nth'; [auto|unfold Machine.ntemps in En; lia]).
      assert (Hsp : Hist srcp) by (apply Forall_nth'; auto).
      assert (Hsq : Hist srcq) by (apply Forall_nth'; [auto|unfold Machine.ntemps in *; lia]).
      destruct (I_sync p HP oldp) as (Eip & Elp); [apply nth_In; exact Ht|].
      destruct (I_sync q HQ oldq) as (Eiq & Elq); [apply nth_In; unfold Machine.ntemps in En; lia|].
      destruct (I_sync p HP srcp) as (Eisp & _); [apply nth_In; exact Hidx|].
      destruct (I_sync q HQ srcq) as (Eisq & _); [apply nth_In; unfold Machine.ntemps in *; lia|].
      assert (Hcp : 0 < clen oldp) by (unfold Machine.clen; rewrite Eip, Elp; exact Hp).
      assert (Hcq : 0 < clen oldq) by (unfold Machine.clen; rewrite Eiq, Elq; exact Hq).
      destruct (cur_of_hist V vzero srcp Hsp) as (Sp & Ss & _); [rewrite Eisp; lia|].
      destruct (cur_of_hist V vzero srcq Hsq) as (Sp' & Ss' & _); [rewrite Eisq; lia|].
      replace (pt_iter p - lastclear V (lvl0 p) - 1) with (clen oldp - 1) by (unfold Machine.clen; rewrite Eip, Elp; reflexivity).
      replace (pt_iter q - lastclear V (lvl0 q) - 1) with (clen oldq - 1) by (unfold Machine.clen; rewrite Eiq, Elq; reflexivity).
      destruct (put_row_spec oldp srcp Hop Hcp) as (_ & Eh & Ei & _ & Ec & Epr & Epa & Eac & Ehb & _); eauto.
      destruct (put_row_spec oldq srcq Hoq Hcq) as (_ & Eh' & Ei' & _ & Ec' & Epr' & Epa' & Eac' & Ehb' & _); eauto.
      destruct (geq_cur V vzero srcp srcq Hsp Hsq Gs) as (C1 & C2 & C3).
      constructor.
      + rewrite Ei, Ei'. apply Go.
      + rewrite Eh, Eh'. unfold put_ghost, Machine.lastrow. rewrite C1, C2, C3, (g_hist _ _ _ Go). reflexivity.
      + rewrite Ec, Ec'. apply Go.
      + rewrite Epr, Epr'. apply Go.
      + rewrite Eac, Eac'. apply Gs.
      + rewrite Epa, Epa'. apply Go.
      + rewrite Ehb, Ehb'. apply Go.
      + rewrite Ei, Eip. intros Hz. lia.
    - cbn. apply G.
    - change (sweeps V p ++ [(pt_iter p, sweep_index p sw, rev (map fst sw))]
              = sweeps V q ++ [(pt_iter q, sweep_index q sw, rev (map fst sw))]).
      rewrite (G_sw _ _ G), Eit, Eidx. reflexivity.
  Qed.

  Lemma pt_step_geq p q ins sw p' :
    PTInv p -> PTInv q -> PTgeq p q -> pt_step p ins sw = Good p' ->
    exists q', pt_step q ins sw = Good q' /\ PTgeq p' q'.
  Proof.
    intros HP HQ G Hs. unfold Machine.pt_step in *.
    destruct (step_levels (levels V p) ins) as [ls|] eqn:E; [|discriminate].
    destruct (geq_step_levels _ _ _ _ (I_hist p HP) (I_hist q HQ) (G_lv _ _ G) E) as (ls' & E' & G').
    rewrite E'.
    destruct (step_levels_spec _ _ _ (I_hist p HP) (I_started p HP) E) as (HH & HS & HF).
    destruct (step_levels_spec _ _ _ (I_hist q HQ) (I_started q HQ) E') as (HH' & HS' & HF').
    destruct (levels_stepped_inv p ls HP HH HS HF) as (HI1 & Ei1 & El1).
    destruct (levels_stepped_inv q ls' HQ HH' HS' HF') as (HI1' & Ei1' & El1').
    set (p1 := {| levels := ls; si := si V p; tS := tS V p; tA := tA V p; sweeps := sweeps V p |}) in *.
    set (q1 := {| levels := ls'; si := si V q; tS := tS V q; tA := tA V q; sweeps := sweeps V q |}) in *.
    assert (G1 : PTgeq p1 q1) by (constructor; cbn; auto; apply G).
    destruct (PTgeq_iter p1 q1 HI1 HI1' G1) as (Eit & En).
    rewrite <- (G_si _ _ G), <- Eit, <- En.
    destruct ((1 <? ntemps p1) && (pt_iter p1 mod si V p =? 0)); injection Hs as <-.
    - eexists. split; [reflexivity|]. apply swap_geq; auto.
      + rewrite Ei1, El1. pose proof (I_hist p HP) as H. rewrite Forall_forall in H.
        pose proof (H_le V vzero _ (H _ (lvl0_in p (I_nonempty p HP)))). unfold Machine.pt_iter. lia.
      + rewrite Ei1', El1'. pose proof (I_hist q HQ) as H. rewrite Forall_forall in H.
        pose proof (H_le V vzero _ (H _ (lvl0_in q (I_nonempty q HQ)))). unfold Machine.pt_iter. lia.
    - eexists. split; [reflexivity|exact G1].
  Qed.

  Lemma run_steps_geq steps : forall p q p',
    PTInv p -> PTInv q -> PTgeq p q -> run_steps p steps = Good p' ->
    exists q', run_steps q steps = Good q' /\ PTgeq p' q' /\ PTInv p' /\ PTInv q'.
  Proof.
    induction steps as [|[ins sw] t IH]; intros p q p' HP HQ G Hr; cbn in *.
    - injection Hr as <-. eauto.
    - destruct (pt_step p ins sw) as [p1|] eqn:E; [|discriminate].
      destruct (pt_step_geq p q ins sw p1 HP HQ G E) as (q1 & E' & G1). rewrite E'.
      destruct (pt_step_inv p ins sw p1 HP E) as (HP1 & _).
      destruct (pt_step_inv q ins sw q1 HQ E') as (HQ1 & _).
      apply (IH p1 q1); auto.
  Qed.

  Lemma run_steps_app a : forall b p,
    run_steps p (a ++ b) = match run_steps p a with Good p1 => run_steps p1 b | Bad e => Bad e end.
  Proof.
    induction a as [|[ins sw] t IH]; intros b p; cbn; [reflexivity|].
    destruct (pt_step p ins sw); [apply IH|reflexivity].
  Qed.

  (** *** clear and scratch growth are invisible to the ghost state *)
  Lemma map_Forall2_self {A} (R : A -> A -> Prop) (f : A -> A) l : (forall x, In x l -> R (f x) x) -> Forall2 R (map f l) l.
  Proof. induction l; cbn; constructor; auto. Qed.

  Lemma pt_clear_inv p : PTInv p -> PTInv (pt_clear p) /\ PTgeq (pt_clear p) p.
  Proof.
    intros HI. pose proof (I_hist p HI) as HH. pose proof (I_started p HI) as HS.
    rewrite Forall_forall in HH, HS.
    assert (Hne : map (clear V) (levels V p) <> []).
    { pose proof (I_nonempty p HI). destruct (levels V p); [congruence|discriminate]. }
    split.
    - constructor; cbn; auto.
      + apply Forall_forall. intros c Hc. apply in_map_iff in Hc as (c0 & <- & Hc0). apply clear_Hist, HH, Hc0.
      + apply Forall_forall. intros c Hc. apply in_map_iff in Hc as (c0 & <- & Hc0). apply (clear_Started V vzero); auto.
      + intros c Hc. cbn in Hc. apply in_map_iff in Hc as (c0 & <- & Hc0).
        unfold Machine.pt_iter, Machine.lvl0. cbn. rewrite (hd_map _ _ new_chain) by apply HI.
        destruct (I_sync p HI c0 Hc0) as (Ei & El).
        destruct (clear_ghost V c0) as (_ & _ & Eit & _). destruct (clear_ghost V (hd new_chain (levels V p))) as (_ & _ & Eit0 & _).
        rewrite Eit, Eit0. split; [exact Ei|].
        unfold Machine.clear. fold (lvl0 p). unfold Machine.pt_iter in Ei. rewrite Ei.
        destruct (0 <? iter V (lvl0 p)); cbn; auto.
    - constructor; cbn; auto. apply map_Forall2_self. intros c Hc. apply (geq_clear V vzero), HH, Hc.
  Qed.

  Lemma pt_set_scratchlen_inv p n : PTInv p -> PTInv (pt_set_scratchlen V p n) /\ PTgeq (pt_set_scratchlen V p n) p.
  Proof.
    intros HI. pose proof (I_hist p HI) as HH. pose proof (I_started p HI) as HS.
    rewrite Forall_forall in HH, HS.
    split.
    - constructor; cbn.
      + apply Forall_forall. intros c Hc. apply in_map_iff in Hc as (c0 & <- & Hc0). apply set_scratchlen_Hist, HH, Hc0.
      + apply Forall_forall. intros c Hc. apply in_map_iff in Hc as (c0 & <- & Hc0). apply (HS _ Hc0).
      + intros c Hc. cbn in Hc. apply in_map_iff in Hc as (c0 & <- & Hc0).
        unfold Machine.pt_iter, Machine.lvl0. cbn. rewrite (hd_map _ _ new_chain) by apply HI. cbn.
        apply (I_sync p HI c0 Hc0).
      + pose proof (I_nonempty p HI). destruct (levels V p); [congruence|discriminate].
    - constructor; cbn; auto. apply map_Forall2_self. intros c Hc. apply geq_set_scratchlen.
  Qed.

  Lemma Forall2_geq_trans l1 : forall l2 l3, Forall2 geq l1 l2 -> Forall2 geq l2 l3 -> Forall2 geq l1 l3.
  Proof.
    induction l1 as [|a l1 IH]; intros l2 l3 H12 H23; inversion H12; subst; inversion H23; subst; constructor.
    - eapply geq_trans; eauto.
    - eapply IH; eauto.
  Qed.

  Lemma PTgeq_trans p q r : PTgeq p q -> PTgeq q r -> PTgeq p r.
  Proof.
    intros [a b c] [a' b' c']. constructor; try congruence. eapply Forall2_geq_trans; eauto.
  Qed.

  (** ** C06: any schedule of runs and clears = one uninterrupted run *)
  Notation exec := (exec V isneginf isnan vzero comps).
  Notation op := (op V).

  Fixpoint execs (p : ptchain) (ops : list op) : result ptchain :=
    match ops with
    | [] => Good p
    | o :: t => match exec p o with Good p' => execs p' t | Bad e => Bad e end
    end.

  Definition run_or_clear (o : op) : Prop :=
    match o with ORun _ _ => True | OClear _ => True | _ => False end.

  Fixpoint all_steps (ops : list op) : list (list sin * list (V * bool)) :=
    match ops with
    | [] => []
    | ORun _ s :: t => s ++ all_steps t
    | _ :: t => all_steps t
    end.

  Theorem schedule_independent ops : forall p q p',
    PTInv p -> PTInv q -> PTgeq p q -> Forall run_or_clear ops -> execs p ops = Good p' ->
    exists q', run_steps q (all_steps ops) = Good q' /\ PTgeq p' q' /\ PTInv p' /\ PTInv q'.
  Proof.
    induction ops as [|o t IH]; intros p q p' HP HQ G HF He; cbn in He.
    - injection He as <-. cbn. eauto.
    - inversion HF as [|? ? Ho HF']; subst.
      destruct o as [ss|steps| |ss]; cbn in Ho; try contradiction.
      + (* run *)
        cbn [Machine.exec] in He.
        destruct (run_steps (pt_grow p (length steps)) steps) as [p1|] eqn:E; [|discriminate].
        destruct (pt_set_scratchlen_inv p (scratchlen V (lvl0 p) + (length steps + pt_len V p - scratchlen V (lvl0 p))) HP)
          as (HPg & Gg).
        destruct (run_steps_geq steps _ q p1 HPg HQ (PTgeq_trans _ _ _ Gg G) E) as (q1 & E1 & G1 & HP1 & HQ1).
        destruct (IH p1 q1 p' HP1 HQ1 G1 HF' He) as (q' & E' & G' & HP' & HQ').
        exists q'. cbn [all_steps]. rewrite run_steps_app, E1. auto.
      + (* clear *)
        cbn [Machine.exec] in He.
        destruct (pt_clear_inv p HP) as (HPc & Gc).
        apply (IH (pt_clear p) q p' HPc HQ (PTgeq_trans _ _ _ Gc G) HF' He).
  Qed.

  (** ** C18: model evaluations are made by steps only *)
  Lemma imap_Forall2_l {A} (R : A -> A -> Prop) (g : nat -> A -> A) (l : list A) d : forall s,
    (forall t, t < length l -> R (nth t l d) (g (s + t) (nth t l d))) ->
    Forall2 R l (map (fun '(k, c) => g k c) (combine (seq s (length l)) l)).
  Proof.
    induction l as [|h tl IH]; intros s H; cbn; constructor.
    - specialize (H 0). cbn in H. rewrite Nat.add_0_r in H. apply H. lia.
    - apply IH. intros t Ht. specialize (H (S t)). cbn in H. replace (S s + t) with (s + S t) by lia. apply H. lia.
  Qed.

  Lemma Forall2_impl' {A B} (R S : A -> B -> Prop) l l' : (forall a b, R a b -> S a b) -> Forall2 R l l' -> Forall2 S l l'.
  Proof. intros H; induction 1; constructor; auto. Qed.

  Lemma Forall2_flip' {A B} (R : A -> B -> Prop) l l' : Forall2 R l l' -> Forall2 (fun b a => R a b) l' l.
  Proof. induction 1; constructor; auto. Qed.

  Lemma Forall2_compose {A} (R S T : A -> A -> Prop) l1 : forall l2 l3,
    (forall a b c, R a b -> S b c -> T a c) -> Forall2 R l1 l2 -> Forall2 S l2 l3 -> Forall2 T l1 l3.
  Proof.
    induction l1 as [|a l1 IH]; intros l2 l3 H H12 H23; inversion H12; subst; inversion H23; subst; constructor; eauto.
  Qed.

  Lemma swap_calls p sw :
    PTInv p -> 0 < pt_iter p - lastclear V (lvl0 p) ->
    Forall2 (fun c c' => calls V c' = calls V c) (levels V p) (levels V (swap_temperatures p sw)).
  Proof.
    intros HI Hpos. rewrite swap_levels. apply (imap_Forall2_l _ _ (levels V p) new_chain 0).
    intros t Ht. cbn [plus].
    destruct (swap_permutes p sw t HI Hpos Ht) as (_ & _ & _ & _ & _ & _ & _ & Ec & _).
    rewrite swap_levels in Ec. rewrite (imap_nth _ (levels V p) 0 t new_chain new_chain) in Ec by exact Ht. exact Ec.
  Qed.

  Lemma pt_step_calls p ins sw p' :
    PTInv p -> pt_step p ins sw = Good p' ->
    Forall2 (fun c c' => length (calls V c') = S (length (calls V c))) (levels V p) (levels V p').
  Proof.
    intros HI Hs. unfold Machine.pt_step in Hs.
    destruct (step_levels (levels V p) ins) as [ls|] eqn:E; [|discriminate].
    destruct (step_levels_spec _ _ _ (I_hist p HI) (I_started p HI) E) as (HH & HS & HF).
    destruct (levels_stepped_inv p ls HI HH HS HF) as (HI1 & Ei1 & El1).
    set (p1 := {| levels := ls; si := si V p; tS := tS V p; tA := tA V p; sweeps := sweeps V p |}) in *.
    assert (HF' : Forall2 (fun c c' => length (calls V c') = S (length (calls V c))) (levels V p) ls).
    { eapply Forall2_impl'; [|exact HF]. intros a b (_ & _ & _ & H). exact H. }
    destruct ((1 <? ntemps p1) && (pt_iter p1 mod si V p =? 0)); injection Hs as <-; [|exact HF'].
    assert (Hpos : 0 < pt_iter p1 - lastclear V (lvl0 p1)).
    { rewrite Ei1, El1. pose proof (I_hist p HI) as H. rewrite Forall_forall in H.
      pose proof (H_le V vzero _ (H _ (lvl0_in p (I_nonempty p HI)))). unfold Machine.pt_iter. lia. }
    eapply Forall2_compose; [|exact HF'|apply (swap_calls p1 sw HI1 Hpos)].
    cbn. intros a b c H1 H2. now rewrite H2.
  Qed.

  Lemma run_steps_calls steps : forall p p',
    PTInv p -> run_steps p steps = Good p' ->
    Forall2 (fun c c' => length (calls V c') = length (calls V c) + length steps) (levels V p) (levels V p').
  Proof.
    induction steps as [|[ins sw] t IH]; intros p p' HI Hr; cbn in Hr.
    - injection Hr as <-. clear. induction (levels V p); constructor; auto; cbn; lia.
    - destruct (pt_step p ins sw) as [p1|] eqn:E; [|discriminate].
      destruct (pt_step_inv p ins sw p1 HI E) as (HI1 & _).
      eapply Forall2_compose; [|apply (pt_step_calls p ins sw p1 HI E)|apply (IH p1 p' HI1 Hr)].
      cbn. intros a b c H1 H2. rewrite H2, H1. cbn [length]. lia.
  Qed.

  Lemma PTgeq_refl p : PTgeq p p.
  Proof. constructor; auto. induction (levels V p); constructor; auto. apply geq_refl. Qed.

  (** one evaluation per level per iteration, whatever the partition and the clears *)
  Theorem calls_count ops p p' :
    PTInv p -> Forall run_or_clear ops -> execs p ops = Good p' ->
    Forall2 (fun c c' => length (calls V c') = length (calls V c) + length (all_steps ops)) (levels V p) (levels V p').
  Proof.
    intros HI HF He.
    destruct (schedule_independent ops p p p' HI HI (PTgeq_refl p) HF He) as (q' & Er & G & _ & _).
    pose proof (run_steps_calls _ _ _ HI Er) as Hc.
    assert (Forall2 (fun c' q => calls V c' = calls V q) (levels V p') (levels V q')).
    { eapply Forall2_impl'; [|apply (G_lv _ _ G)]. intros a b Hg. apply Hg. }
    apply Forall2_flip' in H.
    eapply Forall2_compose; [|exact Hc|exact H].
    cbn. intros a b c H1 H2. now rewrite H2.
  Qed.

  (** the silent operations *)
  Lemma clear_calls c : calls V (clear V c) = calls V c.
  Proof. apply clear_ghost. Qed.
  Lemma set_state_calls c s : calls V (set_state V isnan vzero comps c s) = calls V c.
  Proof. cbn. apply clear_ghost. Qed.
  Lemma set_scratchlen_calls c n : calls V (set_scratchlen V c n) = calls V c.
  Proof. reflexivity. Qed.
  Lemma getitem_pure (c : chain) (i : Z) : True.   (* [getitem]/[get_state]/views are functions: they return no new state *)
  Proof. exact I. Qed.
  Lemma set_start_calls c p o c' :
    set_start V isneginf isnan comps c p o = Good c' -> calls V c' = calls V c ++ [(p, o)].
  Proof.
    unfold Machine.set_start. destruct o as [[logl logp] bl]. destruct (isneginf logp); [discriminate|].
    intros [= <-]. reflexivity.
  Qed.

  (** ** C09: the sweep schedule *)
  Theorem sweep_schedule p ins sw p' :
    pt_step p ins sw = Good p' ->
    exists ls, step_levels (levels V p) ins = Good ls /\
    let p1 := {| levels := ls; si := si V p; tS := tS V p; tA := tA V p; sweeps := sweeps V p |} in
    if (1 <? length ls) && (pt_iter p1 mod si V p =? 0)
    then sweeps V p' = sweeps V p ++ [(pt_iter p1, sweep_index p1 sw, rev (map fst sw))]
         /\ tS V p' = sc_set (tS V p) ((pt_iter p1 - lastclear V (lvl0 p1) - 1) / si V p) (sweep_index p1 sw)
         /\ tA V p' = sc_set (tA V p) ((pt_iter p1 - lastclear V (lvl0 p1) - 1) / si V p) (rev (map fst sw))
    else sweeps V p' = sweeps V p /\ tS V p' = tS V p /\ tA V p' = tA V p /\ levels V p' = ls.
  Proof.
    unfold Machine.pt_step. destruct (step_levels (levels V p) ins) as [ls|]; [|discriminate].
    intros H. exists ls. split; [reflexivity|]. cbn zeta.
    change (ntemps {| levels := ls; si := si V p; tS := tS V p; tA := tA V p; sweeps := sweeps V p |}) with (length ls) in H.
    destruct ((1 <? length ls) && _); injection H as <-; cbn; auto.
  Qed.

  (** ** C08: recorded (position, logl, logp) triples are results of model evaluations *)
  Definition ev2 (x : pos V * mout V) : pos V * stats V := let '(p, (l, lp, _)) := x in (p, (l, lp)).
  Definition row2 (r : hrow) : pos V * stats V := (h_pos V r, h_stats V r).
  Definition all_evals (ls : list chain) : list (pos V * stats V) := concat (map (fun c => map ev2 (calls V c)) ls).

  (** every record of a level is an evaluation made by some level, and so is its start triple *)
  Definition GenuineChain (E : list (pos V * stats V)) (c : chain) : Prop :=
    (forall r, In r (hist V c) -> In (row2 r) E)
    /\ (iter V c = 0 -> forall p s, start V c = Some p -> stats0 V c = Some s -> In (p, s) E).

  Lemma in_all_evals ls c x : In c ls -> In x (map ev2 (calls V c)) -> In x (all_evals ls).
  Proof. intros Hc Hx. unfold all_evals. apply in_concat. exists (map ev2 (calls V c)). split; [|exact Hx]. now apply (in_map (fun c => map ev2 (calls V c))). Qed.

  Lemma step_genuine E c c' i :
    Hist c -> GenuineChain E c -> step c i = Good c' ->
    (forall r, In r (hist V c') -> In (row2 r) (E ++ [ev2 (s_prop V i, s_out V i)])).
  Proof.
    intros HI (G1 & G2) Hs r Hr.
    destruct (step_fields V isneginf vzero c c' i Hs) as (_ & _ & _ & Eh & _).
    rewrite Eh in Hr. apply in_app_or in Hr as [Hr|[<-|[]]].
    - apply in_or_app. left. auto.
    - unfold step_row. unfold Machine.step in Hs.
      destruct (cur_pos c) as [cp|] eqn:Ep; [|discriminate]. destruct (cur_stats c) as [cs|] eqn:Es; [|discriminate].
      destruct (s_out V i) as [[logl logp] bl].
      destruct (if isneginf logp then (false, vzero) else match s_dec V i with Some d => d | None => (false, vzero) end) as [acc ar].
      destruct acc; unfold row2; cbn.
      + apply in_or_app. right. now left.
      + apply in_or_app. left.
        destruct (Nat.eq_dec (iter V c) 0) as [Ez|Ez].
        * assert (lastclear V c = 0) by (pose proof (H_le V vzero c HI); lia).
          unfold Machine.cur_pos, Machine.cur_stats, Machine.clen in Ep, Es. rewrite Ez, H in Ep, Es. cbn in Ep, Es.
          apply G2; auto.
        * destruct (cur_of_hist V vzero c HI) as (A & B & _); [lia|].
          rewrite A in Ep. rewrite B in Es. injection Ep as <-. injection Es as <-.
          apply (G1 (lastrow c)). unfold Machine.lastrow. apply last_In.
          intros Eh'. pose proof (H_len V vzero c HI) as Hl. rewrite Eh' in Hl. cbn in Hl. lia.
  Qed.

  (** ** setting the start positions of a fresh chain establishes the invariant *)
  Lemma set_starts_inv cs : forall ss ls,
    Forall (fun c => iter V c = 0 /\ lastclear V c = 0 /\ hist V c = []) cs ->
    set_starts V isneginf isnan comps cs ss = Good ls ->
    Forall (fun c => Hist c /\ Started c /\ iter V c = 0 /\ lastclear V c = 0) ls /\ length ls = length cs.
  Proof.
    induction cs as [|c cs IH]; intros ss ls HF Hs; cbn in Hs.
    - injection Hs as <-. auto.
    - destruct ss as [|[p o] ss]; [discriminate|].
      destruct (set_start V isneginf isnan comps c p o) as [c1|] eqn:E1; [|discriminate].
      destruct (set_starts V isneginf isnan comps cs ss) as [r|] eqn:E2; [|discriminate]. injection Hs as <-.
      inversion HF as [|? ? (A & B & C) HF']; subst.
      destruct (IH ss r HF' E2) as (H1 & H2).
      destruct (set_start_hist V isneginf isnan vzero comps c c1 p o A B C E1) as (X & Y & Z).
      assert (W : lastclear V c1 = 0).
      { unfold Machine.set_start in E1. destruct o as [[logl logp] bl]. destruct (isneginf logp); [discriminate|].
        injection E1 as <-. cbn. exact B. }
      split; [|cbn; lia]. constructor; auto.
  Qed.

  Theorem start_inv n swi ss p :
    0 < n -> exec (new_pt V n swi) (OStart V ss) = Good p -> PTInv p.
  Proof.
    intros Hn He. cbn in He.
    destruct (set_starts V isneginf isnan comps (repeat new_chain n) ss) as [ls|] eqn:E; [|discriminate].
    injection He as <-.
    assert (H0 : Forall (fun c => iter V c = 0 /\ lastclear V c = 0 /\ hist V c = []) (repeat new_chain n)).
    { apply Forall_forall. intros c Hc. apply repeat_spec in Hc. subst. cbn. auto. }
    destruct (set_starts_inv _ _ _ H0 E) as (HF & Hl).
    rewrite repeat_length in Hl. rewrite Forall_forall in HF.
    assert (Hne : ls <> []) by (intros ->; cbn in Hl; lia).
    constructor; cbn; auto.
    - apply Forall_forall. intros c Hc. apply (HF c Hc).
    - apply Forall_forall. intros c Hc. apply (HF c Hc).
    - intros c Hc. destruct (HF c Hc) as (_ & _ & A & B).
      destruct (HF _ (lvl0_in {| levels := ls; si := swi; tS := []; tA := []; sweeps := [] |} Hne)) as (_ & _ & A0 & B0).
      unfold Machine.pt_iter. rewrite A, B, A0, B0. auto.
  Qed.
End PT.
