(** Result type of the generated scalar kernels ([Gen/SrcNum.v]): what the Python function
    returns - (accept, ar) - together with whether a uniform was drawn on the way, or the
    ValueError it raises. *)
Inductive sres (T : Type) : Type :=
| SRet (accept : bool) (ar : T) (drew_uniform : bool)
| SRaise.
Arguments SRet {T} accept ar drew_uniform.
Arguments SRaise {T}.
