(** Result type of the generated scalar kernels ([Gen/SrcNum.v]): what the Python function
    returns - (accept, ar) - together with whether a uniform was drawn on the way, or the
    ValueError it raises. *)
Inductive sres (T : Type) : Type :=
| SRet (accept : bool) (ar : T) (drew_uniform : bool)
| SRaise.
Arguments SRet {T} accept ar drew_uniform.
Arguments SRaise {T}.

(** Actions of a plan rendered from [dump_pickle_to_hdf] ([Gen/SrcH5.v]): the h5py calls it makes on
    the dataset, in order. *)
Inductive h5act : Type :=
| ACreate (resizable : bool)            (* create_dataset(name, shape=(len,), [maxshape=(None,)]) *)
| ACreateWithData (resizable : bool)    (* create_dataset(name, data=bdata, [maxshape=(None,)]) *)
| AResize                               (* dset.resize((len,)) *)
| AAssign.                              (* dset[:] = bdata *)
