(** History independence of the cached densities: with one dictionary per parameter every query
    returns the uncached value, whatever was asked before; with one shared dictionary it does not. *)
From Coq Require Import List Bool Arith Lia.
From Epsie Require Import Cache.
Import ListNotations.

Section Proofs.
  Variable K V Sd : Type.
  Variable keqb : K -> K -> bool.
  Variable seqb : Sd -> Sd -> bool.
  Hypothesis keqb_eq : forall a b, keqb a b = true -> a = b.
  Hypothesis seqb_eq : forall a b, seqb a b = true -> a = b.
  Variable F : Sd -> K -> V.
  Notation pcache := (pcache K V Sd).

  (** every stored value is the uncached value for the remembered standard deviation *)
  Definition Inv (c : pcache) : Prop :=
    forall k v, In (k, v) (entries K V Sd c) -> exists s, cstd K V Sd c = Some s /\ v = F s k.

  Lemma find_key_in k l v : find_key K V keqb k l = Some v -> In (k, v) l.
  Proof.
    induction l as [|[k' v'] t IH]; cbn; [discriminate|].
    destruct (keqb k k') eqn:E; [intros [= <-]; apply keqb_eq in E; subst; now left|intros H; right; auto].
  Qed.

  Theorem lookup1_correct (c : pcache) (std : Sd) (key : K) :
    Inv c -> fst (lookup1 K V Sd keqb seqb F c std key) = F std key /\ Inv (snd (lookup1 K V Sd keqb seqb F c std key)).
  Proof.
    intros HI. unfold lookup1.
    destruct (same_std Sd seqb (cstd K V Sd c) std) eqn:Es.
    - (* same standard deviation: the dictionary is kept *)
      assert (Ec : cstd K V Sd c = Some std).
      { unfold same_std in Es. destruct (cstd K V Sd c); [|discriminate]. apply seqb_eq in Es. now subst. }
      destruct (find_key K V keqb key (entries K V Sd c)) as [v|] eqn:Ef; cbn [fst snd].
      + split; [|exact HI]. apply find_key_in in Ef. destruct (HI _ _ Ef) as (s & E1 & E2). congruence.
      + split; [reflexivity|]. intros k v [[= <- <-]|Hin]; cbn.
        * eauto.
        * destruct (HI _ _ Hin) as (s & E1 & E2). exists std. split; [reflexivity|congruence].
    - (* another standard deviation: cleared, recomputed *)
      cbn. split; [reflexivity|]. intros k v [[= <- <-]|[]]. cbn. eauto.
  Qed.

  (** whatever queries were made before, on any parameter and in any order, a query returns the
      uncached value F std key *)
  Theorem history_independent (cs : list pcache) (pi : nat) (std : Sd) (key : K) :
    Forall Inv cs ->
    fst (lookup K V Sd keqb seqb F cs pi std key) = F std key
    /\ Forall Inv (snd (lookup K V Sd keqb seqb F cs pi std key)).
  Proof.
    intros HI. unfold lookup.
    assert (Hc : Inv (nth pi cs (empty K V Sd))).
    { destruct (Nat.lt_ge_cases pi (length cs)) as [H|H].
      - rewrite Forall_forall in HI. apply HI, nth_In, H.
      - rewrite nth_overflow by exact H. intros k v []. }
    destruct (lookup1_correct _ std key Hc) as (A & B).
    destruct (lookup1 K V Sd keqb seqb F (nth pi cs (empty K V Sd)) std key) as [v c'] eqn:E. cbn [fst snd] in *.
    split; [exact A|].
    clear E A. revert pi Hc. induction HI as [|c t Hh Ht IH]; intros [|pi] Hc; cbn; constructor; auto.
  Qed.

  (** any sequence of queries: all answers are the uncached values *)
  Fixpoint run_queries (cs : list pcache) (qs : list (nat * Sd * K)) : list V :=
    match qs with
    | [] => []
    | (pi, std, key) :: t => let '(v, cs') := lookup K V Sd keqb seqb F cs pi std key in v :: run_queries cs' t
    end.
  Theorem all_queries_uncached (qs : list (nat * Sd * K)) : forall cs, Forall Inv cs ->
    run_queries cs qs = map (fun '(pi, std, key) => F std key) qs.
  Proof.
    induction qs as [|[[pi std] key] t IH]; intros cs HI; cbn; [reflexivity|].
    destruct (history_independent cs pi std key HI) as (A & B).
    destruct (lookup K V Sd keqb seqb F cs pi std key) as [v cs'] eqn:E. cbn [fst snd] in *.
    rewrite A, IH by exact B. reflexivity.
  Qed.
End Proofs.

(** the shared dictionary: two parameters with different standard deviations, the same key asked
    for parameter 0, then 1, then 0 again - the third answer is the one computed for parameter 1 *)
Definition Fdemo (s k : nat) : nat := s * 100 + k.
Definition demo : nat * nat :=
  let c0 := {| sentries := []; scstd := [None; None] |} in
  let '(v1, c1) := lookup_shared nat nat nat Nat.eqb Nat.eqb Fdemo c0 0 1 7 in
  let '(_, c2) := lookup_shared nat nat nat Nat.eqb Nat.eqb Fdemo c1 1 3 7 in
  let '(v3, _) := lookup_shared nat nat nat Nat.eqb Nat.eqb Fdemo c2 0 1 7 in
  (v1, v3).
Theorem shared_cache_depends_on_history : fst demo <> snd demo /\ fst demo = Fdemo 1 7.
Proof. vm_compute. split; [discriminate|reflexivity]. Qed.
